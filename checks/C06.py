"""C06 — gamma-function family: Factorial (memo table), Binomial_Coefficient, GammaLn, Gamma, the regularised
incomplete gamma functions P and Q with their three methods, Upper/Lower incomplete gamma, Inv_GammaP/Q.

Case lines: single requests (fact, binom, binomhist, gammaln, gamma, gamrec, pq, gammaq, gammap, upper, lower, pser, qcf, qint, qintw, integw, qmono, invp, invq;
they all run one after the other in the harness's worker process) and call histories
  seq m call_1 .. call_m     call = gammaln x | gamma x | gammaq x a | gammap x a | upper x a | lower x a | invp p a | invq q a | fact n | binom n k
which the harness runs in ONE process that has called nothing before (forked from a server process started before any library call);
the output is  m h_1 f_1 .. h_m f_m : the answer h_i inside the history and the answer f_i of a fresh process to the same call.
The model side is call_run of coq/C06_Model.v (the factorial table is the only state; theorem C06_call_history_independent: h_i = f_i).
Families of histories: ladders of one argument at a fixed shape, ladders of the shape, the functions interleaved at one shape, requests at SEVERAL
shapes with short-path calls in between (inverse whose solution underflows, p = 0 / 1, x = 0, subnormal x, a > 100 outside the quadrature window,
Binomial_Coefficient with k > n), rows of Binomial_Coefficient (many k at one n, k beyond n included, rows interleaved, Pascal neighbours).
The x range is covered down to its lower end: every binade to the smallest subnormal and the normal/subnormal border, paired with a ladder of small shapes.
The edges of the range of the RESULTS are covered too (tag result-edge): Gamma within a factor 1 .. 1e3 of DBL_MAX at both ends of its domain (x up to 171.6243.. and
x down to 5.56e-309), at a geometric ladder of distances and 1 .. 1000 ulp either side of the thresholds (computed from the reference by bisection), asked alone,
through the recurrence, and as the factor Gamma(a) of Upper / Lower; GammaLn over every decade of doubles and where its own result passes DBL_MAX; shapes a below 1e-300
down to the subnormals; inverses whose solution lies within 1 .. 1e3 of the smallest normal double.  Infinity is accepted exactly where the reference exceeds DBL_MAX."""
import math, os, re, subprocess, sys, time, shutil
if hasattr(sys, "set_int_max_str_digits"): sys.set_int_max_str_digits(0)     # factorials with thousands of digits are written into the S3 files
from fractions import Fraction
from decimal import Decimal as D, localcontext, Context, ROUND_HALF_EVEN
from concurrent.futures import ThreadPoolExecutor
from vcheck import Case, hx, flist, ilist, parse_vals
import vbuild

PID = "C06"
EPS = 2.0 ** -53          # unit roundoff of a double
TOL = (1e-13, 0.0)
RULE = ("non-trivial = an incomplete-gamma / inverse request whose (x,a) lies within 1e-3 relative of a switch-over of the method "
        "(x = a+1, a = 100, a = 1 for the inverse's initial guess, x = the quadrature window ends a-1 +- 10 sqrt a), or a Factorial history in which a call "
        "extends the memo table and a later call with a smaller argument is served from it, or a Binomial_Coefficient request with n within 2 of the "
        "Factorial/GammaLn switch at n = 170, or a GammaLn/Gamma argument within 1e-3 of 1 or 2 (zeros of GammaLn) or above 100; distinct by case text")
LEVEL_TEXT = ("Theorems (Coq, all inputs / all histories, about the Gallina model that is extracted and run against the C++ on every run): "
              "Factorial's memo-table state machine returns n! for every history of calls with arguments <= 170 (over R, and exactly over Z), keeps the table invariant "
              "nth k = k!, only ever appends to the table (size max(size,n+1)) and exits above 170; n! = n (n-1)!; Binomial_Coefficient returns exactly C(n,k) for 0<=k<=n<=170 from any reachable table, "
              "Pascal's rule, symmetry, 0 for n<k, exit for negative arguments; GammaP+GammaQ = 1, Upper+Lower = Gamma, GammaQ(0,a) = 1, the guards, which method answers where; "
              "on the quadrature branch (a > 100) the answer lies in [0,1]; "
              "in every history of calls to the whole family in one process (the factorial table is the only state the model - like the source - has) each call gets the answer a fresh process gives, and a repeated call the same answer; "
              "every call except Factorial and Binomial_Coefficient's Factorial branch leaves the process state untouched (Binomial_Coefficient with k > n, n > 170 or a negative argument and the inverses on every path included); "
              "Inv_GammaP's Halley loop answers 0 at once when its iterate is <= 0 (underflowing initial guess); "
              "GammaPser returns the k-th partial sum of sum_j x^j/(a(a+1)...(a+j)) times exp(-x + a ln x - GammaLn a) at the first k meeting the 2^-52 stopping test; GammaQcf's modified-Lentz state after n iterations is "
              "(A_{n-1}/A_n, Bt_n/Bt_{n-1}, Bt_n/A_n), i.e. the n-th convergent of the continued fraction with a_i = -i(i-a), b_i = x+2i+1-a (index advanced every iteration), as long as no clamp triggers; "
              "the reference identity e^-x sum_{k<=n} x^k/k! = 1 - (1/n!) RInt_0^x t^n e^-t used by the certified samples. "
              "Second part (all over the reals, i.e. about the method, not about rounding): GammaLn/Gamma exit for x <= 0, answer for x > 0, Gamma > 0 (C06_gamma_domain); "
              "Gamma is exp(GammaLn) at EVERY x > 0 however large the result - no level above which the answer is replaced: ln Gamma = GammaLn, Gamma > M iff GammaLn > ln M, two answers of Gamma are ordered as the two GammaLn (C06_gamma_no_threshold; "
              "in doubles the finite results up to DBL_MAX at x <= 171.6243 and infinity beyond are judged by S4 against the 60-digit reference at a ladder of distances from that threshold); "
              "the recurrence Gamma(x+1) = x Gamma(x) e^d, GammaLn(x+1) = GammaLn(x) + ln x + d with |d| <= 1e-14 for EVERY x in [2^-10, 10001] (C06_lanczos_recurrence_partial part 1, Coq-Interval Taylor models on the Lanczos formula; partial: not x < 2^-10 or x > 10001); "
              "by induction along it |GammaLn(n+1) - ln n!| <= (n+1) 1e-14 and n!/Gamma(n+1) within e^(+-(n+1)1e-14) at every integer n <= 10000 (C06_lanczos_recurrence_partial part 2; partial: integer arguments); "
              "the series branch at every integer shape a = q+1 and every x > 0, whatever the stopping index k: GammaPser = Ptr q!/exp(GammaLn a) with Ptr = e^-x sum_{i=q+1}^{q+1+k} x^i/i!, 0 <= Ptr <= P(x,a) <= 1 for the TRUE P(x,a) = (1/q!) RInt_0^x t^q e^-t, "
              "truncation error = e^-x times the exponential remainder and, on x < a+1, at most Ptr 2^-52 (q+k+3) by the loop's stopping test (C06_gser_integer_shape: with the previous theorem this is the accuracy and range clause for integer shapes on the series branch); "
              "Integrate/Adaptive_Simpson_Integration are exact on every cubic for every depth, tolerance and order of limits, antisymmetric in the limits, 0 on an empty interval (C06_integrate_laws); "
              "GammaQint's panel loop returns the sum of adjacent panels [t1+kw, min(x,t1+(k+1)w)] up to the first n with x <= t1+nw, for every integrand/start/width, and the exact integral on cubics (C06_panel_loop_tiles); "
              "GammaQint for every a > 0 and x never exits or exhausts the panel fuel: 0 right of a-1+10 sqrt a, 1 left of max(0,a-1-10 sqrt a), else 1 - clamp01(n <= 20 panels) (C06_gammaq_int_regions); for a > 100 GammaQ answers a probability at every x >= 0 and Inv_GammaP answers for every p (C06_large_a_total); "
              "Inv_GammaP's guards and Inv_GammaQ(q,a) = Inv_GammaP(1-q,a) (C06_inverse_guards); for 0 < p < 1 both initial guesses and every Halley iterate are positive for any number of steps, so the answer is > 0 (C06_inverse_positive); "
              "an exact solution is returned untouched and the answer is an iterate x_j of the Halley recurrence and an early stop means |correction| < 1e-8 answer (C06_halley_trace); "
              "Binomial_Coefficient for every n > 170, 0 <= k <= n answers floor(1/2 + exp(GammaLn(n+1)-GammaLn(k+1)-GammaLn(n-k+1))) without touching the table, and symmetry holds for every n (C06_binomial_large). "
              "Both sides of the switch-over x = a+1 without premises (C06_regions_unconditional, induction on the iteration count): for EVERY a > 0, x >= a+1 and every iteration n of GammaQcf neither FPMIN clamp triggers, "
              "the term index is n+1, and the state is the n-th convergent (d = A_{n-1}/A_n, c = Bt_n/Bt_{n-1}, h = Bt_n/A_n > 0, A_n/A_{n-1} >= n+1), so whenever GammaQcf answers the answer is exp(-x + a ln x - GammaLn a) Bt_n/A_n > 0 "
              "(for a <= 100: Q > 0, P < 1 there); for EVERY a > 0 and 0 < x < a+1 the series terms are positive and decreasing and GammaPser ANSWERS (no fuel exhaustion) at an index k <= N+52 for any integer N >= a+1, with a positive value "
              "(for a <= 100: GammaQ and GammaP both answer, P > 0, Q < 1, k <= 153). "
              "The accuracy clause on the series side at EVERY integer shape a <= 100 and EVERY 0 < x < a+1 with explicit constants and no premise (C06_series_accuracy_integer_shape_partial): GammaP answers p with "
              "e^-T P/(1 + 2^-52 (a+155)) <= p <= e^T P, T = a 1e-14, P the true P(x,a) = (1/(a-1)!) RInt_0^x t^(a-1) e^-t in (0,1] (relative error about 1.06e-12 over the reals; partial: integer shapes, series side, no rounding). "
              "Third part, theorems in EVERY arithmetic (any NumOps instance, so the IEEE doubles of the extracted program as they are, rounding / infinities / NaN included; no law of arithmetic used): "
              "in every history of calls to the whole family each call gets bit for bit the answer of a fresh process and a repeated call the same answer (C06_call_history_independent_any_arithmetic, C06_call_repeatable_any_arithmetic); "
              "Factorial in every call order answers the left-to-right product ((1*1)*2)..*n formed once by the arithmetic at hand, the table keeps entry k = that product and is only extended (C06_factorial_any_history_any_arithmetic), "
              "and n! = n (n-1)! holds EXACTLY, as the one product Factorial(n-1)*n, from any two reachable tables (C06_factorial_recurrence_exact_any_arithmetic); "
              "the fuel of the model's three loops is immaterial: an answer with some fuel is the answer with every larger fuel, the series / Lentz loops only answer or report exhausted fuel (C06_fuel_immaterial); "
              "under the laws of a strict total order alone (non-NaN doubles) and 0 < 1 every answer of GammaQint is 1 - g with 0 <= g <= 1 in that order (C06_gammaq_int_clamped_in_any_order); "
              "Halley's loop answers 0 at once on an iterate <= 0 (C06_inverse_underflow_returns_zero_any_arithmetic). "
              "Integrate's diagnostics are in the model now (C06_Model2.v: the flag bool& warning of Adaptive_Simpson_Integration, std::isnan(result), GammaQint's count of panels that printed them; compared with the library's captured "
              "std::cout on every run, ops qintw / integw): the extended model projects exactly onto the functions all other theorems are about, the counters count at most one per panel (C06_diagnostics_model_extends_model), "
              "and on every cubic integrand no convergence warning is raised for any recursion floor, tolerance and order of limits (C06_integrate_no_warning_on_cubics, reals). "
              "T-tie: Gamma, GammaQ (guards and choice of the method), GammaP, Upper_Incomplete_Gamma, Lower_Incomplete_Gamma, Inv_GammaQ are regenerated from clang's AST of src/Special_Functions.cpp on every run (coq/Gen_C06_Formulas.v) and "
              "proved equal to the hand model for all arguments (C06_generated_Gamma_GammaQ_GammaP_Upper_Lower_InvGammaQ_is_model under the literal laws, C06_generated_is_model_over_the_reals): a changed comparison, guard, literal, operand order or callee there breaks a proof before any case is run. "
              "NOT theorems: everything about rounding in double arithmetic beyond the any-arithmetic theorems of the third part (the analytic theorems are about the real-number model; the double evaluation is tied to it only by the bit-level correspondence run and judged by S3/S4); accuracy of GammaLn at non-integer arguments against the true ln Gamma; "
              "accuracy of the series at non-integer shapes, of the continued fraction and of the quadrature against the true P, Q; monotonicity in x; "
              "the range [0,1] for a <= 100 in floating point (and, over the reals, Q <= 1 on the continued-fraction side / P <= 1 on the series side at non-integer a); that the continued-fraction loop stops within its fuel; convergence of the Halley iteration of Inv_GammaP (inverse round trip); Pascal's rule and exactness of Binomial_Coefficient for n > 170. These clauses are covered by "
              "(a) kernel-certified samples: the library's doubles at generated points are proved by Coq-Interval to lie within the stated tolerance (1e-12 for a <= 100, 1e-3 above, absolute) of the closed form for integer a "
              "(and of (n-1)!, ln (n-1)! for Gamma/GammaLn), dense around x = a+1 and a = 100, and (b) implementation-side predicates against an independent 60-digit reference "
              "(Python decimal: positive-term series for P with a Stirling log-gamma), evaluated on every generated input: range, P+Q, monotonicity, accuracy, recurrences, Pascal, symmetry, inverse round trip. "
              "Known findings still in the tree: Inv_GammaP = NaN for a > 100 and p within 1e-8 of 1 (K-C06-2); Inv_GammaP unrefined when the solution is a subnormal double (K-C06-4); "
              "GammaQ slightly negative / GammaP slightly above 1 (by less than 1e-12) for shapes a below about 4e-15 (K-C06-5); "
              "GammaLn = +inf for 0 < x < 4.5939e-307 (an intermediate quotient overflows), hence Gamma = inf where 1/x is finite and GammaP = 0 / GammaQ = 1 / NaN at shapes a in that range (K-C06-6); "
              "GammaLn = +inf on (2.5560e305, 2.5599833e305] where ln Gamma is still below DBL_MAX (K-C06-7).")
LEVEL_NOTE = ("Coq 8.16.1 kernel; theorems over R use the standard library's real-number axioms (and Classical_Prop.classic through Coquelicot), the Z/nat theorems are axiom-free; "
              "certified samples and the theorem C06_lanczos_recurrence_partial additionally rest on Coq-Interval (primitive 63-bit integers through Bignums; files C06_Proofs_Lanczos1-3.v take about a minute of CPU each). Hand-written model tied by differential correspondence "
              "(extraction with ExtrOcamlBasic only); exp, log, sqrt, pow, floor are the same libm functions on both sides (modelled by exp, ln, sqrt, Rpower, Int_part in R). The two uncapped while loops carry a fuel of 100000 iterations "
              "and the panel loop of GammaQint a fuel of 64 in the model (exhaustion prints FUEL, never a value). The Lentz theorem carries the premises that no clamp |d|,|c| < FPMIN triggers and x+1-a <> 0. "
              "Integrate / Adaptive_Simpson_Integration are modelled in C06_Model.v as far as GammaQint uses them (depth 20); their convergence flag and the isnan test in C06_Model2.v (the isinf test and the text of the diagnostics are not modelled). "
              "T-tie: tools/cxx2gallina.py (clang AST -> Gallina) regenerates coq/Gen_C06_Formulas.v before the proofs are rebuilt; the tie lemmas assume LitLaws (integer literals 0, 1, 100 are the integers: exactly representable doubles). "
              "The looping functions (GammaLn, GammaPser, GammaQcf, GammaQint, Inv_GammaP, Factorial, Binomial_Coefficient, Integrate) stay hand-written; the exact list is coverage/C06.md.")
TRUSTED = ["S4 reference: Python decimal (60 digits) series for P(x,a) with a Stirling-series log-gamma, self-tested at import against closed forms (integer and half-integer a)",
           "S3: Coq-Interval 4.x (interval tactic) on generated goals; the closed form for integer a is tied to the integral definition by theorem C06_q_integer_closed_form"]
ASSUMPTIONS = ["'agree to 1e-12 / 1e-3' is read as absolute error on P and Q (both lie in [0,1])",
               "the quantifier 'over histories' is read as: every clause holds for every answer after every history of calls in one process, and the answer to a request does not depend on the calls made before it "
               "(the source has no state besides the factorial table, so an answer inside a history is required to equal, bit for bit, the answer of a fresh process)",
               "'a few units in the last place' for Gamma/GammaLn/Binomial is read on the scale of the intermediate terms of GammaLn (slack 4*eps*sum|t_k| per evaluation, DESIGN 5.3), "
               "since Gamma = exp(GammaLn) cannot be better than eps*|GammaLn| relative"]

# ------------------------------------------------------------------------------------------------ T-tie
COQ = os.path.join(os.path.dirname(os.path.dirname(os.path.abspath(__file__))), "coq")


def gen_functions():
    """T-tie: the straight-line functions of the family (src/Special_Functions.cpp) that are regenerated from clang's AST on every run
    (coq/Gen_C06_Formulas.v) and proved equal to the hand model in coq/C06_GenTie.v.  The looping functions they call (GammaLn, GammaQint,
    GammaPser, GammaQcf, Inv_GammaP) are parameters of the generated terms; the tie lemmas instantiate them with the hand model's functions."""
    sys.path.insert(0, os.path.join(os.path.dirname(COQ), "tools"))
    import cxx2gallina as c
    F, E, d = c.Fn, c.Ext, "double"
    fns = [F("Gamma", [d], "g_Gamma"), F("GammaQ", [d, d], "g_GammaQ"), F("GammaP", [d, d], "g_GammaP"),
           F("Upper_Incomplete_Gamma", [d, d], "g_Upper_Incomplete_Gamma"), F("Lower_Incomplete_Gamma", [d, d], "g_Lower_Incomplete_Gamma"),
           F("Inv_GammaQ", [d, d], "g_Inv_GammaQ")]
    exts = [E("GammaLn", [d], "gammaLn"), E("GammaQint", [d, d], "gammaQint"), E("GammaPser", [d, d], "gammaPser"), E("GammaQcf", [d, d], "gammaQcf"),
            E("Inv_GammaP", [d, d], "inv_gammaP")]
    return c, fns, exts


def regenerate():
    c, fns, exts = gen_functions()
    try:
        txt = c.translate_all(os.path.join(vbuild.REPO, "src", "Special_Functions.cpp"), fns, [os.path.join(vbuild.REPO, "include")], exts, False)
    except c.Unsupported as e:
        raise RuntimeError(f"tools/cxx2gallina.py cannot translate src/Special_Functions.cpp: {e}")
    ch = c.write_if_changed(os.path.join(COQ, "Gen_C06_Formulas.v"), txt)
    return "Gen_C06_Formulas.v regenerated from the current source" if ch else ""


# ------------------------------------------------------------------------------------------------ reference
_CTX = Context(prec=60, rounding=ROUND_HALF_EVEN, Emin=-999999999, Emax=999999999)


def _bernoulli(n):
    B = [Fraction(0)] * (n + 1); A = [Fraction(0)] * (n + 1)
    for m in range(n + 1):
        A[m] = Fraction(1, m + 1)
        for j in range(m, 0, -1): A[j - 1] = j * (A[j - 1] - A[j])
        B[m] = A[0]
    return B


_B = _bernoulli(52)
with localcontext(_CTX):
    _STIRL = [D(_B[2 * k].numerator) / D(_B[2 * k].denominator * 2 * k * (2 * k - 1)) for k in range(1, 26)]
    _PI = D("3.14159265358979323846264338327950288419716939937510582097494459230781640628620899862803482534")
    _HALF_LN_2PI = (2 * _PI).ln() / 2


def d_lgamma(z):
    """ln Gamma(z) for a Decimal z > 0, about 55 digits (Stirling series after shifting the argument above 40)"""
    with localcontext(_CTX):
        prod = D(1)
        while z < 40:
            prod *= z; z += 1
        zi = 1 / z; z2 = zi * zi; s = D(0); pw = zi
        for c in _STIRL:
            s += c * pw; pw *= z2
        return (z - D("0.5")) * z.ln() - z + _HALF_LN_2PI + s - prod.ln()


def d_P(x, a):
    """regularised lower incomplete gamma P(x,a) for doubles x >= 0, a > 0, as a Decimal (absolute error < 1e-50):
    P = x^a e^-x / Gamma(a+1) * sum_k x^k / ((a+1)...(a+k)), all terms positive."""
    if x == 0: return D(0)
    with localcontext(_CTX):
        X, A = D(x), D(a)
        term = D(1); s = D(1); k = 0
        tiny = D("1e-58")
        while True:
            k += 1
            term = term * X / (A + k)
            s += term
            if term < s * tiny and k > x - a: break
        lg = A * X.ln() - X - d_lgamma(A + 1)
        return s * lg.exp()


def f_PQ(x, a):
    """double-precision reference (P, Q) for a > 100 (tolerance 1e-3): series below a+1, Legendre continued fraction above"""
    if x == 0: return 0.0, 1.0
    lg = a * math.log(x) - x - math.lgamma(a)
    if lg < -745: return (0.0, 1.0) if x < a else (1.0, 0.0)
    if x < a + 1:
        ap = a; d = s = 1.0 / a
        while abs(d) > abs(s) * 1e-17:
            ap += 1; d *= x / ap; s += d
        p = s * math.exp(lg); return p, 1.0 - p
    tiny = 1e-300; b = x + 1 - a; c = 1 / tiny; d = 1 / b; h = d
    for i in range(1, 100000):
        an = -i * (i - a); b += 2
        d = an * d + b; d = tiny if abs(d) < tiny else d
        c = b + an / c; c = tiny if abs(c) < tiny else c
        d = 1 / d; de = d * c; h *= de
        if abs(de - 1) < 1e-16: break
    q = math.exp(lg) * h; return 1.0 - q, q


def ref_PQ(x, a):
    """(P, Q) as floats and the reference's own absolute error bound"""
    if a <= 100.0:
        p = d_P(x, a)
        with localcontext(_CTX): q = 1 - p
        return float(p), float(q), 1e-16
    p, q = f_PQ(x, a)
    return p, q, 1e-9 + 4e-16 * (a * abs(math.log(x)) + x + abs(math.lgamma(a))) if x > 0 else 0.0


def _selftest():
    # integer a: Q(x,n) = e^-x sum_{k<n} x^k/k!   (exact rational sum, one exp)
    for x, n in [(5.0, 2), (0.3, 1), (12.5, 10), (101.0, 100), (3.0, 40), (250.0, 100)]:
        s = sum(Fraction(x) ** k / math.factorial(k) for k in range(n))
        with localcontext(_CTX):
            q = (D(s.numerator) / D(s.denominator)) * (-D(x)).exp()
            assert abs((1 - d_P(x, float(n))) - q) < D("1e-45"), (x, n)
    # half-integer a: Q(x,1/2) = erfc(sqrt x), Q(x,a+1) = Q(x,a) + x^a e^-x / Gamma(a+1)
    for x in (0.25, 1.0, 4.0, 9.0):
        assert abs(float(1 - d_P(x, 0.5)) - math.erfc(math.sqrt(x))) < 1e-15
        q = math.erfc(math.sqrt(x)) + math.exp(-x) * math.sqrt(x) / math.gamma(1.5)
        assert abs(float(1 - d_P(x, 1.5)) - q) < 1e-15
    for z in (0.5, 1.0, 3.25, 17.5, 100.0, 170.0, 4321.5):
        assert abs(float(d_lgamma(D(z))) - math.lgamma(z)) <= 2e-15 * max(1.0, abs(math.lgamma(z))), z   # glibc lgamma: a few ulp
    with localcontext(_CTX):
        assert abs(d_lgamma(D(51)) - D(math.factorial(50)).ln()) < D("1e-50")
    for x, a in [(150.0, 140.0), (3000.0, 3100.0), (120.0, 101.0)]:
        assert abs(f_PQ(x, a)[0] - float(d_P(x, a))) < 1e-10


_selftest()


def gl_terms(x):
    """sum of the magnitudes of the intermediate terms of GammaLn(x) = (x+.5) log(x+g) - (x+g) + log(c*sum/x)"""
    t = x + 5.2421875
    return abs((x + 0.5) * math.log(t)) + abs(t) + abs(math.log(2.5066282746310005) - math.log(x)) + 1.0     # = |log(c/x)|, written so that a subnormal x does not overflow the quotient


def gl_slack(x):
    """a priori absolute rounding slack of one GammaLn evaluation: 4 eps per unit of intermediate magnitude
    (log <= 1 ulp, one product, one sum per term) + 8 eps for the truncation of Lanczos' series (documented 1e-15)"""
    return EPS * (4 * gl_terms(x) + 8)


# ---- Gamma / GammaLn judged at every output magnitude (results up to DBL_MAX, arguments down to the subnormals and up to 1e308)
DBL_MAX = sys.float_info.max
_COF = [57.1562356658629235, -59.5979603554754912, 14.1360979747417471, -0.491913816097620199, .339946499848118887e-4, .465236289270485756e-4, -.983744753048795646e-4,
        .158088703224912494e-3, -.210264441724104883e-3, .217439618115212643e-3, -.164318106536763890e-3, .844182239838527433e-4, -.261908384015814087e-4, .368991826595316234e-5]


def gl_slack_d(x):
    """gl_slack as a Decimal, without overflow of its own for arguments up to 1e308"""
    with localcontext(_CTX):
        X = D(x); t = X + D("5.2421875")
        terms = abs((X + D("0.5")) * t.ln()) + t + abs((D("2.5066282746310005") / X).ln()) + 1
        return D(EPS) * (4 * terms + 8)


def gln_arg_overflows(x):
    """region label only (K-C06-6): the argument c*sum/x of GammaLn's last logarithm exceeds DBL_MAX (x below 4.5939e-307)"""
    s = 0.999999999999997092; y = x
    for c in _COF:
        y += 1.0; s += c / y
    return math.isinf(2.5066282746310005 * s / x)


def gln_region(x, v):
    """suffix of a signature about GammaLn / Gamma at argument x with answer v: the two bands where an intermediate of GammaLn overflows although
    the result does not (K-C06-6: x < 4.5939e-307, c*sum/x; K-C06-7: the last 1/700 below the true overflow of ln Gamma at x = 2.55998e305, (x+.5) log(x+g))"""
    if isinstance(v, float) and v == math.inf:
        if 0 < x < 1e-300 and gln_arg_overflows(x): return ":tiny-x-intermediate-overflow"
        if x > 2.5e305 and math.isinf((x + 0.5) * math.log(x + 5.2421875)): return ":huge-x-intermediate-overflow"
    return ""


def gammaln_check(x, v):
    """None, or (region suffix, message): GammaLn(x) = v against the 60-digit reference, at every magnitude; +inf is right only where ln Gamma(x) > DBL_MAX (to the slack)"""
    with localcontext(_CTX):
        ref = d_lgamma(D(x)); sl = gl_slack_d(x) + D(EPS) * abs(ref)
        if math.isnan(v) or v == -math.inf: ok = False
        elif v == math.inf: ok = ref + sl >= D(DBL_MAX)
        else: ok = abs(D(v) - ref) <= sl
        if ok: return None
        return gln_region(x, v), f"GammaLn({x!r}) = {v!r}, reference {float(ref) if ref < D(DBL_MAX) else '%.17E' % ref!r} (allowed {float(sl):.3g})"


def gamma_check(x, g):
    """None, or (region suffix, message): Gamma(x) = g against exp of the 60-digit ln Gamma, relative slack of one GammaLn evaluation + 4 eps;
    +inf is the right answer exactly where Gamma(x) exceeds DBL_MAX (either answer inside the slack of that threshold)"""
    with localcontext(_CTX):
        lref = d_lgamma(D(x)); sl = gl_slack_d(x) + D(4 * EPS)
        if lref > 720:       # Gamma(x) > 1e312: overflow
            if g == math.inf: return None
            return gln_region(x, g), f"Gamma({x!r}) = {g!r}, but ln Gamma = {float(lref) if lref < D(DBL_MAX) else math.inf!r}: the result exceeds DBL_MAX"
        ref = lref.exp()
        if math.isnan(g) or g == -math.inf: ok = False
        elif g == math.inf: ok = ref * (1 + sl) >= D(DBL_MAX)
        else: ok = abs(D(g) - ref) <= sl * ref
        if ok: return None
        return gln_region(x, g), f"Gamma({x!r}) = {g!r}, reference {'%.17E' % ref} (relative {float(abs(D(g) - ref) / ref) if math.isfinite(g) else math.inf:.3g}, allowed {float(sl):.3g})"


def gamma_ref_float(x):
    """the reference Gamma(x) as a double (inf above DBL_MAX)"""
    with localcontext(_CTX):
        lref = d_lgamma(D(x))
        if lref > 720: return math.inf
        r = lref.exp()
        return float(r) if r < D(DBL_MAX) else math.inf


def gamma_recurrence_check(x, g0, g1, s):
    """None, or (region suffix, message): Gamma(x+1) = g1 against x * Gamma(x) = x * g0 to the relative slack s, infinity included:
    an infinite Gamma(x+1) is right only when x Gamma(x) reaches DBL_MAX (to the slack), an infinite Gamma(x) only with an infinite Gamma(x+1) (x >= 1)"""
    if math.isnan(g0) or math.isnan(g1): return gln_region(x, g0), f"Gamma({x!r}) = {g0!r}, Gamma({x + 1.0!r}) = {g1!r}"
    if math.isfinite(g0) and math.isfinite(g1):
        if abs(Fraction(g1) - Fraction(x) * Fraction(g0)) <= Fraction(s) * abs(Fraction(g1)): return None
        return "", f"Gamma({x+1.0!r}) = {g1!r} but x Gamma(x) = {x * g0!r} (relative {float(abs(Fraction(g1) - Fraction(x) * Fraction(g0)) / abs(Fraction(g1))) if g1 else math.inf:.3g}, allowed {s:.3g})"
    if math.isfinite(g0):        # Gamma(x+1) = inf
        if g1 == math.inf and Fraction(x) * Fraction(g0) * (1 + Fraction(s)) >= Fraction(DBL_MAX): return None
        return gln_region(x + 1.0, g1), f"Gamma({x+1.0!r}) = {g1!r} but x Gamma(x) = {x!r} * {g0!r} is a finite double"
    if g0 == math.inf and g1 == math.inf: return None
    # Gamma(x) = inf with a finite Gamma(x+1): right only if Gamma(x+1)/x exceeds DBL_MAX (tiny x)
    if g0 == math.inf and Fraction(g1) * (1 + Fraction(s)) >= Fraction(DBL_MAX) * Fraction(x): return None
    return gln_region(x, g0), f"Gamma({x!r}) = {g0!r} but Gamma(x+1)/x = {g1!r}/{x!r} is a finite double"


def _solve(f, lo, hi):
    """bisection on doubles: the last lo with not f(lo) (f monotone false -> true)"""
    for _ in range(1200):
        mid = lo + (hi - lo) / 2
        if mid == lo or mid == hi: break
        if f(mid): hi = mid
        else: lo = mid
    return lo


with localcontext(_CTX):
    _LN_MAX = D(DBL_MAX).ln()
    X_GAMMA_TOP = _solve(lambda x: d_lgamma(D(x)) > _LN_MAX, 170.0, 172.0)            # 171.6243769563027: Gamma(x) = DBL_MAX
    X_GAMMA_BOT = _solve(lambda x: d_lgamma(D(x)) < _LN_MAX, 1e-310, 1e-300)          # 5.562684646268e-309: Gamma(x) = DBL_MAX from below (Gamma ~ 1/x)
    X_LN_TOP = _solve(lambda x: d_lgamma(D(x)) > D(DBL_MAX), 1e305, 1e306)            # 2.5599833e305: ln Gamma(x) = DBL_MAX
X_GLN_T = _solve(lambda x: not gln_arg_overflows(x), 1e-308, 1e-306)                  # 4.5939e-307: below it c*sum/x overflows (K-C06-6)
assert 171.62 < X_GAMMA_TOP < 171.63 and 5.5e-309 < X_GAMMA_BOT < 5.6e-309 and 2.55e305 < X_LN_TOP < 2.57e305 and 4.59e-307 < X_GLN_T < 4.6e-307


# ------------------------------------------------------------------------------------------------ generator
def _near(rng, v):
    r = rng.random()
    if r < 0.15: return v
    if r < 0.3: return math.nextafter(v, math.inf)
    if r < 0.45: return math.nextafter(v, -math.inf)
    return v * (1 + rng.choice([-1, 1]) * 10 ** rng.uniform(-15, -2.5))


def _rand_a(rng):
    r = rng.random()
    if r < 0.10: return float(rng.randint(1, 100))                    # integer a: closed form
    if r < 0.17: return rng.randint(0, 99) + 0.5                      # half-integer
    if r < 0.30: return _near(rng, 100.0)                             # the a = 100 switch
    if r < 0.36: return float(rng.choice([101, 102, 110, 150, 200, 1000, 5000, 10000]))
    if r < 0.46: return 10 ** rng.uniform(2, 4)                       # quadrature branch
    if r < 0.52: return 10 ** (rng.uniform(-8, -1) if rng.random() < 0.7 else rng.uniform(-300, -8))     # tiny a: every decade down to 1e-300
    if r < 0.56: return _near(rng, 1.0)
    return 10 ** rng.uniform(-1, 2)


DBL_MIN = 2.2250738585072014e-308      # smallest normal double; below it: subnormals down to DENORM_MIN
DENORM_MIN = 5e-324


def _ulps(rng, v, kmax=1000):
    """v moved by 1 .. kmax units in the last place (geometric ladder of distances), either side"""
    k = int(round(10 ** rng.uniform(0, math.log10(kmax)))); d = rng.choice([-math.inf, math.inf])
    for _ in range(k): v = math.nextafter(v, d)
    return v


def _around(rng, v, emin=-16.0, emax=-0.5):
    """v itself, v at 1 .. 1000 ulp, v at relative distances 10^emin .. 10^emax (a geometric ladder), either side"""
    r = rng.random()
    if r < 0.08: return v
    if r < 0.40: return _ulps(rng, v)
    return v * (1 + rng.choice([-1, 1]) * 10 ** rng.uniform(emin, emax))


def _gamma_edge_x(rng):
    """arguments at which the RESULT of Gamma lies at the edge of the double range: Gamma(x) within a factor 1 .. 1e3 (and a little beyond, both sides)
    of DBL_MAX at the upper end of the domain (x = 171.6243.., finite below, infinite above) and at its lower end (Gamma ~ 1/x at x = 5.56e-309 .. 5.6e-306)"""
    r = rng.random()
    if r < 0.34: return X_GAMMA_TOP - 10 ** rng.uniform(-13, 0.2)          # finite results, distance ladder below the threshold (factor 1 .. 3e3 below DBL_MAX)
    if r < 0.46: return _ulps(rng, X_GAMMA_TOP)
    if r < 0.56: return X_GAMMA_TOP + 10 ** rng.uniform(-13, 0.5)          # overflow side: infinity is the answer
    if r < 0.70: return rng.uniform(170.2, X_GAMMA_TOP)
    if r < 0.74: return rng.choice([170.5, 171.0, 171.25, 171.5, 171.6, 171.62, 171.624, 172.0, 175.0])
    if r < 0.86: return max(DENORM_MIN, X_GAMMA_BOT * 10 ** rng.uniform(-0.5, 3.3))      # lower end: Gamma within 1 .. 2e3 of DBL_MAX, subnormal and normal x
    if r < 0.93: return max(DENORM_MIN, _around(rng, rng.choice([X_GAMMA_BOT, DBL_MIN, X_GLN_T])))
    return _tiny_x(rng)


def _gammaln_edge_x(rng):
    """arguments at the edges of GammaLn's range: the whole ladder of decades down to the smallest subnormal and up to DBL_MAX, the point where
    ln Gamma(x) itself passes DBL_MAX (x = 2.56e305), results within 1 .. 1e3 of it"""
    r = rng.random()
    if r < 0.25: return X_LN_TOP * (1 - 10 ** rng.uniform(-16, 0))         # finite results up to DBL_MAX: distance ladder below
    if r < 0.35: return _ulps(rng, X_LN_TOP)
    if r < 0.45: return min(DBL_MAX, X_LN_TOP * (1 + 10 ** rng.uniform(-16, 2.5)))
    if r < 0.65: return 10 ** rng.uniform(4, 308.2)                        # every decade upwards
    if r < 0.75: return max(DENORM_MIN, _around(rng, rng.choice([X_GLN_T, DBL_MIN, X_GAMMA_BOT])))
    return _tiny_x(rng)


def _tiny_shape(rng):
    """the lower end of the shape range (0, 1e4]: every decade below 1e-300 to the smallest subnormal, the normal/subnormal border, the point where 1/a passes DBL_MAX"""
    r = rng.random()
    if r < 0.35: return 10 ** rng.uniform(-307.6, -300)
    if r < 0.60: return max(DENORM_MIN, _around(rng, rng.choice([X_GLN_T, DBL_MIN, X_GAMMA_BOT])))
    if r < 0.80: return 2.0 ** rng.uniform(-1074, -1022)
    return DENORM_MIN * rng.choice([1, 2, 3, rng.randint(1, 1000), 2 ** rng.randint(0, 51)])


def _tiny_x(rng):
    """the lower end of the x range [0, ..]: the whole ladder of binades below 1e-12 down to the smallest subnormal,
    the normal/subnormal border at 1 .. 1000 ulp and at relative distances 1e-16 .. 1e-1, small multiples of the smallest subnormal"""
    r = rng.random()
    if r < 0.30: return 2.0 ** rng.uniform(-1074, -1022)                # subnormal, log-uniform
    if r < 0.42: return DENORM_MIN * rng.choice([1, 1, 2, 3, rng.randint(1, 1000), 2 ** rng.randint(0, 51)])
    if r < 0.54: return _ulps(rng, DBL_MIN) if rng.random() < 0.8 else DBL_MIN
    if r < 0.64: return max(DENORM_MIN, DBL_MIN * (1 + rng.choice([-1, 1]) * 10 ** rng.uniform(-16, -0.05)))
    if r < 0.70: return DBL_MIN * 2.0 ** rng.randint(-3, 3)
    return 10 ** rng.uniform(-307, -12)                                 # normal, tiny: every decade


def _small_a(rng):
    """shapes for which P(x,a) ~ x^a / Gamma(a+1) is NOT small at tiny x: a geometric ladder below 1 (and a few ordinary ones)"""
    r = rng.random()
    if r < 0.38: return 10 ** rng.uniform(-8, -1)
    if r < 0.45: return 10 ** rng.uniform(-300, -8)
    if r < 0.60: return rng.choice([1e-300, 1e-100, 1e-20, 1e-16, 1e-8, 1e-6, 1e-4, 1e-3, 2.5e-3, 0.01, 0.02, 0.035, 0.04, 0.05, 0.1])
    if r < 0.75: return 10 ** rng.uniform(-1, 0)
    if r < 0.85: return rng.choice([0.25, 0.5, 1.0, 1.5, 3.0, 100.0])
    return _rand_a(rng)


def _rand_x(rng, a):
    top = a + 40 * math.sqrt(a) + 40
    r = rng.random()
    if r < 0.03: return _tiny_x(rng)                                  # the lower end of the range, down to the subnormals
    r = (r - 0.03) / 0.97
    if r < 0.30: x = _near(rng, a + 1.0)                              # the series / continued-fraction switch
    elif r < 0.45: x = max(0.0, a - 1 + rng.gauss(0, 1) * 3 * math.sqrt(a))   # around the peak
    elif r < 0.55: x = 10 ** rng.uniform(-12, 0) * min(1.0, a)        # small x
    elif r < 0.62 and a > 100: x = _near(rng, a - 1 + rng.choice([-10, 10]) * math.sqrt(a))   # ends of the quadrature window
    elif r < 0.66: x = top * (1 - rng.random() * 1e-3)
    elif r < 0.68: x = 0.0
    else: x = rng.uniform(0, top)
    return min(max(x, 0.0), top)


def _history(rng):
    r = rng.random()
    if r < 0.25:
        ns = list(range(171)); rng.shuffle(ns); return ns[:rng.choice([171, 171, 40, 10])]
    if r < 0.35: return list(range(170, -1, -rng.choice([1, 7, 13])))
    if r < 0.45: return list(range(0, 171, rng.choice([1, 5, 17])))
    m = rng.choice([1, 2, 3, 5, 8, 20, 60])
    return [rng.choice([0, 1, 2, 20, 21, 22, 23, 169, 170, rng.randint(0, 170), rng.randint(0, 30)]) for _ in range(m)]


def _pascal_case(n, k, tag):
    return Case(f"binomhist 4 {n} {k} {n-1} {k-1} {n-1} {k} {n} {n-k}", ("binomial",) + tag)


# ---- histories of calls to the whole family in one (pristine) process: "seq m call_1 .. call_m"
_QUANTILES = [0.001, 0.005, 0.01, 0.025, 0.05, 0.1, 0.25, 0.5, 0.75, 0.9, 0.95, 0.975, 0.99, 0.995, 0.999]
P_LO, P_HI = 1.0000001e-12, 1 - 1.0000001e-12


def _seq_a(rng):
    r = rng.random()
    if r < 0.30: return rng.choice([0.1, 0.25, 1 / 3, 0.5, 0.75, 0.9, 1.0, 1.5, 2.0, 2.5, 3.0, 5.0, 10.0, 25.0, 50.0, 99.0, 100.0])
    if r < 0.42: return 10 ** rng.uniform(-2, 0)                      # a < 1: the inverse's power-law initial guess, x ~ p^(1/a)
    if r < 0.52: return _near(rng, rng.choice([1.0, 100.0]))
    if r < 0.62: return rng.choice([101.0, 150.0, 1000.0, 10 ** rng.uniform(2, 4)])
    return _rand_a(rng)


def _ladder(rng, v0, lo, hi, n):
    """n values of one argument that vary slowly, repeat, or jump: the call histories of scans, tables and root searches"""
    r = rng.random(); sgn = rng.choice([-1, 1]); out = [v0]
    if r < 0.22:       # geometric ladder of decades (or fractions of a decade), going down or up
        f = 10 ** (sgn * rng.choice([0.25, 0.5, 1, 1, 2, 3]))
        for _ in range(n - 1): out.append(out[-1] * f)
    elif r < 0.40:     # arithmetic scan with a small step (absolute 1e-9 .. 1e-2 of the scale)
        d = sgn * max(abs(v0), 1e-300) * 10 ** rng.uniform(-9, -2)
        for _ in range(n - 1): out.append(out[-1] + d)
    elif r < 0.58:     # near-equal arguments: relative distances 1e-16 .. 1e-6, a geometric ladder, both sides
        for k in range(n - 1):
            e = rng.uniform(-16, -6) if rng.random() < 0.5 else -16 + 10 * k / max(n - 2, 1)
            out.append(v0 * (1 + rng.choice([-1, 1]) * 10 ** e))
    elif r < 0.68:     # neighbouring doubles
        for _ in range(n - 1): out.append(math.nextafter(out[-1], sgn * math.inf))
    elif r < 0.80:     # repeated identical arguments with far-away ones in between
        for _ in range(n - 1): out.append(v0 if rng.random() < 0.5 else lo + (hi - lo) * rng.random())
    elif r < 0.90:     # large then small (and back): jumps over many decades
        for k in range(n - 1):
            out.append((hi * 10 ** rng.uniform(-2, 0)) if k % 2 == 0 else max(lo, min(abs(v0), 1.0) * 10 ** rng.uniform(-12, -1)))
        if rng.random() < 0.5: out.reverse()
    else:              # bisection-like: halving steps towards a target
        tgt = lo + (hi - lo) * rng.random()
        for _ in range(n - 1): out.append(0.5 * (out[-1] + tgt))
    return [min(max(v, lo), hi) for v in out]


def _p_ladder(rng, a, n):
    r = rng.random()
    hi = P_HI if a <= 100.0 else 1 - 1e-6     # beyond: the region of K-C06-2, visited by the single-call stream under a quota
    if r < 0.15:
        ps = list(_QUANTILES)
        if rng.random() < 0.5: ps.reverse()
        k = rng.randint(0, max(0, len(ps) - n)); return ps[k:k + n]
    if r < 0.55: p0 = 10 ** rng.uniform(-11.9, math.log10(0.5))            # lower tail
    elif r < 0.8: p0 = 1 - 10 ** rng.uniform(-11.9, math.log10(0.5))       # upper tail
    else: p0 = rng.random()
    if r >= 0.55 and r < 0.8 and rng.random() < 0.6:      # ladder in 1-p
        return [min(max(1 - q, P_LO), hi) for q in _ladder(rng, 1 - p0, P_LO, 0.5, n)]
    return _ladder(rng, min(max(p0, P_LO), hi), P_LO, hi, n)


def _inv_p(rng, a):
    """a target for the inverses inside the property's range (1e-12, 1-1e-12); for a > 100 outside the region of K-C06-2"""
    r = rng.random()
    if r < 0.40: p = 10 ** rng.uniform(-11.9, -0.3)            # lower tail: for small a the solution (p Gamma(a+1))^(1/a) is tiny or underflows
    elif r < 0.55: p = 1 - 10 ** rng.uniform(-11.9, -0.3)
    elif r < 0.70: p = rng.choice(_QUANTILES)
    else: p = rng.random()
    return min(max(p, P_LO), P_HI if a <= 100.0 else 1 - 1e-6)


def _short_path_call(rng, shapes):
    """a legitimate call that every function of the family answers through one of its short paths (a return before or inside the main
    loop, a guard that answers instead of exiting): the places where a call can leave something half done behind"""
    H = hx; a = rng.choice(shapes); r = rng.random()
    if r < 0.30:      # inverse whose initial guess (p/t)^(1/a) underflows: Halley's loop returns 0 at its first test
        a = 10 ** rng.uniform(-8, -1.5); p = 10 ** rng.uniform(-11.9, -0.3)
        return (f"invp {H(max(p, P_LO))} {H(a)}" if rng.random() < 0.6 else f"invq {H(min(1.0 - p, P_HI))} {H(a)}"), "inverse-underflow"
    if r < 0.40: return f"{rng.choice(['invp', 'invq'])} {H(rng.choice([0.0, 1.0]))} {H(a)}", "inverse-end-point"     # p = 0, p = 1: answered without a search
    if r < 0.52: return f"{rng.choice(['gammaq', 'gammap', 'upper', 'lower'])} {H(0.0)} {H(a)}", "x=0"
    if r < 0.62:      # subnormal x
        return f"{rng.choice(['gammaq', 'gammap', 'upper', 'lower'])} {H(_tiny_x(rng))} {H(_small_a(rng))}", "tiny-x"
    if r < 0.72:      # a > 100 outside the quadrature window: answered 0 / 1 without integrating
        b = rng.choice([101.0, 150.0, 1000.0, 10 ** rng.uniform(2.01, 4)]); sg = rng.choice([-1, 1])
        x = max(b - 1 + sg * (10 + 10 ** rng.uniform(-6, 1)) * math.sqrt(b), 1e-3)
        return f"{rng.choice(['gammaq', 'gammap'])} {H(min(x, b + 40 * math.sqrt(b) + 40))} {H(b)}", "outside-window"
    if r < 0.90:      # Binomial_Coefficient with k > n: 0 by definition (PMF_Binomial(trials, p, x > trials) makes this call)
        n = rng.choice([rng.randint(0, 400), rng.randint(171, 400), 170, 171, 172, 400]); return f"binom {n} {n + rng.choice([1, 1, 2, rng.randint(1, 300)])}", "n<k"
    return f"fact {rng.choice([0, 1, 170, rng.randint(0, 170)])}", "table"


def _ordinary_call(rng, a):
    """one ordinary request at shape a"""
    H = hx; op = rng.choice(["gammaq", "gammaq", "gammap", "gammap", "upper", "lower", "invp", "invq", "gammaln", "gamma"])
    if op in ("gammaln", "gamma") and 170.0 < a < 173.0: return f"{op} {H(a if rng.random() < 0.7 else a - 1.0)}"     # the end of Gamma's domain: asked at the shape itself
    if op in ("gammaln", "gamma"): return f"{op} {H(min(a, 170.0) if rng.random() < 0.7 else min(a + 1.0, 171.0))}"
    if op in ("invp", "invq"):
        p = _inv_p(rng, a)
        return f"{op} {H(p if op == 'invp' else min(max(1.0 - p, P_LO if a <= 100.0 else 1e-6), P_HI))} {H(a)}"
    x = _rand_x(rng, a)
    if a <= 20 and rng.random() < 0.3: x = rng.choice([0.3, 0.5, 1.0, 2.0, 2.5, 4.0, 6.5, a, a + 1.0, a + 2.0])
    return f"{op} {H(x)} {H(a)}"


def _shape(rng):
    r = rng.random()
    if r < 0.25: return rng.choice([0.5, 1.0, 1.5, 2.0, 3.0, 3.5, 4.0, 5.0, 10.0, 25.0, 50.0, 99.0, 100.0])
    if r < 0.40: return 10 ** rng.uniform(-2, 0)
    if r < 0.52: return 10 ** (rng.uniform(-8, -1.5) if rng.random() < 0.8 else rng.uniform(-300, -8))
    if r < 0.62: return _near(rng, rng.choice([1.0, 100.0]))
    if r < 0.72: return rng.choice([101.0, 150.0, 1000.0, 10 ** rng.uniform(2, 4)])
    if r < 0.76: return X_GAMMA_TOP - 10 ** rng.uniform(-13, 0.2)      # Gamma(a) within 1 .. 3e3 of DBL_MAX: the factor of Upper / Lower
    return 10 ** rng.uniform(-1, 2)


def _cross_shape_calls(rng, n):
    """requests at SEVERAL different shapes a in one process, every function of the family, short-path calls in between:
    whatever one call keeps for its own shape must not reach a call at another shape"""
    shapes = [_shape(rng) for _ in range(rng.choice([2, 2, 3, 4]))]
    if rng.random() < 0.5: shapes.append(shapes[0] * (1 + rng.choice([-1, 1]) * 10 ** rng.uniform(-15, -3)))     # two nearly equal shapes
    calls = []; kinds = set()     # kinds: which short paths the history visits (for the record only)
    pat = rng.random()
    if pat < 0.45:        # short-path call(s) first, ordinary requests afterwards
        for _ in range(rng.choice([1, 1, 2])):
            c, k = _short_path_call(rng, shapes); calls.append(c); kinds.add(k)
        while len(calls) < n: calls.append(_ordinary_call(rng, rng.choice(shapes)))
    elif pat < 0.75:      # ordinary requests with short-path calls scattered in between
        while len(calls) < n:
            if rng.random() < 0.35:
                c, k = _short_path_call(rng, shapes); calls.append(c); kinds.add(k)
            else: calls.append(_ordinary_call(rng, rng.choice(shapes)))
    else:                 # round robin over the shapes with one and the same request (tables over a)
        op = rng.choice(["gammaq", "gammap", "upper", "lower", "invp", "invq"]); u = rng.random()
        while len(calls) < n:
            a = shapes[len(calls) % len(shapes)]
            if op.startswith("inv"): calls.append(f"{op} {hx(min(max(u, 1e-6), 1 - 1e-6))} {hx(a)}")
            else: calls.append(f"{op} {hx(min(u * (a + 1.0) * 2, a + 40 * math.sqrt(a) + 40))} {hx(a)}")
            if rng.random() < 0.3: calls.append(_ordinary_call(rng, rng.choice(shapes)))
    return calls


def _binomial_rows_calls(rng, n):
    """Binomial_Coefficient as PMF_Binomial / CDF_Binomial and Pascal-triangle builders call it: many k at one n (k beyond n included, answered 0),
    a few rows interleaved, the neighbours of Pascal's rule, both sides of the Factorial / GammaLn switch at n = 170"""
    def row_n(): return rng.choice([rng.randint(0, 400), rng.randint(171, 400), rng.randint(171, 400), 169, 170, 171, 172, 400, rng.randint(0, 30)])
    rows = [row_n() for _ in range(rng.choice([1, 2, 2, 3]))]
    if rng.random() < 0.4: rows.append(max(rows[0] - 1, 0))
    def some_k(m): return rng.choice([0, 1, 2, m // 2, max(m - 1, 0), m, m, m + 1, m + 1, m + rng.randint(1, 60), 2 * m + 1, 401, rng.randint(0, max(m, 1)), rng.randint(0, max(m, 1))])
    calls = []
    pat = rng.random()
    if pat < 0.4:         # row after row
        for m in rows:
            for _ in range(max(2, n // len(rows))): calls.append((m, some_k(m)))
    elif pat < 0.7:       # rows interleaved
        for _ in range(n): m = rng.choice(rows); calls.append((m, some_k(m)))
    else:                 # Pascal's rule and symmetry around (n,k), preceded by a request beyond the row's end
        m = max(rows[0], 1); k = rng.randint(1, m)
        calls = [(m, m + rng.randint(1, 5))] if rng.random() < 0.6 else []
        calls += [(m, k), (m - 1, k - 1), (m - 1, k), (m, m - k), (m, k)]
        while len(calls) < n: mm = rng.choice(rows); calls.append((mm, some_k(mm)))
    if rng.random() < 0.3: calls.insert(rng.randint(0, len(calls)), None)
    return [f"binom {c[0]} {c[1]}" if c else f"fact {rng.randint(0, 170)}" for c in calls]



def _seq_case(rng):
    n = rng.choice([2, 2, 3, 4, 6, 8, 12, 16])
    a = _seq_a(rng); top = a + 40 * math.sqrt(a) + 40
    fam = rng.random(); calls = []
    H = hx
    if fam < 0.14:        # several shapes a in one process, short-path calls in between
        tag = "cross-shape"; calls = _cross_shape_calls(rng, max(n, 3)); fam = -1.0
    elif fam < 0.22:      # rows of Binomial_Coefficient
        tag = "binomial-rows"; calls = _binomial_rows_calls(rng, max(n, 3)); fam = -1.0
    else: fam = (fam - 0.22) / 0.78
    if fam < 0.0: pass
    elif fam < 0.30:      # one inverse at fixed a, slowly varying / repeated / descending p (quantile tables, root searches)
        op = rng.choice(["invp", "invp", "invq"]); tag = "inverse-ladder"
        for p in _p_ladder(rng, a, n):
            if op == "invq" and a > 100.0: p = max(p, 1e-6)     # q below 1e-6 at a > 100: the region of K-C06-2 again
            calls.append(f"{op} {H(p)} {H(a)}")
    elif fam < 0.40:      # both inverses interleaved at fixed a
        tag = "inverse-interleaved"
        for p in _p_ladder(rng, a, n):
            calls.append(f"invp {H(p)} {H(a)}" if rng.random() < 0.5 else f"invq {H(min(max(1.0 - p, P_LO), P_HI if a <= 100 else 1.0))} {H(a)}")
    elif fam < 0.55:      # one incomplete-gamma function at fixed a, ladder of x
        op = rng.choice(["gammaq", "gammap", "upper", "lower"]); tag = "x-ladder"
        for x in _ladder(rng, _rand_x(rng, a) or a, 0.0, top, n): calls.append(f"{op} {H(x)} {H(a)}")
    elif fam < 0.68:      # fixed x (or p), ladder of the shape a: fine scans in a, derivatives with respect to a, a = 100 and a = 1 crossed
        op = rng.choice(["gammaq", "gammap", "upper", "lower", "invp", "invq"]); tag = "a-ladder"
        u = _rand_x(rng, a) if not op.startswith("inv") else min(max(rng.random(), 1e-6), 1 - 1e-6)
        for b in _ladder(rng, a, 1e-300, 1e4, n):
            uu = min(u, b + 40 * math.sqrt(b) + 40) if not op.startswith("inv") else u
            calls.append(f"{op} {H(uu)} {H(b)}")
    elif fam < 0.80:      # GammaLn / Gamma: ladders of x, x and x+1, near integers
        tag = "gamma-ladder"
        x0 = rng.choice([float(rng.randint(1, 170)), rng.uniform(0.01, 170.0), 10 ** rng.uniform(-6, 0), a if a <= 170 else 100.0])
        top_x = 170.5
        if rng.random() < 0.25:      # the upper end of Gamma's domain: results up to DBL_MAX, and infinity beyond
            x0 = min(max(_gamma_edge_x(rng), 170.2), 172.5); top_x = X_GAMMA_TOP + 0.9
        for x in _ladder(rng, x0, 1e-10, top_x, n):
            op = rng.choice(["gammaln", "gamma"])
            calls.append(f"{op} {H(x)}")
            if rng.random() < 0.3 and x + 1 <= 171.0: calls.append(f"{op} {H(x + 1.0)}")
    elif fam < 0.88:      # Factorial / Binomial_Coefficient histories mixed with the table-free functions
        tag = "table-mixed"
        for _ in range(n):
            r = rng.random()
            if r < 0.4: calls.append(f"fact {rng.choice([0, 1, 2, 22, 23, 169, 170, rng.randint(0, 170)])}")
            elif r < 0.8:
                m = rng.choice([rng.randint(0, 400), 169, 170, 171, 172]); calls.append(f"binom {m} {rng.randint(0, m)}")
            else: calls.append(f"gamma {H(float(rng.randint(1, 171)))}")
    else:                 # everything interleaved around one shape a: the functions call each other (GammaLn inside P/Q inside the inverses)
        tag = "interleaved"
        ps = _p_ladder(rng, a, n); xs = _ladder(rng, _rand_x(rng, a) or a, 0.0, top, n)
        for p, x in zip(ps, xs):
            op = rng.choice(["gammaln", "gamma", "gammaq", "gammap", "upper", "lower", "invp", "invq", "fact", "binom"])
            if op in ("gammaln", "gamma"): calls.append(f"{op} {H(min(a, 170.0) if rng.random() < 0.7 else min(a + 1.0, 171.0))}")
            elif op == "fact": calls.append(f"fact {rng.randint(0, 170)}")
            elif op == "binom":
                m = rng.randint(0, 400); calls.append(f"binom {m} {rng.randint(0, m)}")
            elif op in ("invp", "invq"): calls.append(f"{op} {H(max(p, 1e-6) if (op == 'invq' and a > 100.0) else p)} {H(a)}")
            else: calls.append(f"{op} {H(x)} {H(a)}")
    calls = calls[:24]
    return Case(f"seq {len(calls)} " + " ".join(calls), ("history", tag))


def generate(rng, tier):
    cs = []
    big = tier != "quick"
    # ---- histories of calls (one pristine process per case), every function of the family
    for _ in range(5000 if big else 1000):
        cs.append(_seq_case(rng))
    # ---- Factorial histories (every call order is one case line); exits are cases of their own
    for _ in range(400 if big else 40):
        cs.append(Case("fact " + ilist(_history(rng)), ("factorial", "history")))
        if rng.random() < 0.3:
            cs.append(Case(f"fact 1 {rng.choice([171, 172, 200, 1000, 4294967295])}", ("factorial", "exit")))
    for n in range(171): cs.append(Case(f"fact 2 {n} {max(n-1,0)}", ("factorial", "recurrence")))
    h = _history(rng)[:20]; h.insert(len(h) // 2, 171); cs.append(Case("fact " + ilist(h), ("factorial", "exit")))
    # ---- Binomial_Coefficient: Pascal quadruples (n,k), (n-1,k-1), (n-1,k), (n,n-k)
    if big:
        for n in range(1, 401):
            for k in range(1, n + 1): cs.append(_pascal_case(n, k, ("exhaustive",)))
    else:
        for n in list(range(1, 41)) + [169, 170, 171, 172, 399, 400]:
            for k in range(1, n + 1): cs.append(_pascal_case(n, k, ("grid",)))
        for _ in range(700):
            n = rng.randint(1, 400); k = rng.randint(1, n); cs.append(_pascal_case(n, k, ("random",)))
    for n in range(0, 401, 1 if big else 7):
        cs.append(Case(f"binom {n} 0", ("binomial", "edge")))
        cs.append(Case(f"binom {n} {n + 1 + rng.randint(0, 5)}", ("binomial", "n<k")))
    for n, k in [(-1, 0), (0, -1), (-3, -2), (5, -1), (-1, 5), (-2147483648, 1)] + [(rng.randint(-5, -1), rng.randint(-5, 400)) for _ in range(6 if big else 2)]:
        cs.append(Case(f"binom {n} {k}", ("binomial", "exit")))
    # ---- GammaLn / Gamma and the recurrence Gamma(x+1) = x Gamma(x)
    for _ in range(6000 if big else 500):
        r = rng.random()
        if r < 0.2: x = float(rng.randint(1, 170))
        elif r < 0.3: x = rng.randint(0, 169) + 0.5
        elif r < 0.45: x = _near(rng, rng.choice([1.0, 2.0, 3.0, 100.0, 170.0]))
        elif r < 0.6: x = 10 ** rng.uniform(-10, 0)
        else: x = rng.uniform(0, 170.5)
        if x <= 0 or x > 170.6: x = 1.5
        cs.append(Case(f"gamrec {hx(x)}", ("gamma", "recurrence")))
    for _ in range(2000 if big else 200):
        x = 10 ** rng.uniform(-300, 6) if rng.random() < 0.3 else 10 ** rng.uniform(0, 4.01)
        cs.append(Case(f"gammaln {hx(x)}", ("gammaln",)))
    for x in [0.0, -0.0, -1.0, -0.5, -1e-300, -1e300]:
        cs.append(Case(f"gammaln {hx(x)}", ("gammaln", "exit")))
    cs.append(Case(f"gamma {hx(-2.0)}", ("gamma", "exit")))
    cs.append(Case(f"gamma {hx(171.7)}", ("gamma", "overflow")))
    # ---- the edges of the range of the RESULT: Gamma within 1 .. 1e3 of DBL_MAX (upper end x = 171.62.., lower end x = 5.6e-309 ..), asked alone,
    #      as Gamma(x+1) of the recurrence, and as the factor Gamma(a) of Upper / Lower; GammaLn over every decade of doubles and where its result passes DBL_MAX.
    #      The two bands in which an intermediate of GammaLn overflows (K-C06-6, K-C06-7) are visited under a quota.
    kq = {}      # quota per stream of cases inside the regions of K-C06-6 (tiny argument / shape) and K-C06-7 (huge argument)
    def edge_ok(x, stream):
        if x < X_GLN_T * 1.0000001 or (x > 2.55e305 and x <= X_LN_TOP * 1.0000001):
            kq.setdefault(stream, 60 if big else 10)
            if kq[stream] <= 0: return False
            kq[stream] -= 1
        return True
    for _ in range(4000 if big else 300):
        x = _gamma_edge_x(rng); r = rng.random()
        if not edge_ok(x, 'gamma'): x = X_GAMMA_TOP - 10 ** rng.uniform(-13, 0.2)
        if r < 0.35: cs.append(Case(f"gamma {hx(x)}", ("gamma", "result-edge")))
        elif r < 0.65: cs.append(Case(f"gamrec {hx(x - 1.0 if x > 2 else x)}", ("gamma", "recurrence", "result-edge")))
        elif r < 0.75: cs.append(Case(f"gamrec {hx(x)}", ("gamma", "recurrence", "result-edge")))
        else:
            xx = _rand_x(rng, x) if rng.random() < 0.7 else rng.choice([0.5, 1.0, 160.0, x - 1.0 if x > 2 else x, x + 1.0])
            cs.append(Case(f"pq {hx(max(xx, 0.0))} {hx(x)}", ("pq", "result-edge", "a>100" if x > 100 else "a<=100")))
    for _ in range(1500 if big else 120):
        x = _gammaln_edge_x(rng)
        if not edge_ok(x, 'gammaln-lo' if x < 1 else 'gammaln-hi'): x = 10 ** rng.uniform(4, 305)
        cs.append(Case(f"gammaln {hx(x)}", ("gammaln", "result-edge")))
    # ---- the lower end of the shape range (0, 1e4]: below 1e-300 down to the subnormals (the region of K-C06-6 under the same quota)
    for _ in range(600 if big else 40):
        a = _tiny_shape(rng)
        if not edge_ok(a, 'shape'): a = 10 ** rng.uniform(-306.3, -300)
        x = _rand_x(rng, a) if rng.random() < 0.5 else rng.choice([_tiny_x(rng), 10 ** rng.uniform(-12, 0), 0.5, 1.0, 1.0 + a, 3.0, 30.0])
        r = rng.random()
        if r < 0.7: cs.append(Case(f"pq {hx(x)} {hx(a)}", ("pq", "tiny-shape")))
        elif r < 0.85: cs.append(Case(f"invp {hx(_inv_p(rng, a))} {hx(a)}", ("inverse", "tiny-shape")))
        else: cs.append(Case(f"qmono {hx(a)} {flist(sorted([x, 0.0, 1e-300, 1e-3, 0.5, 1.0, 1.0 + a, 2.0, 40.0]))}", ("monotone", "tiny-shape")))
    # ---- inverses whose SOLUTION lies at the lower edge of the normal range (within 1 .. 1e3 of the smallest normal double; below it: K-C06-4)
    for _ in range(400 if big else 30):
        xt = DBL_MIN * 10 ** rng.uniform(0.0, 3.0); a = 10 ** rng.uniform(-3.5, -0.5)
        p = float(d_P(xt, a))
        if P_LO < p < P_HI: cs.append(Case(f"invp {hx(p)} {hx(a)}", ("inverse", "solution-at-smallest-normal")))
    # ---- P, Q, Upper, Lower over the quantifier
    for _ in range(40000 if big else 2200):
        a = _rand_a(rng); x = _rand_x(rng, a)
        cs.append(Case(f"pq {hx(x)} {hx(a)}", ("pq", "a>100" if a > 100 else "a<=100")))
    # ---- the lower end of the x range: subnormal and tiny x (every binade down to the smallest subnormal, the normal/subnormal border),
    #      paired with the shapes for which P(x,a) ~ x^a/Gamma(a+1) is not negligible there (a ladder of small a) and with ordinary ones
    for _ in range(6000 if big else 320):
        a = _small_a(rng); x = _tiny_x(rng)
        cs.append(Case(f"pq {hx(x)} {hx(a)}", ("pq", "tiny-x", "a>100" if a > 100 else "a<=100")))
    for a in ([1e-3, 0.01, 0.03, 0.25, 1.0, 3.0] if not big else [1e-8, 1e-6, 1e-4, 1e-3, 2.5e-3, 0.01, 0.02, 0.03, 0.035, 0.04, 0.05, 0.1, 0.25, 0.5, 1.0, 3.0, 100.0, 101.0]):
        for x in (DENORM_MIN, 1e-320, 1e-310, math.nextafter(DBL_MIN, 0.0), DBL_MIN, math.nextafter(DBL_MIN, 1.0), 1e-300, 1e-200, 1e-100, 1e-30):
            cs.append(Case(f"pq {hx(x)} {hx(a)}", ("pq", "tiny-x-grid")))
    # the two switch-overs on a grid of integer a (closed form available), both sides
    for a in ([1, 2, 3, 5, 10, 25, 50, 99, 100, 101, 150] if not big else list(range(1, 161))):
        for dx in (0.0, -1e-9, 1e-9, -0.5, 0.5):
            cs.append(Case(f"pq {hx(a + 1.0 + dx)} {hx(float(a))}", ("pq", "switch-grid")))
    # ---- dense scans in x through the quadrature window for a > 100 (the accuracy there fails on narrow bands, K-C06-3)
    for a in ([101.0, 150.0, 1000.0] + [10 ** rng.uniform(2, 4) for _ in range(17)] if big else [rng.choice([101.0, 150.0, 1000.0]), 10 ** rng.uniform(2, 4)]):
        m = 5000 if big else 1500; s_ = math.sqrt(a); k0 = rng.random()
        for j in range(m):
            x = a - 1 + (-3 + 13.2 * (j + k0) / m) * s_
            cs.append(Case(f"gammaq {hx(x)} {hx(a)}", ("pq", "quadrature-scan")))
    # ---- the inputs of the known findings and of the repaired defect (F04), as fixed cases
    for x, a in [(189.55, 101.0), (1279.35, 1000.0), (2260.917800090744, 2221.0613920814853), (190.0, 101.0), (5.0, 2.0)]:
        cs.append(Case(f"pq {hx(x)} {hx(a)}", ("pq", "known-input")))
    cs.append(Case(f"invp {hx(1.0 - 1e-9)} {hx(110.0)}", ("inverse", "known-input")))
    cs.append(Case(f"invp {hx(0.072188005829971216)} {hx(0.0036588774231683407)}", ("inverse", "known-input")))
    # ---- monotonicity in x: increasing abscissae, scattered and in tight clusters across x = a+1
    for _ in range(4000 if big else 300):
        a = _rand_a(rng)
        r = rng.random()
        if r < 0.12:      # from the smallest subnormal up through the normal/subnormal border to ordinary x, small shapes
            a = _small_a(rng); xs = sorted(set([0.0, DENORM_MIN, math.nextafter(DBL_MIN, 0.0), DBL_MIN, math.nextafter(DBL_MIN, 1.0)] + [_tiny_x(rng) for _ in range(8)] + [10 ** rng.uniform(-12, 0)]))
        elif r < 0.5:
            xs = sorted(_rand_x(rng, a) for _ in range(12))
        else:
            c = rng.choice([a + 1.0, max(a - 1.0, 1e-3), a + 1.0 + math.sqrt(a)]); xs = [c]
            for _ in range(6): xs.append(math.nextafter(xs[-1], math.inf))
            xs = [c * (1 - 10 ** -e) for e in (3, 6, 9, 12)] + xs + [c * (1 + 10 ** -e) for e in (12, 9, 6, 3)]
        cs.append(Case(f"qmono {hx(a)} {flist(xs)}", ("monotone", "a>100" if a > 100 else "a<=100")))
    # ---- the three methods called directly, on both sides of the switch (correspondence of each loop)
    for _ in range(6000 if big else 500):
        a = min(_rand_a(rng), 300.0); s = math.sqrt(a + 1)
        x = max(1e-6, a + 1 + rng.uniform(-2, 2) * s) if rng.random() < 0.7 else _near(rng, a + 1.0)
        cs.append(Case(f"pser {hx(x)} {hx(a)}", ("method", "series")))
        xq = max(x, 0.3 * (a + 1), 0.5)
        cs.append(Case(f"qcf {hx(xq)} {hx(a)}", ("method", "continued-fraction")))
        if rng.random() < 0.3:
            a2 = 10 ** rng.uniform(0.5, 4); cs.append(Case(f"qint {hx(_rand_x(rng, a2))} {hx(a2)}", ("method", "quadrature")))
    # ---- the quadrature branch together with the diagnostics of Integrate (coq/C06_Model2.v): GammaQint's answer and the number of panels whose
    #      Integrate call reported "did not converge" / "Result is nan"; and single panels of GammaQint's integrand handed to Integrate with a recursion
    #      floor 0 .. 8 (and the 20 GammaQint uses), so that both outcomes of  bottom <= 0 && fabs(S2 - S) > 15 epsilon  are visited
    for _ in range(2500 if big else 50):
        a2 = _near(rng, 100.0) if rng.random() < 0.15 else 10 ** rng.uniform(2, 4)
        a2 = min(max(a2, math.nextafter(100.0, math.inf)), 1e4)
        cs.append(Case(f"qintw {hx(_rand_x(rng, a2))} {hx(a2)}", ("method", "quadrature-diagnostics")))
    for _ in range(2500 if big else 90):
        a2 = 10 ** rng.uniform(2, 4); w = math.sqrt(a2); lo = max(0.0, a2 - 1 - 10 * w)
        t1 = lo + w * rng.randint(0, 19) if rng.random() < 0.8 else lo + w * rng.uniform(0, 20)
        t2 = t1 + w * (1.0 if rng.random() < 0.7 else rng.random())
        fx = f"exp + - c {hx(-math.lgamma(a2))} x * log x c {hx(a2 - 1.0)}"
        cs.append(Case(f"integw {fx} {hx(t1)} {hx(t2)} {hx(1e-8)} {rng.choice([0, 0, 1, 2, 3, 4, 6, 8, 20])}", ("integrate", "warning-branch")))
    for fx, lo, hi in [("sqrt - x c 0x1p+0", 0.0, 2.0), ("log x", -1.0, 1.0), ("c 0x1p+0", 0.0, 1.0), ("x", 1.0, 1.0), ("* x x", 2.0, 0.0), ("sqrt x", 0.0, 1.0), ("abs - x c 0x1p-2", 0.0, 1.0)]:
        for d in (0, 1, 5, 20):
            cs.append(Case(f"integw {fx} {hx(lo)} {hx(hi)} {hx(1e-8)} {d}", ("integrate", "warning-branch")))
    for x, a in [(5.0, 2.0), (3.0, 2.0), (1.0, 2.0), (20.0, 1.5), (101.0, 100.0), (2.0, 1.0)]:
        cs.append(Case(f"qcf {hx(x)} {hx(a)}", ("method", "continued-fraction")))
        cs.append(Case(f"gammaq {hx(x)} {hx(a)}", ("pq", "point")))
    # ---- guards
    for x, a in [(-1.0, 1.0), (1.0, 0.0), (1.0, -2.0), (-1e-300, 5.0), (0.0, 0.0), (-0.0, 1.0), (0.0, 1.0), (0.0, 1e4), (0.0, 150.0)]:
        for op in ("gammaq", "gammap", "upper", "lower"):
            cs.append(Case(f"{op} {hx(x)} {hx(a)}", ("pq", "guard")))
    # ---- inverses
    nan_quota = 400 if big else 40
    for _ in range(12000 if big else 900):
        a = _rand_a(rng)
        r = rng.random()
        if r < 0.35: p = 10 ** rng.uniform(-12, math.log10(0.5))
        elif r < 0.7: p = 1 - 10 ** rng.uniform(-12, math.log10(0.5))
        elif r < 0.8: p = _near(rng, 0.5)
        elif r < 0.9 and a <= 1: p = _near(rng, 1.0 - a * (0.253 + a * 0.12))
        else: p = rng.random()
        p = min(max(p, 1.0000001e-12), 1 - 1.0000001e-12)
        op = "invp" if rng.random() < 0.7 else "invq"
        # a > 100 with the target P within 1e-6 of 1 is the region of known finding K-C06-2 (NaN); a quota of such cases is generated
        if a > 100.0 and (p if op == "invp" else 1.0 - p) > 1 - 1e-6:
            if nan_quota > 0: nan_quota -= 1
            else: p = min(max(rng.random(), 1e-3), 1 - 1e-3)
        cs.append(Case(f"{op} {hx(p)} {hx(a)}", ("inverse", "a>100" if a > 100 else "a<=100")))
    # a just above 1: the Wilson-Hilferty guess (used for a > 1) is poorest there, Halley needs its full accuracy
    for _ in range(3000 if big else 170):
        a = 1 + 10 ** rng.uniform(-3, -0.5); p = rng.uniform(0.5, 0.999)
        cs.append(Case(f"invp {hx(p)} {hx(a)}", ("inverse", "a-just-above-1")))
    # shapes slightly above 1 (ladder a-1 = 1e-6 .. 3) with small targets (log ladder 1e-7 .. 1e-2; q = 1-p through Inv_GammaQ): the Wilson-Hilferty cube of the
    # starting value is negative or tiny there and only the clamp max(1e-3, .) keeps Halley's loop from answering 0 at its first test; alone and inside histories
    for i in range(1500 if big else 110):
        a = 1.0 + 10 ** rng.uniform(-6, math.log10(3.0)); p = 10 ** rng.uniform(-7, -2)
        if rng.random() < 0.25: p = 10 ** rng.uniform(-6.9, -3.5)     # well inside: deviation |0 - p| far above 1e-7
        if rng.random() < 0.6: cs.append(Case(f"invp {hx(p)} {hx(a)}", ("inverse", "a-above-1-small-p")))
        else: cs.append(Case(f"invq {hx(1.0 - p)} {hx(a)}", ("inverse", "a-above-1-small-p")))
        if i % 4 == 0:      # the same class inside a history: a ladder of small targets at one shape, both inverses, an ordinary request in between
            calls = []
            for _ in range(rng.choice([2, 3, 4])):
                pj = 10 ** rng.uniform(-7, -2)
                calls.append(f"invp {hx(pj)} {hx(a)}" if rng.random() < 0.6 else f"invq {hx(1.0 - pj)} {hx(a)}")
                if rng.random() < 0.4: calls.append(_ordinary_call(rng, a))
            cs.append(Case(f"seq {len(calls)} " + " ".join(calls), ("history", "inverse-small-p-a-above-1")))
    for p, a in [(0.0, 2.0), (1.0, 2.0), (1.5, 2.0), (-0.5, 2.0), (1.0, 1e4), (0.5, 0.0), (0.5, -1.0), (1.0, 0.5)]:
        cs.append(Case(f"invp {hx(p)} {hx(a)}", ("inverse", "guard")))
        cs.append(Case(f"invq {hx(p)} {hx(a)}", ("inverse", "guard")))
    return cs


def _rel_close(u, v, r=1e-3): return abs(u - v) <= r * max(abs(u), abs(v), 1e-300)


def nontrivial(c, io):
    t = c.line.split(); op = t[0]
    if op == "seq":
        calls = seq_calls(c.line)
        if len(calls) < 2 or io.split()[0] != str(len(calls)): return False
        for u, w in zip(calls, calls[1:]):
            if u[0] != w[0] or len(u) != 3 or u[0] in ("binom",): continue
            x0, a0, x1, a1 = (float.fromhex(z) for z in (u[1], u[2], w[1], w[2]))
            # the same function twice in a row with one argument kept and the other moved by less than 1e-3 (absolute or relative): the distance at which memo / warm-start shortcuts act
            if (a0 == a1 and x0 != x1 and (abs(x0 - x1) < 1e-3 or _rel_close(x0, x1))) or (x0 == x1 and a0 != a1 and _rel_close(a0, a1)): return True
        return any(nontrivial(Case(" ".join(cl)), "0x0p+0") for cl in calls if cl[0] not in ("fact", "binom", "invp", "invq"))
    if op == "fact":
        ns = [int(v) for v in t[2:]]; top = 0; grew = False
        for n in ns:
            if n > 170: return False
            if n > top: top = n; grew = True
            elif grew and n < top: return True
        return False
    if op in ("binom", "binomhist"):
        v = [int(z) for z in t[2:]] if op == "binomhist" else [int(t[1])]
        return any(168 <= n <= 172 for n in v[0::2])
    if op in ("gamrec", "gammaln", "gamma"):
        x = float.fromhex(t[1]) if t[1] not in ("nan",) else math.nan
        return x > 100 or _rel_close(x, 1.0) or _rel_close(x, 2.0)
    if op in ("pq", "gammaq", "gammap", "upper", "lower", "pser", "qcf", "qint", "qintw"):
        x, a = float.fromhex(t[1]), float.fromhex(t[2])
        if a <= 0: return False
        return _rel_close(x, a + 1) or _rel_close(a, 100.0) or (a > 100 and (_rel_close(x, a - 1 + 10 * math.sqrt(a)) or _rel_close(x, a - 1 - 10 * math.sqrt(a))))
    if op == "qmono":
        a = float.fromhex(t[1]); xs = parse_vals(c.line)[3:]
        return _rel_close(a, 100.0) or any(_rel_close(x, a + 1) for x in xs)
    if op in ("invp", "invq"):
        p, a = float.fromhex(t[1]), float.fromhex(t[2])
        if a <= 0 or io.startswith("EXIT"): return False
        v = parse_vals(io)
        return _rel_close(a, 100.0) or _rel_close(a, 1.0) or (len(v) > 0 and isinstance(v[0], float) and _rel_close(v[0], a + 1))
    return False


# ------------------------------------------------------------------------------------------------ S4 predicates
def acc_tol(a): return 1e-12 if a <= 100.0 else 1e-3
def region(a):
    """suffix of the signatures: which method served the request; shapes below 4.5939e-307, where GammaLn(a) overflows inside (K-C06-6), are a region of their own"""
    if a > 100.0: return "quadrature"
    if 0 < a < 1e-300 and gln_arg_overflows(a): return "series-cf:shape-below-4.6e-307"
    return "series-cf"


def range_region(a, v):
    """suffix of the signature of the clause 'P and Q lie in [0,1]': the method, and - for the shapes below 1e-12, where the true Q ~ a E1(x)
    is smaller than the rounding of the prefactor - whether the value leaves [0,1] by no more than the accuracy tolerance 1e-12 (K-C06-5)"""
    if a < 1e-12 and -1e-12 <= v <= 1.0 + 1e-12: return region(a) + ":tiny-a:by-less-than-1e-12"
    return region(a)


def mono_slack(x, a):
    """a priori slack for 'Q does not increase with x' between two evaluations: for a <= 100 the rounding of the prefactor
    exp(-x + a log x - gln) (4 eps per unit of intermediate magnitude, two evaluations) and the eps-relative stopping of series / fraction;
    for a > 100 the quadrature branch is only as good as the property's 1e-3, so two evaluations may differ by 2e-3"""
    if a > 100.0: return 2e-3     # two evaluations, each only required (and built) to be within 1e-3
    lx = abs(math.log(x)) if x > 0 else 0.0
    return 2 * EPS * (4 * (x + a * lx + abs(math.lgamma(a)) + 1) + 16)


def _binom_slack(n, k):
    """a priori bound on |returned - C(n,k)|: (n-1)/2 + (k-1)/2 + (n-k-1)/2 ulp from the factorial products and 2 divisions (n <= 170),
    three GammaLn evaluations and exp (n > 170); an error below 1/2 is removed by floor(0.5 + .)"""
    Cx = math.comb(n, k)
    if n <= 170: rel = EPS * (n + 4)
    else: rel = gl_slack(n + 1.0) + gl_slack(k + 1.0) + gl_slack(n - k + 1.0) + 4 * EPS
    err = rel * Cx
    return Cx, (0.0 if err < 0.49 else err + 1.0)


_ARITY = {"gammaln": 1, "gamma": 1, "fact": 1}


def seq_calls(line):
    """the calls of a 'seq m call_1 .. call_m' case as token lists"""
    t = line.split(); m = int(t[1]); k = 2; calls = []
    for _ in range(m):
        ar = _ARITY.get(t[k], 2); calls.append(t[k:k + 1 + ar]); k += 1 + ar
    return calls


def _call_predicates(cl, val):
    """the property's clauses for ONE call (token list) and its answer, through the single-call predicates"""
    if cl[0] == "fact": return predicates(Case(f"fact 1 {cl[1]}"), f"1 {hx(val)}")
    return predicates(Case(" ".join(cl)), hx(val))


def _same(u, v): return u == v or (isinstance(u, float) and isinstance(v, float) and math.isnan(u) and math.isnan(v))


def _seq_predicates(c, io, v, ex):
    """a history of calls inside the domain: every clause holds for every answer of the history; the answer does not depend on the
    calls made before (compared with a fresh process's answer to the same call); the clauses that relate several calls hold across the history"""
    out = []
    calls = seq_calls(c.line); m = len(calls)
    def shown(j): return " ; ".join(_show_call(cl) for cl in calls[max(0, j - 3):j + 1])
    if ex or len(v) != 1 + 2 * m or any(not isinstance(z, float) for z in v[1:]):
        if any(isinstance(z, str) and z.startswith("FRESH_") for z in v): return [("history:fresh-process", f"a fresh process does not answer a call the history answers: {io[:120]}")]
        return [("history:exit", f"a history of calls inside the domain ended with {io[:60]}: {shown(m - 1)}")]
    hs = v[1::2]; fs = v[2::2]
    for j, (cl, h, f) in enumerate(zip(calls, hs, fs)):
        ph = _call_predicates(cl, h)
        pf = ph if _same(h, f) else _call_predicates(cl, f)
        fsig = {sg for sg, _ in pf}
        for sg, msg in ph:
            if sg in fsig: out.append((sg, msg + (f" [call {j + 1} of a history]" if j else "")))
            else: out.append(("history:" + sg, f"after the calls {shown(j - 1)} in the same process: {msg}; a fresh process answers {f!r}, which meets the clause"))
        if not _same(h, f):
            out.append((f"history:{cl[0]}:depends-on-earlier-calls", f"{_show_call(cl)} = {h!r} after the calls {shown(j - 1)} in the same process, but {f!r} in a fresh process"))
    # clauses relating several calls, across the history (whatever was called in between)
    byarg = {}
    for cl, h in zip(calls, hs): byarg.setdefault(tuple(cl), []).append(h)
    for cl, hv in byarg.items():
        if any(not _same(hv[0], z) for z in hv[1:]):
            out.append((f"history:{cl[0]}:repeat", f"{_show_call(list(cl))} answered {hv[0]!r} and later {[z for z in hv[1:] if not _same(hv[0], z)][0]!r} in the same process"))
    first = {k: hv[0] for k, hv in byarg.items()}
    for k, q in first.items():
        if k[0] == "gammaq" and ("gammap",) + k[1:] in first:
            pp = first[("gammap",) + k[1:]]
            if not (abs(pp + q - 1.0) <= 2 * EPS): out.append(("gammaq:p-plus-q", f"P + Q - 1 = {pp + q - 1.0!r} at (x={float.fromhex(k[1])!r}, a={float.fromhex(k[2])!r}) across a history"))
        if k[0] == "upper" and ("lower",) + k[1:] in first and ("gamma", k[2]) in first:
            lo = first[("lower",) + k[1:]]; g = first[("gamma", k[2])]
            if math.isfinite(g) and g > 0 and not (math.isfinite(q) and math.isfinite(lo) and abs(Fraction(q) + Fraction(lo) - Fraction(g)) <= Fraction(6 * EPS) * Fraction(g)):
                out.append(("gammaq:upper-plus-lower", f"Upper + Lower = {q + lo!r}, Gamma = {g!r} at (x={float.fromhex(k[1])!r}, a={float.fromhex(k[2])!r}) across a history"))
        if k[0] == "fact" and int(k[1]) >= 1 and ("fact", str(int(k[1]) - 1)) in first and q != first[("fact", str(int(k[1]) - 1))] * int(k[1]):
            out.append(("factorial:recurrence", f"Factorial({k[1]}) = {q!r} is not {k[1]} * Factorial({int(k[1]) - 1}) across a history"))
        if k[0] == "binom":
            n_, k_ = int(k[1]), int(k[2])
            if 0 <= k_ <= n_:
                sym = ("binom", str(n_), str(n_ - k_)); up = ("binom", str(n_ - 1), str(k_ - 1)); dn = ("binom", str(n_ - 1), str(k_))
                if sym in first and abs(Fraction(q) - Fraction(first[sym])) > Fraction(_binom_slack(n_, k_)[1] + _binom_slack(n_, n_ - k_)[1]):
                    out.append(("binomial:symmetry", f"C({n_},{k_}) = {q!r} but C({n_},{n_ - k_}) = {first[sym]!r} across a history"))
                if 1 <= k_ <= n_ - 1 and up in first and dn in first and \
                        abs(Fraction(q) - Fraction(first[up]) - Fraction(first[dn])) > Fraction(_binom_slack(n_, k_)[1] + _binom_slack(n_ - 1, k_ - 1)[1] + _binom_slack(n_ - 1, k_)[1]):
                    out.append(("binomial:pascal", f"C({n_},{k_}) = {q!r} but C({n_ - 1},{k_ - 1}) + C({n_ - 1},{k_}) = {first[up] + first[dn]!r} across a history"))
        if k[0] == "gamma":
            x = float.fromhex(k[1]); k1 = ("gamma", hx(x + 1.0))
            if k1 in first:
                sl = gl_slack(x) + gl_slack(x + 1.0) + 4 * EPS; g1 = first[k1]
                bad = gamma_recurrence_check(x, q, g1, sl)
                if bad: out.append(("gamma:recurrence" + bad[0], bad[1] + " across a history"))
    # Q does not increase (P does not decrease) with x at fixed a, whatever the order of the calls
    for fn, sgn in (("gammaq", 1.0), ("gammap", -1.0)):
        bya = {}
        for k, q in first.items():
            if k[0] == fn: bya.setdefault(k[2], []).append((float.fromhex(k[1]), q))
        for ah, pts in bya.items():
            a = float.fromhex(ah); pts.sort()
            for (x0, q0), (x1, q1) in zip(pts, pts[1:]):
                if sgn * (q1 - q0) > max(mono_slack(x0, a), mono_slack(x1, a)):
                    out.append((fn + ":monotone:" + region(a), f"{'GammaQ increases' if sgn > 0 else 'GammaP decreases'} from {q0!r} at x={x0!r} to {q1!r} at x={x1!r} (a={a!r}) across a history")); break
    return out


def _show_call(cl):
    args = ", ".join((repr(float.fromhex(z)) if z.startswith(("0x", "-0x")) else z) for z in cl[1:])
    name = {"invp": "Inv_GammaP", "invq": "Inv_GammaQ", "gammaq": "GammaQ", "gammap": "GammaP", "upper": "Upper_Incomplete_Gamma", "lower": "Lower_Incomplete_Gamma",
            "gammaln": "GammaLn", "gamma": "Gamma", "fact": "Factorial", "binom": "Binomial_Coefficient"}[cl[0]]
    return f"{name}({args})"


def predicates(c, io):
    out = []
    t = c.line.split(); op = t[0]
    if io.startswith(("CRASH", "SANITIZER", "TIMEOUT", "HARNESSERR")): return out
    v = parse_vals(io)
    ex = io.startswith("EXIT")
    if op == "fact":
        ns = [int(z) for z in t[2:]]
        if any(n > 170 or n < 0 for n in ns):
            if not ex: out.append(("factorial:overflow-guard", f"Factorial of an argument above 170 returned {io[:60]}"))
            return out
        if ex: return [("factorial:exit", "Factorial exited on arguments <= 170")]
        got = v[1:]
        for n, g in zip(ns, got):
            exact = math.factorial(n)
            if n <= 22:
                if g != float(exact): out.append(("factorial:value", f"Factorial({n}) = {g!r}, n! = {exact} is a double")); break
            elif abs(Fraction(g) - exact) > Fraction(EPS) * n * exact:     # (n-22) products, each 1/2 ulp
                out.append(("factorial:value", f"Factorial({n}) = {g!r} differs from n! by more than n/2 ulp")); break
        # n! = n (n-1)!  exactly as computed (one product, no history dependence): equal arguments give equal results
        seen = {}
        for n, g in zip(ns, got):
            if n in seen and seen[n] != g: out.append(("factorial:history", f"Factorial({n}) returned {seen[n]!r} and later {g!r}")); break
            seen[n] = g
        for n, g in seen.items():
            if n >= 1 and (n - 1) in seen and g != seen[n - 1] * n:
                out.append(("factorial:recurrence", f"Factorial({n}) = {g!r} is not {n} * Factorial({n-1}) = {seen[n-1] * n!r}")); break
    elif op in ("binom", "binomhist"):
        prs = [int(z) for z in t[2:]] if op == "binomhist" else [int(t[1]), int(t[2])]
        prs = list(zip(prs[0::2], prs[1::2]))
        if any(n < 0 or k < 0 for n, k in prs):
            if not ex: out.append(("binomial:negative-guard", f"negative argument returned {io[:60]}"))
            return out
        if ex: return [("binomial:exit", f"Binomial_Coefficient exited on {prs}")]
        got = v[1:] if op == "binomhist" else v
        sl = []
        for (n, k), g in zip(prs, got):
            if n < k:
                if g != 0.0: out.append(("binomial:n<k", f"Binomial_Coefficient({n},{k}) = {g!r}, expected 0"))
                sl.append(0.0); continue
            Cx, s = _binom_slack(n, k); sl.append(s)
            if g != math.floor(g): out.append(("binomial:integer", f"Binomial_Coefficient({n},{k}) = {g!r} is not an integer"))
            if abs(Fraction(g) - Cx) > Fraction(s): out.append(("binomial:value", f"Binomial_Coefficient({n},{k}) = {g!r}, exact {Cx} (allowed error {s:.3g})"))
        if len(prs) == 4 and prs[1] == (prs[0][0] - 1, prs[0][1] - 1) and prs[2] == (prs[0][0] - 1, prs[0][1]) and not out:
            n, k = prs[0]
            if abs(Fraction(got[0]) - Fraction(got[1]) - Fraction(got[2])) > Fraction(sl[0] + sl[1] + sl[2]):
                out.append(("binomial:pascal", f"C({n},{k}) = {got[0]!r} but C({n-1},{k-1}) + C({n-1},{k}) = {got[1] + got[2]!r}"))
            if abs(Fraction(got[0]) - Fraction(got[3])) > Fraction(sl[0] + sl[3]):
                out.append(("binomial:symmetry", f"C({n},{k}) = {got[0]!r} but C({n},{n-k}) = {got[3]!r}"))
    elif op in ("gammaln", "gamma", "gamrec"):
        x = float.fromhex(t[1])
        if not (x > 0):
            if not ex: out.append((op + ":guard", f"{op}({x!r}) returned {io[:60]}"))
            return out
        if ex: return [(op + ":exit", f"{op}({x!r}) exited")]
        if op == "gammaln":
            bad = gammaln_check(x, v[0])
            if bad: out.append(("gammaln:accuracy" + bad[0], bad[1]))
        elif op == "gamma":
            bad = gamma_check(x, v[0])       # every x: finite results up to DBL_MAX, infinity exactly beyond
            if bad: out.append(("gamma:accuracy" + bad[0], bad[1]))
        else:
            l0, l1, g0, g1 = v[:4]
            for xx, l in ((x, l0), (x + 1.0, l1)):
                bad = gammaln_check(xx, l)
                if bad: out.append(("gammaln:accuracy" + bad[0], bad[1]))
            s = gl_slack(x) + gl_slack(x + 1.0) + 4 * EPS
            # Gamma(x+1) = x Gamma(x)   and   GammaLn(x+1) = GammaLn(x) + ln x
            bad = gamma_recurrence_check(x, g0, g1, s)
            if bad: out.append(("gamma:recurrence" + bad[0], bad[1]))
            if not (math.isfinite(l0) and math.isfinite(l1) and abs(l1 - l0 - math.log(x)) <= s + EPS * abs(math.log(x))):
                out.append(("gammaln:recurrence" + gln_region(x, l0), f"GammaLn({x+1!r}) - GammaLn({x!r}) - ln x = {l1 - l0 - math.log(x):.3g} (allowed {s:.3g})"))
            for xx, g in ((x, g0), (x + 1.0, g1)):
                bad = gamma_check(xx, g)
                if bad: out.append(("gamma:accuracy" + bad[0], bad[1]))
            if x == math.floor(x) and x <= 23:     # Gamma(n) = (n-1)!
                f = float(math.factorial(int(x) - 1))
                if not (abs(g0 - f) <= (gl_slack(x) + 4 * EPS) * f): out.append(("gamma:factorial", f"Gamma({int(x)}) = {g0!r}, ({int(x)}-1)! = {f!r}"))
    elif op == "qintw":      # GammaQint inside its domain of use (a > 100): a probability within 1e-3 of the reference
        x, a = float.fromhex(t[1]), float.fromhex(t[2])
        if ex or len(v) < 3: return [("gammaq:exit", f"GammaQint({x!r},{a!r}) exited inside the domain")]
        P, Q, referr = ref_PQ(x, a); q = v[0]
        if not (0.0 <= q <= 1.0): out.append(("gammaq:range:" + range_region(a, q), f"GammaQint(x={x!r}, a={a!r}) = {q!r} lies outside [0,1]"))
        if not (abs(q - Q) <= acc_tol(a) + referr): out.append(("gammaq:accuracy:" + region(a), f"GammaQint(x={x!r}, a={a!r}) = {q!r}, reference {Q!r}: error {abs(q-Q):.3g} > {acc_tol(a):g}"))
    elif op in ("pq", "gammaq", "gammap", "upper", "lower"):
        x, a = float.fromhex(t[1]), float.fromhex(t[2])
        bad = (x < 0) or (a <= 0)
        if bad:
            if not ex: out.append((op + ":guard", f"{op}({x!r},{a!r}) returned {io[:60]}"))
            return out
        if ex: return [("gammaq:exit", f"{op}({x!r},{a!r}) exited inside the domain")]
        if op in ("pser", "qcf", "qint"): return out
        P, Q, referr = ref_PQ(x, a); tol = acc_tol(a) + referr
        if op == "pq":
            q, p, up, lo, g = v[:5]
        else:
            q = v[0] if op == "gammaq" else None; p = v[0] if op == "gammap" else None; up = lo = g = None
        where = f"(x={x!r}, a={a!r})"
        if q is not None:
            if x == 0 and q != 1.0: out.append(("gammaq:at-zero", f"GammaQ(0,{a!r}) = {q!r}"))
            if not (0.0 <= q <= 1.0): out.append(("gammaq:range:" + range_region(a, q), f"GammaQ{where} = {q!r} lies outside [0,1]"))
            if not (abs(q - Q) <= tol): out.append(("gammaq:accuracy:" + region(a), f"GammaQ{where} = {q!r}, reference {Q!r}: error {abs(q-Q):.3g} > {acc_tol(a):g}"))
        if p is not None:
            if not (0.0 <= p <= 1.0): out.append(("gammap:range:" + range_region(a, p), f"GammaP{where} = {p!r} lies outside [0,1]"))
            if not (abs(p - P) <= tol): out.append(("gammap:accuracy:" + region(a), f"GammaP{where} = {p!r}, reference {P!r}: error {abs(p-P):.3g} > {acc_tol(a):g}"))
        if op in ("upper", "lower") and x > 0 and a <= 172.0:
            # asked alone (inside a history): Gamma(a) Q(x,a) with the reference Gamma (60 digits; finite up to a = 171.6243) and one GammaLn evaluation's slack
            G = gamma_ref_float(a); R = Q if op == "upper" else P
            if math.isfinite(G) and G * (1 + tol + gl_slack(a) + 8 * EPS) < DBL_MAX and not (abs(v[0] - G * R) <= (tol + gl_slack(a) + 8 * EPS) * G):
                out.append((op + ":accuracy:" + region(a), f"{'Upper' if op == 'upper' else 'Lower'}_Incomplete_Gamma{where} = {v[0]!r}, Gamma_ref*{'Q' if op == 'upper' else 'P'}_ref = {G * R!r}"))
        if op == "pq":
            if not (abs(p + q - 1.0) <= 2 * EPS): out.append(("gammaq:p-plus-q" + (":shape-below-4.6e-307" if region(a).endswith("4.6e-307") else ""), f"P + Q - 1 = {p + q - 1.0!r} at {where}"))
            bad = gamma_check(a, g)       # the factor Gamma(a) of Upper and Lower, at every magnitude (finite up to DBL_MAX)
            if bad: out.append(("gamma:accuracy" + bad[0], bad[1] + f" [the Gamma(a) of Upper/Lower at {where}]"))
            if math.isfinite(g) and g > 0 and not (math.isfinite(up) and math.isfinite(lo)) and math.isfinite(q) and math.isfinite(p):
                out.append(("gammaq:upper-plus-lower", f"Upper = {up!r}, Lower = {lo!r} with a finite Gamma = {g!r} at {where}"))
            if math.isfinite(g) and g > 0 and math.isfinite(up) and math.isfinite(lo):
                # Upper + Lower = Gamma: two products and one sum of numbers below Gamma (the sum taken exactly: it may exceed DBL_MAX by an ulp)
                if not (abs(Fraction(up) + Fraction(lo) - Fraction(g)) <= Fraction(6 * EPS) * Fraction(g)): out.append(("gammaq:upper-plus-lower", f"Upper + Lower = {up + lo!r}, Gamma = {g!r} at {where}"))
                if not (abs(up - g * Q) <= (tol + 4 * EPS) * g): out.append(("upper:accuracy:" + region(a), f"Upper_Incomplete_Gamma{where} = {up!r}, Gamma*Q_ref = {g * Q!r}"))
                if not (abs(lo - g * P) <= (tol + 4 * EPS) * g): out.append(("lower:accuracy:" + region(a), f"Lower_Incomplete_Gamma{where} = {lo!r}, Gamma*P_ref = {g * P!r}"))
    elif op == "seq":
        out += _seq_predicates(c, io, v, ex)
    elif op == "qmono":
        a = float.fromhex(t[1]); pv = parse_vals(c.line); xs = pv[3:3 + pv[2]]
        if ex: return [("gammaq:exit", f"GammaQ exited inside the domain (a={a!r})")]
        qs = v[1:]
        for (x0, q0), (x1, q1) in zip(zip(xs, qs), zip(xs[1:], qs[1:])):
            if x1 >= x0 and q1 > q0 + max(mono_slack(x0, a), mono_slack(x1, a)):
                out.append(("gammaq:monotone:" + region(a), f"GammaQ increases from {q0!r} at x={x0!r} to {q1!r} at x={x1!r} (a={a!r}, by {q1-q0:.3g})")); break
        for x, q in zip(xs, qs):
            if not (0.0 <= q <= 1.0): out.append(("gammaq:range:" + range_region(a, q), f"GammaQ(x={x!r}, a={a!r}) = {q!r} lies outside [0,1]")); break
    elif op in ("invp", "invq"):
        p, a = float.fromhex(t[1]), float.fromhex(t[2])
        if a <= 0:
            if not ex: out.append((op + ":guard", f"{op}(p={p!r}, a={a!r}) returned {io[:60]}"))
            return out
        if ex: return [(op + ":exit", f"{op}(p={p!r}, a={a!r}) exited")]
        if not (0.0 < p < 1.0): return out
        x, back = v[0], (v[1] if len(v) > 1 else None)     # inside a "seq" history only x is returned
        if not (x >= 0.0 and math.isfinite(x)):
            pe = p if op == "invp" else 1.0 - p
            if math.isnan(x): reg = "a>100:p-near-1" if (a > 100.0 and pe > 1 - 1e-6) else region(a)
            else: reg = region(a)
            return [(op + (":nan:" if math.isnan(x) else ":value:") + reg, f"{op}(p={p!r}, a={a!r}) = {x!r}")]
        P, Q, referr = ref_PQ(x, a); target = P if op == "invp" else Q
        tol = 1e-7 if a <= 100.0 else 1e-3
        name = 'P' if op == 'invp' else 'Q'
        # with the true P/Q (reference) and with the library's own P/Q
        if not (abs(target - p) <= tol + referr):
            # P may be steeper than the grid of doubles resolves (tiny a: the solution underflows): then no double meets the
            # tolerance and a neighbour of the true solution is the best possible answer
            lo = math.nextafter(x, -math.inf) if x > 0 else 0.0; hi = math.nextafter(x, math.inf)
            tl = ref_PQ(lo, a)[0 if op == "invp" else 1]; th = ref_PQ(hi, a)[0 if op == "invp" else 1]
            if not (min(tl, th) - referr <= p <= max(tl, th) + referr):
                # region "subnormal" (K-C06-4): the TRUE solution lies below the normal range (decided by the reference at the smallest normal double), where the
                # density x^(a-1)/Gamma(a) overflows; an answer 0 / subnormal to a request whose solution is an ordinary double is NOT that region
                tn = ref_PQ(2.2250738585072014e-308, a)[0 if op == "invp" else 1]
                sol_subnormal = (tn >= p) if op == "invp" else (tn <= p)
                reg = "subnormal" if (x < 2.2250738585072014e-308 and sol_subnormal) else region(a)
                out.append((op + ":inverse:" + reg, f"{name}({op}(p,a),a) = {target!r} for p = {p!r}, a = {a!r} (x = {x!r}): off by {abs(target-p):.3g} > {tol:g}"))
        elif back is not None and not (abs(back - p) <= tol + acc_tol(a)):
            out.append((op + ":inverse-lib:" + region(a), f"library {name} at the returned x = {back!r} for p = {p!r}, a = {a!r}"))
    return out


# ------------------------------------------------------------------------------------------------ S3: kernel-certified samples
def _Rq(v):
    """exact real literal of a double (or Fraction) for a generated .v file"""
    fr = Fraction(v)
    return f"({fr.numerator} / {fr.denominator})" if fr >= 0 else f"(- ({-fr.numerator} / {fr.denominator}))"


_S3_HEAD = ("(* generated by checks/C06.py (S3): the library's doubles, embedded exactly, lie within the tolerance of the closed form;\n"
            "   qhorner x 1 n = sum_{k<=n} x^k/k! (C06_Proofs_QInt.qhorner_sum) and e^-x * that = Q(x,n+1) by C06_q_integer_closed_form *)\n"
            "From Coq Require Import Reals ZArith.\nFrom Interval Require Import Tactic.\nFrom LP Require Import C06_Proofs_QInt.\nLocal Open Scope R_scope.\n")


def _s3_points(rng, tier):
    big = tier != "quick"
    pts = []
    # GammaQ at integer a, both sides of x = a+1 and of a = 100
    grid = [1, 2, 3, 5, 10, 20, 50, 99, 100] if not big else list(range(1, 101))
    for n in grid:
        for x in (n + 1.0, math.nextafter(n + 1.0, 0.0), (n + 1.0) * (1 + rng.choice([-1, 1]) * 10 ** rng.uniform(-9, -1))):
            pts.append(("q", x, n))
    for _ in range(1100 if big else 14):
        n = rng.randint(1, 100); r = rng.random()
        x = max(1e-3, n - 1 + rng.gauss(0, 2) * math.sqrt(n)) if r < 0.6 else rng.uniform(0, n + 40 * math.sqrt(n) + 40)
        pts.append(("q", x, n))
    for _ in range(400 if big else 14):
        n = rng.choice([101, 102, 105, 110, 120, 150, 200, 300] + ([500] if big else []))
        x = n - 1 + rng.uniform(-6, 10.5) * math.sqrt(n)
        pts.append(("q", max(x, 1.0), n))
    for n in rng.sample(range(1, 171), 60 if big else 6): pts.append(("gamma", float(n), n))
    for n in rng.sample(range(1, 171), 60 if big else 5) + [rng.choice([300, 500, 1000])]: pts.append(("gammaln", float(n), n))
    return pts


def _s3_goal(idx, kind, x, n, y):
    """(lemma text, description, python-side verdict)"""
    if kind == "q":
        tol = "1 / 1000000000000" if n <= 100 else "1 / 1000"
        P, Q, _ = ref_PQ(x, float(n))
        ok = abs(y - Q) <= acc_tol(float(n))
        stmt = f"Rabs (exp (- {_Rq(x)}) * qhorner {_Rq(x)} 1 {n - 1} - {_Rq(y)}) <= {tol}"
        prf = f"cbv [qhorner Z.add Pos.add Pos.succ Pos.add_carry]. interval with (i_prec {120 if n <= 300 else 200})."
        return f"Lemma s{idx} : {stmt}.\nProof. {prf} Qed.\n", f"GammaQ(x={x!r}, a={n}) = {y!r} within {acc_tol(float(n)):g} of e^-x sum_(k<{n}) x^k/k! = {Q!r}", ok
    f = math.factorial(n - 1)
    if kind == "gamma":
        tol = Fraction(gl_slack(x) + 4 * EPS)
        ok = abs(Fraction(y) - f) <= tol * f
        stmt = f"Rabs ({_Rq(y)} - {f}) <= {_Rq(tol)} * {f}"
        return f"Lemma s{idx} : {stmt}.\nProof. interval with (i_prec 120). Qed.\n", f"Gamma({n}) = {y!r} within {float(tol):.3g} relative of {n-1}!", ok
    tol = Fraction(gl_slack(x)) + Fraction(EPS) * Fraction(abs(math.lgamma(x)))
    ok = abs(y - math.lgamma(x)) <= float(tol)
    stmt = f"Rabs ({_Rq(y)} - ln {f}) <= {_Rq(tol)}"
    return f"Lemma s{idx} : {stmt}.\nProof. interval with (i_prec 120). Qed.\n", f"GammaLn({n}) = {y!r} within {float(tol):.3g} of ln {n-1}!", ok


def _coqc(vfile, timeout):
    coq = os.path.join(vbuild.VERIF, "coq")
    try:
        r = subprocess.run(["coqc", "-w", "-all", "-Q", ".", "LP", os.path.basename(vfile)], cwd=coq, stdout=subprocess.PIPE, stderr=subprocess.STDOUT, text=True, timeout=timeout)
        return r.returncode, r.stdout
    except subprocess.TimeoutExpired:
        return 124, "timeout"


def extra(ctx, rng):
    """S3: generated coq/cases_C06_<k>.v, compiled with coqc under timeout, sharded over the cores, deleted afterwards"""
    import vcheck
    t0 = time.time()
    pts = _s3_points(rng, ctx["tier"])
    lines = [("gammaq %s %s" % (hx(x), hx(float(n)))) if k == "q" else (f"{k} {hx(x)}") for k, x, n in pts]
    outs = [vcheck.canon_impl(l) for l in vcheck.run_exe(ctx["exe"], lines, ctx["work"], "s3")]
    goals = []; res = {"violations": [], "broken": []}
    for i, ((k, x, n), o) in enumerate(zip(pts, outs)):
        v = parse_vals(o)
        if not v or not isinstance(v[0], float) or not math.isfinite(v[0]):
            res["violations"].append({"sig": f"{'gammaq' if k == 'q' else k}:value", "msg": f"S3 sample {lines[i]} returned {o[:40]}", "case": lines[i], "impl": o, "model": ""}); continue
        txt, desc, pyok = _s3_goal(i, k, x, n, v[0])
        goals.append({"i": i, "txt": txt, "desc": desc, "pyok": pyok, "case": lines[i], "impl": o, "kind": k, "a": float(n)})
    coq = os.path.join(vbuild.VERIF, "coq")
    nshard = max(1, min(12, os.cpu_count() or 4, (len(goals) + 3) // 4))
    shards = [goals[s::nshard] for s in range(nshard)]
    failed = []; notes = []; timed_out = []

    def run_shard(s):
        todo = list(shards[s]); bad = []
        vf = os.path.join(coq, f"cases_C06_{os.getpid()}_{s}.v")     # the process id keeps concurrent runs of this check (seed tests) from overwriting each other's files
        for _ in range(len(todo) + 1):
            if not todo: break
            open(vf, "w").write(_S3_HEAD + "".join(g["txt"] for g in todo))
            rc, log = _coqc(vf, 60 + 8 * len(todo))
            if rc == 124:      # a loaded machine: once more with a generous limit before anything is concluded
                rc, log = _coqc(vf, 900 + 30 * len(todo))
            if rc == 0: break
            m = re.search(r'line (\d+)', log)
            if rc == 124:
                # a proof search that does not finish in time says nothing about the sample: counted in the evidence, not reported;
                # a sample the reference REJECTS is still reported below (it is judged by the reference, not by the time limit)
                timed_out.extend(todo); bad += [(g, "coqc timeout") for g in todo if not g["pyok"]]; todo = []; break
            if not m:
                bad += [(g, "coqc " + log[-200:]) for g in todo]; todo = []; break
            ln = int(m.group(1)); head = _S3_HEAD.count("\n"); k = 0; acc = head
            for k, g in enumerate(todo):
                acc += g["txt"].count("\n")
                if ln <= acc: break
            bad.append((todo[k], log[-300:])); todo = todo[:k] + todo[k + 1:]
        for ext in (".v", ".vo", ".vok", ".vos", ".glob"):
            try: os.remove(vf[:-2] + ext)
            except OSError: pass
        try: os.remove(os.path.join(coq, f".cases_C06_{os.getpid()}_{s}.aux"))
        except OSError: pass
        return bad

    with ThreadPoolExecutor(nshard) as ex:
        for bad in ex.map(run_shard, range(nshard)): failed += bad
    for g, log in failed:
        if not g["pyok"]:
            sig = ("gammaq:accuracy:" + region(g["a"])) if g["kind"] == "q" else g["kind"] + ":accuracy"
            res["violations"].append({"sig": sig, "msg": "S3: not certifiable and refuted by the reference: " + g["desc"], "case": g["case"], "impl": g["impl"], "model": ""})
        else:
            res["broken"].append({"kind": "certified-sample", "what": "Coq-Interval did not prove a sample the reference accepts: " + g["desc"], "log": log})
    # a sample the reference rejects must not be provable either (consistency of the two oracles)
    okc = len(goals) - len(failed) - len([g for g in timed_out if g["pyok"]])
    res.update({"certified_samples": len(goals), "certified_ok": okc, "certified_failed": len(failed), "certified_not_finished_within_the_time_limit": len(timed_out), "certified_wall_s": round(time.time() - t0, 1),
                "certified_example": goals[0]["txt"][:600] if goals else "",
                "certified_kinds": {k: sum(1 for g in goals if g["kind"] == k) for k in ("q", "gamma", "gammaln")}})
    return res
