"""C12 — Gauss-Legendre rules are valid quadrature rules of every order on every interval."""
import math
from fractions import Fraction
from vcheck import Case, hx, flist, parse_vals

PID = "C12"
RULE = ("one case = one request (rule n a b | pair n a b | rule_default n | int n a b f | int_default a b f | values.. ), one nested integration "
        "(nest: depth 1..6, every level through any overload; nestx: the same with an innermost integrand that throws on part of its domain and handlers "
        "inside enclosing integrands, asked through each overload and through (values,rule) at every level) or one session of requests made one after the other in one process (sess); "
        "non-trivial = a rule request with odd n, or n > 64, or an interval that does not contain 0 (this includes every reversed "
        "and far-from-origin interval), or a size-guard request with mismatched lengths, or a nested integration of depth >= 2, or a session "
        "of >= 2 requests; distinct by case text")
LEVEL_TEXT = ("Theorems (Coq, every n >= 1, every interval, every real z_i, pp_i produced by the Newton stage): the table assembled by the "
              "mirrored assignment has n rows, node_i + node_(n-1-i) = a+b and equal weights for every i (for odd n the middle node is "
              "xmid + hw*z_mid, symmetric iff hw*z_mid = 0); swapping the limits mirrors the nodes and negates the weights; the rule on [a,b] is the "
              "affine image of the rule on [-1,1] with weights scaled by (b-a)/2, hence exactness for all polynomials of degree <= d and "
              "sum w = b-a transfer from [-1,1] to every interval (and orientation is respected); the three overloads return the same weighted sum and "
              "mismatched lengths exit; the moment checker is sound (moment defects delta_k bound the quadrature error of every polynomial of degree < K "
              "by sum |c_k| delta_k). "
              "Ordering, interior and sign of the weights are theorems for every n and every interval of either orientation GIVEN two statements about the Newton results alone "
              "(C12_valid_rule_of_roots: z_0 > z_1 > ... strictly decreasing inside (-1,1), last one positive for even n / above the negatives of the others for odd n, pp_i <> 0); "
              "what the Newton stage computes is a theorem for every n: the inner loop yields (P_n(z), P_(n-1)(z)) of Bonnet's recurrence (C12_legendre_loop), the source's pp is the derivative P_n'(z) "
              "(C12_pp_is_derivative, proved from the recurrence by induction with Coquelicot's is_derive), so each pass is a genuine Newton step, and every delivered pair is (N(z1), P_n'(z1)) for a Newton iterate z1 "
              "of the Chebyshev-like guess with |N(z1) - z1| <= 1e-14, hence |P_n(z1)| <= 1e-14 |P_n'(z1)| (C12_newton_stage, C12_newton_residual; induction over the fuel; premise: no iterate is exactly +-1). "
              "Seventh pass: the mirrored assignment is a theorem for every number type without laws, hence for doubles verbatim (C12_mirror_every_number_type: n two-entry rows, rows i and n-1-i carry the same weight, "
              "row i = (xm - hw z_i, w_i), row n-1-i = (xm + hw z_i, w_i) in the source's operation order, the middle row of an odd order ends as the '+' row); why half the roots suffice: P_n(-z) = (-1)^n P_n(z), "
              "P_n'(-z) = -(-1)^n P_n'(z), the weight expression is even and Newton's map commutes with the reflection (C12_legendre_parity), the end points are never roots (C12_legendre_endpoints) and the middle root of an odd order is exactly 0 (C12_odd_middle_root); "
              "the odd half of 'exact up to degree 2n-1' is a theorem for every n, every interval and whatever the Newton stage delivers (odd n: middle node at the midpoint): every integrable function odd about the midpoint is integrated exactly and the rule sees only the even part of its integrand "
              "(C12_odd_part_exact, C12_even_part_only). T-tie: every formula of Compute_Gauss_Legendre_Roots_and_Weights (eps, m, x_middle, x_half_width, the guess, the recurrence step, pp, the Newton update, the stop test, the four stores, the mirrored index) is regenerated from clang's AST on every run and "
              "proved to be the model's term for every number type (C12_generated_*_is_model); the statement skeleton around them (loop bounds, order, targets of the stores, place of the break) is compared by the generator. "
              "NOT theorems: that the Newton iteration from the Chebyshev-like guess converges, for every n, to the distinct roots of P_n in decreasing order (i.e. that its results satisfy roots_ok/pp_ok; shown in Coq for n = 1 only), "
              "and that the reference rule is exact on the even centred moments up to degree 2n-2 (the classical Gauss theorem applied to the computed doubles). These clauses are decided on the "
              "implementation by exhaustive enumeration of n (thorough: every n = 1..512 and a sample up to 4000; quick: every n = 1..64 and a sample up to 512) "
              "on intervals including reversed, far from the origin, of every magnitude (ladder 1e-305 .. 1e300, subnormal lengths, end points up to DBL_MAX) and, through the integration overloads, with end points 1 .. 1e6 ulps apart: ordering, interior, symmetry, sign and sum of the weights, and exactness on "
              "every monomial and Legendre-basis polynomial of degree <= min(2n-1, 60) with the verified moment checker run in exact integer arithmetic on the "
              "produced doubles for n <= 40 (floats with math.fsum above) against an a-priori rounding slack. "
              "Re-entrant use and call histories: the model has no state (the code has none: no statics, a fresh value vector per call), integrands that call the library are "
              "modelled as functions into outcomes (gl_integrate_funM, gl_nest); theorems: an always-returning integrand gives the plain overloads (C12_reentrant_pure), nested integrations "
              "with pairwise equal orders and limits agree whichever overload each level uses (C12_nest_overloads_agree), a guard reached by the innermost integrand ends the whole nest "
              "(C12_nest_exit_propagates). Integrands that throw are modelled as functions into res (option T) (gl_integrate_funX, gl_levelX, gl_nestX: an exception passes through every library frame up to the first handler, "
              "which may sit inside the integrand of an enclosing integration and substitutes a value); theorems: without exceptions this is the exception-free model (C12_throwing_refines), the overloads agree at every depth also when "
              "evaluations throw and handlers intervene (C12_nestX_overloads_agree), a call under a handler never lets an exception out and is unchanged when none arrives (C12_handler), a failed and handled inner integration "
              "counts as its substitute value and nothing else (C12_handled_failure). The guards of the (values,rule) overload: whether a request is rejected is a function of the number of values and of the row lengths alone, "
              "for an abstract number type without laws, hence for doubles with NaN/inf values verbatim (C12_exit_iff_shape, C12_guard_shape_only); the overload is a linear functional of the values on every well-formed table "
              "of every length (C12_values_linear, over R). On the implementation: malformed requests (mismatched lengths, ragged rows) are combined with special values (NaN, +-inf, signed zeros, DBL_MAX, the subnormal quantum) among the "
              "function values and with integrands that return them, plainly and in sessions, and matching requests with special values are checked against IEEE arithmetic; rules on intervals 2 .. 1e4 ulps wide at every magnitude 1e-300 .. 1e300 and both signs "
              "(at and across binade borders) with every order the doubles of the interval still resolve (a-priori: Bruns' bounds on the zeros of P_n against 2 ulps) are checked for strict ordering, interior, symmetry, weights and exactness like all others. On the implementation (re-entrant use): nested integrations of depth 1..6 through every mix of the overloads (agreement of the three overloads at the top, exactness on "
              "polynomial cores against the exact tensor integral, size-guard probes made by the integrand itself) and sessions in one process (adjacent equal panels at offsets up to 1e12/n^2 widths, "
              "the same request with limits moved by 1e-16 .. 1e-6 relative, changing orders, reversed limits, repeats, requests abandoned by an exception of their integrand at any depth, "
              "size-guard probes after all of these, nested integrations whose innermost integrand throws on a half-line / band / alternating / quadrant pattern of its domain with handlers at any levels, each asked through "
              "every overload at the top and through (values,rule) at every level (nestx: four answers that must coincide bit for bit) and, in sessions, again through other mixes of the overloads); every answer is compared with the stateless model and checked against the clauses of its own request.")
LEVEL_NOTE = ("Coq 8.16.1 kernel; theorems over R (standard-library real axioms, Coquelicot for RInt and is_derive, Interval only for the n = 1 non-vacuity examples: |cos(M_PI/2)| <= 1e-14 for the decimal M_PI); hand-written model tied by differential correspondence "
              "(bit-identical expected) and, for Compute_Gauss_Legendre_Roots_and_Weights, by the T-tie (tools/cxx2gallina_C12.py regenerates coq/Gen_C12_Formulas.v before the proofs are rebuilt; the (values,rule) overload is not translated: member calls); coverage table: coverage/C12.md; the Newton loop of the source has no iteration cap: the model gives it fuel 100 and reports FUEL; "
              "the function overload reads row[0] before the row-size guard of the value overload: an empty row is an out-of-bounds read (model outcome OOB, not generated); "
              "std::cos / M_PI modelled by OCaml's cos (glibc) and the literal 0x1.921fb54442d18p+1")
TOL = (1e-13, 0.0)
TRUSTED = ["std::cos is glibc's cos on both sides; M_PI is the literal 3.14159265358979323846",
           "tools/cxx2gallina_C12.py (expression rules of tools/cxx2gallina.py, statement skeleton compared as text) and clang 14's JSON AST",
           "S4 slack for nested polynomial integrals (a priori, _nest_reference): per level the moment bound of DERIVATION in the variable the polynomial is written in, combined as prod(B_j(1+r_j)) - prod(B_j), plus one rounding per operation of the core",
           "S4 slack for 'exact to rounding' (a priori, see checks/C12.py: W(n) = (8 ln n + 8)*1e-14 + 32 n 2^-53 relative to |b-a| max|g|, plus node-position terms, plus (n+2) subnormal quanta where results are subnormal)"]
ASSUMPTIONS = ["rule requests are generated with |b-a| >= 1e-4*max(|a|,|b|) (kind ulp-ladder: |b-a| = 2 .. 1e4 ulps of max(|a|,|b|) with orders n such that (|b-a|/2) min(1-cos(pi/(2n+1)), 2 sin(pi/(n+1/2)) sin(pi/(4n+2))) >= 2 ulps, n = 1 from 2 ulps on; kind far-narrow and adjacent panels in sessions: >= 1e-12 n^2 max(|a|,|b|), n <= 1000) (and >= 2e6 subnormal quanta, n <= 64 there) so that the n nodes are distinct doubles (node spacing ~ 6|b-a|/n^2, first node 1.45|b-a|/n^2 inside, against an ulp of max(|a|,|b|)); "
               "intervals whose end points are 1 .. 1e6 ulps or 1e-16 .. 1e-6 relative apart are driven through the three integration overloads and the sum of the weights only (agreement, exactness, sum w = b-a), at every magnitude from 0 and the subnormals to 1e300",
               "magnitudes: every decade ladder 1e-305 .. 1e300 in every position relative to the origin, subnormal lengths, and end points up to DBL_MAX; requests whose a+b or b-a is not a double are the region of K-C12-1",
               "convergence of the Newton iteration to distinct roots and positivity of the weights are not theorems; they are enumerated on the implementation (S4)",
               "nested integrations and sessions use limits of moderate magnitude (2^-100 .. 2^100), orders whose product stays below 1200 (quick) / 4000 (thorough) evaluations of the innermost integrand, and depth <= 6; "
               "an integrand abandons a request by throwing an exception of the harness (one exception type; handlers substitute a constant and do not retry); Integrate(..., \"Gauss-Legendre_2\") and Integrate_2D/3D are other entry points (not driven here)"]

def regenerate():
    """T-tie: the formula sites of Compute_Gauss_Legendre_Roots_and_Weights from clang's AST of the current source"""
    import os, vbuild, cxx2gallina, cxx2gallina_C12
    try:
        ch = cxx2gallina_C12.regenerate_c12(vbuild.REPO, os.path.join(vbuild.VERIF, "coq"))
    except cxx2gallina.Unsupported as e:
        raise RuntimeError(f"tools/cxx2gallina_C12.py cannot translate Compute_Gauss_Legendre_Roots_and_Weights of src/Integration.cpp: {e}")
    return "Gen_C12_Formulas.v regenerated from the current source" if ch else ""


EPS = 2.0 ** -53
NEWTON = 1e-14   # the source's eps: a-priori bound on the last Newton step


# ------------------------------------------------------------------ generator
DBL_MAX = 1.7976931348623157e308
# geometric ladder of decimal scales: the whole normal range, dense where |b-a| passes the unit roundoff and the
# magnitudes at which absolute tolerances (epsilon, 1e-12, 1e-30, DBL_MIN) would start to bite
SCALE_EXPS = [-305, -300, -280, -250, -200, -160, -120, -80, -60, -40, -30, -25, -22, -20, -19, -18, -17, -16, -15, -14, -13, -12,
              10, 12, 15, 16, 17, 20, 30, 40, 80, 120, 160, 200, 250, 280, 300]


def _scale(rng):
    return 10.0 ** (rng.choice(SCALE_EXPS) + rng.uniform(-1, 1))


def _shape(rng, s):
    """an interval of size ~ s (length >= 1e-4 of its magnitude) in one of the positions relative to the origin"""
    shape = rng.choice(["from-zero", "to-zero", "symmetric", "straddle", "offset", "offset-neg", "far"])
    if shape == "from-zero": a, b = 0.0, s * rng.uniform(0.5, 2)
    elif shape == "to-zero": a, b = -s * rng.uniform(0.5, 2), 0.0
    elif shape == "symmetric": a, b = -s, s
    elif shape == "straddle": a, b = -s * 10 ** rng.uniform(-2, 0), s * 10 ** rng.uniform(-2, 0)
    elif shape == "offset": a = s * rng.uniform(0.5, 2); b = a * rng.uniform(1.5, 4)
    elif shape == "offset-neg": b = -s * rng.uniform(0.5, 2); a = b * rng.uniform(1.5, 4)
    else:
        c = rng.choice([-1, 1]) * s; w = s * 10 ** rng.uniform(-3.5, -1); a, b = c - w / 2, c + w / 2
    return a, b


def _ulps(x, k):
    """the double k ulps above x >= 0 (bit pattern + k: runs through the subnormals from 0)"""
    import struct
    (i,) = struct.unpack("<q", struct.pack("<d", x))
    return struct.unpack("<d", struct.pack("<q", i + k))[0]


def _near_equal(rng):
    """legitimate intervals a < b whose end points nearly coincide: k ulps apart (k on a ladder 1 .. 1e6) or at a relative
    distance 1e-16 .. 1e-6, at every magnitude (0, subnormal, |x| < 1, 1, huge); both signs"""
    r = rng.random()
    if r < 0.15: x = rng.choice([0.0, 5e-324, 1e-310, 2.2250738585072014e-308])
    elif r < 0.45: x = rng.choice([1.0, 0.5, 0.1, 0.75, 1e-3, 2.0, 1.0 / 3.0, 7.0, 1e-8]) * rng.choice([1.0, rng.uniform(0.5, 2.0)])
    else: x = 10.0 ** rng.uniform(-300, 300)
    if rng.random() < 0.6 or x == 0.0:
        y = _ulps(x, rng.choice([1, 1, 2, 3, 4, 7, 10, 100, 1000, 10 ** 4, 10 ** 5, 10 ** 6]))
    else:
        y = x * (1.0 + 10.0 ** rng.uniform(-16, -6))
        if y == x: y = _ulps(x, 1)
    return (x, y) if rng.random() < 0.5 else (-y, -x)


def _interval(rng, kind, n=8):
    if kind == "unit": a, b = -1.0, 1.0
    elif kind == "far-narrow":      # far from the origin and narrow: |b-a|/max(|a|,|b|) on a ladder from 1e-12 n^2 (the n nodes are still
        c = rng.choice([-1, 1]) * 10 ** rng.uniform(-3, 9)       # thousands of ulps apart) up to the 1e-4 of the other kinds
        lo = math.log10(1e-12 * n * n)
        w = abs(c) * 10 ** rng.uniform(lo, max(lo, -3.5)); a, b = c - w / 2, c + w / 2
    elif kind == "zero-one": a, b = 0.0, 1.0
    elif kind == "generic":
        c = rng.choice([-1, 1]) * 10 ** rng.uniform(-3, 3); w = 10 ** rng.uniform(-3, 3)
        a, b = c - w * rng.random(), c + w * rng.random()
        if not (b - a >= 1e-3 * max(abs(a), abs(b))): a, b = c - w, c + w
    elif kind == "straddle":
        a, b = -10 ** rng.uniform(-2, 3), 10 ** rng.uniform(-2, 3)
    elif kind == "far":
        c = rng.choice([-1, 1]) * 10 ** rng.uniform(3, 9); w = abs(c) * 10 ** rng.uniform(-3.5, -1)
        a, b = c - w / 2, c + w / 2
    elif kind == "tiny":
        s = 10 ** rng.uniform(-12, -6); a, b = s, s * rng.uniform(1.5, 4)
    elif kind == "scaled":          # every position relative to the origin at every magnitude of the normal range
        a, b = _shape(rng, _scale(rng))
    elif kind == "subnormal":       # lengths of 2e6 .. 6e15 subnormal quanta (end points subnormal or just above)
        a, b = _shape(rng, 10.0 ** rng.uniform(-317, -307.5))
    elif kind == "huge-edge":       # representable end points and length, up to DBL_MAX (a+b or b-a may exceed DBL_MAX)
        r = rng.random()
        if r < 0.3: a, b = DBL_MAX * rng.uniform(0.3, 0.6), DBL_MAX * rng.uniform(0.7, 1.0)          # a+b overflows, b-a does not
        elif r < 0.5: a, b = -DBL_MAX * rng.uniform(0.7, 1.0), -DBL_MAX * rng.uniform(0.3, 0.6)
        elif r < 0.7: a, b = -DBL_MAX * rng.uniform(0.1, 0.49), DBL_MAX * rng.uniform(0.1, 0.49)      # nothing overflows
        elif r < 0.85: a, b = rng.choice([(0.0, DBL_MAX), (-DBL_MAX, 0.0), (0.0, DBL_MAX * rng.uniform(0.5, 1))])
        else: a, b = DBL_MAX * rng.uniform(0.1, 0.24), DBL_MAX * rng.uniform(0.3, 0.49)
    elif kind == "huge-wide":       # representable end points of opposite sign whose distance exceeds DBL_MAX (requests with n >= 2 only:
        a, b = -DBL_MAX * rng.uniform(0.55, 1.0), DBL_MAX * rng.uniform(0.55, 1.0)   # every node and weight is representable)
    else:
        raise ValueError(kind)
    return a, b


KINDS = ["unit", "zero-one", "generic", "straddle", "far", "tiny"]

# ---- intervals a few ulps wide, far from the origin relative to their width
ULP_WIDTHS = [2, 3, 4, 5, 7, 8, 10, 16, 20, 21, 22, 30, 40, 41, 50, 64, 80, 100, 128, 150, 200, 300, 500, 1000, 2000, 3000, 5000, 10000]


def _dmin(n):
    """a-priori lower bound (Bruns' inequalities (k-1/2) pi/(n+1/2) < theta_k < k pi/(n+1/2) for the zeros cos(theta_k) of P_n) on the
    distance of the outermost node of the reference rule from the end point and on the distance between neighbouring nodes"""
    if n == 1: return 1.0
    return min(1.0 - math.cos(math.pi / (2 * n + 1)), 2.0 * math.sin(math.pi / (n + 0.5)) * math.sin(math.pi / (4 * n + 2)))


def _resolvable(n, a, b):
    """True when the n nodes on [a,b] are distinct doubles strictly inside for every correctly rounded evaluation of xm -/+ hw*z:
    the midpoint and each node are rounded once (<= 1/2 ulp each), so exact offsets that differ by >= 2 ulps of max(|a|,|b|) and an
    outermost node >= 2 ulps inside suffice; n = 1 needs only a double strictly between the end points on both sides of the midpoint"""
    U = math.ulp(max(abs(a), abs(b))); w = abs(b - a) / U
    if n == 1: return w >= 2
    return 0.5 * w * _dmin(n) >= 2.0


def _nmax_resolvable(a, b, cap=64):
    n = 1
    while n < cap and _resolvable(n + 1, a, b): n += 1
    return n


def _ulp_interval(rng):
    """[x, x + k ulps] (or its mirror image) with k on the ladder 2 .. 1e4 and x of every magnitude from the subnormal border to 1e300,
    including powers of two (the interval starts at or straddles a binade border) and the usual round numbers"""
    r = rng.random()
    if r < 0.25: x = rng.choice([1.0, 2.0, 0.5, 0.1, 0.75, 1e-3, 3.0, 1.0 / 3.0, 7.0, 10.0, 100.0, 1e3, 1e6, 1e-8, 1.5, 1.9999999999999998])
    elif r < 0.4: x = math.ldexp(1.0, rng.randint(-1000, 1000)) * rng.choice([1.0, 1.0, 1.5, 1.75])
    else: x = 10.0 ** rng.uniform(-300, 300)
    k = rng.choice(ULP_WIDTHS) if rng.random() < 0.7 else int(10 ** rng.uniform(0.3, 4))
    if rng.random() < 0.25 and x > 1e-300: x = _ulps(x, -rng.randint(0, k))      # straddles x (a binade border when x is a power of two)
    y = _ulps(x, k)
    return (x, y) if rng.random() < 0.5 else (-y, -x)


def _ulp_rule_case(rng):
    a, b = _ulp_interval(rng)
    nm = _nmax_resolvable(a, b)
    n = rng.choice([1, 2, 3, 4, 5, nm, nm, max(1, nm - 1), rng.randint(1, nm)])
    n = min(n, nm)
    tags = ["rule", "ulp-ladder", "odd" if n % 2 else "even", "n<=40" if n <= 40 else "n<=512"]
    M = max(abs(a), abs(b)); tol = (1e-13, 1e-15 * M)
    r = rng.random()
    if r < 0.3: return Case(f"rule {n} {hx(b)} {hx(a)}", tags + ["reversed"], tol=tol)
    if r < 0.55: return Case(f"pair {n} {hx(a)} {hx(b)}", tags + ["pair"], tol=tol)
    return Case(f"rule {n} {hx(a)} {hx(b)}", tags, tol=tol)


# ---- function values that are special numbers
SPECIALS = [math.nan, math.nan, math.inf, -math.inf, 0.0, -0.0, 1e300, -1e300, 5e-324, DBL_MAX, -DBL_MAX, 2.2250738585072014e-308]


def _vals(rng, k, special=None):
    """k function values; special: some of them (one, two or all) are NaN, +-inf, signed zeros or at the ends of the range"""
    vals = [rng.choice([1.0, rng.uniform(-2, 2)]) for _ in range(k)]
    if special is None: special = rng.random() < 0.4
    if special and k:
        for i in rng.sample(range(k), min(k, rng.choice([1, 1, 2, k]))): vals[i] = rng.choice(SPECIALS)
    return vals


def _unit_exp(a, b):
    """e with 2^e <= max(|a|,|b|) < 2^(e+1) (2^e is a double for every finite non-zero magnitude)"""
    M = max(abs(a), abs(b))
    return math.frexp(M)[1] - 1 if M > 0.0 else 0


def _poly_fexpr(cs, e=0):
    """Horner form c0 + u*(c1 + u*(...)) in u = x / 2^e (an exact operation) as a prefix expression"""
    u = "x" if e == 0 else f"/ x c {hx(math.ldexp(1.0, e))}"
    ex = f"c {hx(cs[-1])}"
    for c in reversed(cs[:-1]):
        ex = f"+ c {hx(c)} * {u} {ex}"
    return ex


def _smooth_fexpr(rng, a, b):
    """a smooth integrand varying on the scale of the interval: g((x - c)/d), d = |b-a| * 10^(-1..1)"""
    d = abs(b - a) * 10 ** rng.uniform(-1, 1)
    if not (d > 0.0) or math.isinf(d): d = max(abs(a), abs(b), 5e-324)
    c = 0.5 * a + 0.5 * b
    arg = f"/ - x c {hx(c)} c {hx(d)}"
    return rng.choice([f"sin {arg}", f"cos {arg}", f"exp neg * {arg} {arg}", f"/ c 0x1p+0 + c 0x1p+0 * {arg} {arg}", f"tanh {arg}", f"abs {arg}"])


def _int_poly_case(rng, n, a, b, tags):
    """the three overloads on a polynomial of degree <= min(2n-1, 12) with O(1) coefficients in u = x/2^e, 1 <= max|u| < 2"""
    e = _unit_exp(a, b)
    deg = rng.randint(0, min(2 * n - 1, 12))
    co = [rng.choice([0.0, 1.0, -1.0, rng.uniform(-3, 3)]) / 2.0 ** k for k in range(deg + 1)]
    if co[-1] == 0.0: co[-1] = 1.0 / 2.0 ** deg
    if e >= 1000: co = [c / 4096.0 for c in co]      # |p| <= 2^-8 on the interval: the integral and every partial sum stay below DBL_MAX
    F = sum(abs(c) * 2.0 ** k for k, c in enumerate(co))
    return Case(f"int {n} {hx(a)} {hx(b)} {_poly_fexpr(co, e)}", tags, tol=(1e-12, 1e-13 * abs(0.5 * b - 0.5 * a) * F), info={"poly": co, "e": e})


def _rule_case(rng, n, kind, extra=()):
    a, b = _interval(rng, kind, n)
    tags = ["rule", kind, "odd" if n % 2 else "even", "n<=40" if n <= 40 else ("n<=512" if n <= 512 else "n>512")] + list(extra)
    r = rng.random()
    M = max(abs(a), abs(b))
    tol = (1e-13, 1e-15 * M)
    if r < 0.25: return Case(f"rule {n} {hx(b)} {hx(a)}", tags + ["reversed"], tol=tol)
    if r < 0.45: return Case(f"pair {n} {hx(a)} {hx(b)}", tags + ["pair"], tol=tol)
    return Case(f"rule {n} {hx(a)} {hx(b)}", tags, tol=tol)


INT_NS = [1, 2, 3, 4, 5, 6, 7, 8, 9, 10, 15, 16, 30, 31, 64]

# ------------------------------------------------------------------ nested integrations and sessions
# lev  := kind n a b      kind: I = (func,a,b,n), F = (func,rule), U = (values,rule), D = (func,a,b) with the default order 30
# core := P fexpr | G k n a b fexpr      innermost integrand in v0..v(d-1); G multiplies by the value overload called by the
#                                        integrand itself with k unit values on the rule (n,a,b) (rejected when k != n)
#         a kind followed by 'c' (Ic Fc Uc Dc) takes a fifth token fb: the call of this level is made under a handler
#         (try { v = call; } catch (the integrand's exception) { v = fb; }) inside the integrand of the level above
# core may also be  T cond fexpr           the integrand throws where cond < 0 (it is not defined there), else fexpr
# nestx d lev_1..lev_d core              integrands that throw and handle: the outermost level through each of the three overloads
#                                        and, fourth, every level through (values,rule) with the values collected by the caller
#                                        (no library frame is re-entered): four answers, each a value or "A count" (exception not handled)
# nest d lev_1..lev_d core               the outermost level through (func,a,b,n), (func,rule), (values,rule): three values
# sess k req_1..req_k                    requests made one after the other in one process:
#   R n a b | V n a b <list of values> | N d lev.. core | X at d lev.. core   (X: the core throws at its at-th evaluation)
MOD_KINDS = ["unit", "zero-one", "generic", "straddle", "far"]


def _order(l): return 30 if l[0][0] == "D" else l[1]
def _lev_tok(l): return f"{l[0]} {l[1]} {hx(l[2])} {hx(l[3])}" + (f" {hx(l[4])}" if len(l[0]) > 1 else "")
def _catches(l): return len(l[0]) > 1
def _levs_tok(levs): return f"{len(levs)} " + " ".join(_lev_tok(l) for l in levs)


def _u_expr(j, c0, s):
    v = f"v {j}"
    if c0 != 0.0: v = f"- {v} c {hx(c0)}"
    if s != 1.0: v = f"/ {v} c {hx(s)}"
    return v


def _pow2_near(w):
    return math.ldexp(1.0, math.frexp(abs(w))[1] - 1) if w != 0.0 else 1.0


def _core_poly(rng, levs, local=False):
    """a polynomial core: each variable enters through u_j = (x_j - c0_j)/s_j (global: c0 = 0, s = 2^e with 1 <= max|u| < 2;
    local: c0 = first limit, s = the power of two below the length, so that u runs over [0, 1..2)); degree in x_j <= 2 n_j - 1"""
    us = []
    for j, l in enumerate(levs):
        a, b = l[2], l[3]
        if local: us.append(_u_expr(j, a, _pow2_near(b - a)))
        else: us.append(_u_expr(j, 0.0, math.ldexp(1.0, _unit_exp(a, b))))
    d = len(levs)
    if d == 1:
        deg = rng.randint(0, min(2 * _order(levs[0]) - 1, 12))
        co = [rng.choice([0.0, 1.0, -1.0, rng.uniform(-3, 3)]) / 2.0 ** k for k in range(deg + 1)]
        if co[-1] == 0.0: co[-1] = 1.0 / 2.0 ** deg
        ex = f"c {hx(co[-1])}"
        for c in reversed(co[:-1]): ex = f"+ c {hx(c)} * {us[0]} {ex}"
        return ex
    terms = []
    for _ in range(rng.randint(1, 4)):
        budget = 8; fac = []
        for j in rng.sample(range(d), d):
            e = rng.randint(0, min(2 * _order(levs[j]) - 1, 3, budget)); budget -= e
            fac += [us[j]] * e
        t = f"c {hx(rng.choice([1.0, -1.0, 0.5, rng.uniform(-3, 3)]))}"
        for f_ in fac: t = f"* {t} {f_}"
        terms.append(t)
    ex = terms[0]
    for t in terms[1:]: ex = f"+ {ex} {t}"
    return ex


def _smooth_core(rng, d):
    j, k = rng.randrange(d), rng.randrange(d)
    return rng.choice([f"sin + v {j} v {k}", f"exp neg * v {j} v {k}", f"/ c 0x1p+0 + c 0x1p+0 * v {j} v {k}", f"cos v {j}"])


def _mod_interval(rng, kinds=MOD_KINDS):
    a, b = _interval(rng, rng.choice(kinds))
    if rng.random() < 0.2: a, b = b, a
    return a, b


def _levels(rng, d, budget, ns=None):
    """d levels whose orders multiply to at most budget evaluations of the core"""
    cap = max(1, int(budget ** (1.0 / d) + 1e-9))
    levs = []; prod = 1
    for j in range(d):
        n = rng.randint(1, min(cap + (1 if d <= 3 else 0), 12)) if ns is None else ns[j]
        k = rng.choices(["I", "F", "U", "D"], [0.45, 0.3, 0.15, 0.1 if (d <= 2 and prod * 30 <= budget) else 0.0])[0]
        if k == "D": n = 30
        prod *= n
        a, b = _mod_interval(rng)
        levs.append((k, n, a, b))
    return levs


def _evals(levs):
    p = 1
    for l in levs: p *= _order(l)
    return p


def _core_tok(rng, levs, guard=None, local=False, smooth=False):
    """guard: None = plain core; 'match' / 'mismatch' = the integrand calls the value overload itself"""
    ex = _smooth_core(rng, len(levs)) if smooth else _core_poly(rng, levs, local)
    if guard is None: return f"P {ex}"
    n = rng.choice([1, 2, 3, 4, 5, 8, 9])
    k = n if guard == "match" else rng.choice([n - 1, n + 1, 0, 2 * n, rng.randint(0, 12)])
    if guard != "match" and k == n: k = n + 1
    a, b = _mod_interval(rng, ["unit", "zero-one", "generic"])
    return f"G {k} {n} {hx(a)} {hx(b)} {ex}"


def _nest_case(rng, d, budget, guard=None, smooth=False):
    levs = _levels(rng, d, budget)
    core = _core_tok(rng, levs, guard, smooth=smooth)
    tags = ["nest", f"depth{d}", "smooth" if smooth else "poly"] + ([f"guard-{guard}"] if guard else [])
    return Case(f"nest {_levs_tok(levs)} {core}", tags, tol=(1e-12, _abs_tol([("N", levs, core)])))


def _throw_cond(rng, levs, j):
    """where the innermost integrand is not defined (cond < 0): a half-line, a band, an alternating pattern in one variable or a
    quadrant pattern in two; the variable is preferably one of the levels above the handler of level j (then whole inner integrations
    fail at some nodes of the enclosing one and succeed at others), else one below it (the inner integration fails part-way)"""
    d = len(levs)
    def var():
        if j >= 1 and rng.random() < 0.7: return rng.randrange(j)
        return rng.randrange(d)
    def thr(i):
        lo, hi = min(levs[i][2], levs[i][3]), max(levs[i][2], levs[i][3])
        return lo + (hi - lo) * rng.choice([0.3, 0.5, 0.1, 0.9, 0.7, rng.random()]), lo, hi
    i = var(); t, lo, hi = thr(i)
    r = rng.random()
    if r < 0.3: return f"- v {i} c {hx(t)}"
    if r < 0.55: return f"- c {hx(t)} v {i}"
    if r < 0.7: return f"- abs - v {i} c {hx(t)} c {hx((hi - lo) * rng.choice([0.05, 0.2, 0.4]))}"
    if r < 0.85:
        k = rng.randint(1, 6)
        return f"sin * c {hx(k * math.pi / (hi - lo) if hi > lo else 1.0)} - v {i} c {hx(lo)}"
    i2 = var(); t2, _, _ = thr(i2)
    return f"* - v {i} c {hx(t)} - v {i2} c {hx(t2)}"


def _with_handlers(rng, levs, p_inner=0.5, p_top=0.1, at_least=True):
    """put handlers (with their substitute values) on some levels; returns (levels, index of the outermost handled level >= 1 or 0)"""
    d = len(levs)
    hs = [rng.random() < (p_top if j == 0 else p_inner) for j in range(d)]
    if at_least and d >= 2 and not any(hs[1:]): hs[rng.randrange(1, d)] = True
    out = [((l[0] + "c",) + tuple(l[1:]) + (rng.choice([0.0, 0.0, 1.0, -1.0, rng.uniform(-2, 2)]),)) if h else l for l, h in zip(levs, hs)]
    js = [j for j in range(1, d) if hs[j]]
    return out, (js[0] if js else 0)


def _throwing_nest(rng, d, budget):
    """levels with handlers and an innermost integrand that throws on part of its domain (sometimes one that never throws: the
    handlers are then unused)"""
    levs, j = _with_handlers(rng, _levels(rng, d, budget))
    ex = _smooth_core(rng, d) if rng.random() < 0.2 else _core_poly(rng, levs)
    r = rng.random()
    if r < 0.85: core = f"T {_throw_cond(rng, levs, j)} {ex}"
    elif r < 0.95: core = f"P {ex}"
    else: core = _core_tok(rng, levs, "match")
    return levs, core


def _nestx_case(rng, d, budget):
    levs, core = _throwing_nest(rng, d, budget)
    return Case(f"nestx {_levs_tok(levs)} {core}", ("nestx", f"depth{d}", "core-" + core[0]), tol=(1e-12, _abs_tol([("N", levs, core)])))


def _rekind(rng, levs, flat=False):
    """the same nested integration asked through other overloads, level by level (orders, limits and handlers kept)"""
    out = []
    for l in levs:
        n = _order(l)
        k = "U" if flat else rng.choice(["I", "F", "U"] + (["D"] if n == 30 else []))
        out.append((k + l[0][1:], n) + tuple(l[2:]))
    return out


def _panel_limits(rng, n, k):
    """k+1 limits of k adjacent panels of (nearly) equal width w at offset c, c/w on a geometric ladder up to 1e12/n^2 (the nodes
    of every panel stay many ulps apart), exactly representable (binary) or generic; either sign, ascending or descending"""
    rmax = math.log10(1e12 / n ** 2)
    R = 0.0 if rng.random() < 0.1 else 10.0 ** rng.uniform(-0.5, rmax)
    if rng.random() < 0.5:
        w = math.ldexp(1.0, rng.randint(-20, 20)); c = w * float(round(R))
        if rng.random() < 0.3: w *= rng.choice([0.5, 0.25, 0.75, 1.5, 3.0])
    else:
        w = 10.0 ** rng.uniform(-3, 3); c = w * R * rng.uniform(1, 2)
    lim = [c + j * w for j in range(k + 1)]
    if rng.random() < 0.3: lim = [-x for x in lim]
    if rng.random() < 0.3: lim = lim[::-1]
    return lim


SESS_NS = [1, 2, 3, 4, 5, 6, 7, 8, 9, 10, 12, 15, 16, 20, 31, 32]


def _one_request(rng, mode, n, a, b):
    """a rule request or a one-level integration of a local polynomial on [a,b]"""
    if mode == "R": return ("R", n, a, b)
    levs = [(mode, n, a, b)]
    return ("N", levs, _core_tok(rng, levs, local=True))


def _req_tok(q):
    if q[0] == "R": return f"R {q[1]} {hx(q[2])} {hx(q[3])}"
    if q[0] == "V": return f"V {q[1]} {hx(q[2])} {hx(q[3])} {flist(q[4])}"
    if q[0] == "N": return f"N {_levs_tok(q[1])} {q[2]}"
    return f"X {q[3]} {_levs_tok(q[1])} {q[2]}"


def _random_request(rng, budget=400, maxdepth=4):
    r = rng.random()
    if r < 0.25:
        n = rng.choice(SESS_NS); a, b = _mod_interval(rng); return ("R", n, a, b)
    if r < 0.35:
        n = rng.choice([1, 2, 3, 4, 5, 8, 9, 16]); a, b = _mod_interval(rng)
        return ("V", n, a, b, _vals(rng, n, special=rng.random() < 0.25))
    d = rng.randint(1, maxdepth)
    if rng.random() < 0.25:       # integrands that throw on part of their domain, handlers inside enclosing integrands
        levs, core = _throwing_nest(rng, max(d, 2), budget)
        if r < 0.85: return ("N", levs, core)
        tot = _evals(levs)
        return ("X", levs, core, rng.choice([1, max(1, tot // 2), rng.randint(1, tot)]))
    levs = _levels(rng, d, budget)
    core = _core_tok(rng, levs, "match" if rng.random() < 0.15 else None, smooth=rng.random() < 0.15)
    if r < 0.8: return ("N", levs, core)
    tot = _evals(levs)
    return ("X", levs, core, rng.choice([1, tot, max(1, tot // 2), rng.randint(1, tot), tot + 1]))


def _session(rng):
    shape = rng.choice(["panels", "panels", "shift", "shift", "orders", "reversed", "repeat", "guard", "guard", "mixed", "mixed", "handled", "handled", "remix"])
    reqs = []
    mode = lambda: rng.choice(["R", "R", "I", "I", "F", "U"])
    if shape == "panels":
        n = rng.choice(SESS_NS); k = rng.randint(2, 5); lim = _panel_limits(rng, n, k)
        rev = rng.random() < 0.15
        m = rng.choice(["R", "I", "F", "U", "mix"])
        for j in range(k):
            a, b = (lim[j + 1], lim[j]) if rev else (lim[j], lim[j + 1])
            reqs.append(_one_request(rng, mode() if m == "mix" else m, n, a, b))
    elif shape == "shift":
        # the same request again with the limits moved by a relative amount on the ladder 1e-16 .. 1e-6
        n = rng.choice(SESS_NS); a, b = _mod_interval(rng); M = max(abs(a), abs(b))
        m = rng.choice(["R", "R", "I", "F"])
        reqs.append(_one_request(rng, m, n, a, b))
        for _ in range(rng.randint(1, 3)):
            dd = 10.0 ** rng.uniform(-16, -6) * rng.choice([-1, 1]); v = rng.choice(["scale", "translate", "stretch"])
            if v == "scale": a2, b2 = a * (1 + dd), b * (1 + dd)
            elif v == "translate": a2, b2 = a + dd * M, b + dd * M
            else: a2, b2 = a, b + dd * (b - a)
            if a2 == a and b2 == b:
                a2 = math.nextafter(a, math.inf); b2 = math.nextafter(b, math.inf)
            reqs.append(_one_request(rng, m, n, a2, b2))
            if rng.random() < 0.3: reqs.append(reqs[0])
    elif shape == "orders":
        n = rng.choice(SESS_NS); a, b = _mod_interval(rng); m = rng.choice(["R", "I", "F"])
        for n2 in [n, rng.choice([n + 1, max(1, n - 1), 2 * n, max(1, n // 2), 1]), n, rng.choice([n + 1, max(1, n - 1)])][:rng.randint(2, 4)]:
            reqs.append(_one_request(rng, m, n2, a, b))
    elif shape == "reversed":
        n = rng.choice(SESS_NS); a, b = _mod_interval(rng); m = rng.choice(["R", "I", "F", "U"])
        q = _one_request(rng, m, n, a, b)
        reqs += [q, _one_request(rng, m, n, b, a), q]
    elif shape == "repeat":
        q1 = _random_request(rng); q2 = _random_request(rng)
        reqs = rng.choice([[q1, q1], [q1, q2, q1], [q1, q1, q2, q2], [q1, q2, q1, q2]])
    elif shape == "guard":
        # a size-guard probe after other requests, after a request abandoned by its integrand, or made by an integrand
        for _ in range(rng.randint(0, 2)): reqs.append(_random_request(rng, 200, 3))
        if rng.random() < 0.7:
            d = rng.randint(1, 3); levs = _levels(rng, d, 200); tot = _evals(levs)
            reqs.append(("X", levs, _core_tok(rng, levs), rng.choice([1, tot, max(1, tot // 2), rng.randint(1, tot)])))
            if rng.random() < 0.3: reqs.append(_random_request(rng, 200, 2))
        g = "match" if rng.random() < 0.25 else "mismatch"
        if rng.random() < 0.5:
            n = rng.choice([1, 2, 3, 4, 5, 8, 9, 16, 33]); a, b = _mod_interval(rng)
            k = n if g == "match" else rng.choice([n - 1, n + 1, 0, 2 * n, rng.randint(0, 40)])
            if g != "match" and k == n: k = n + 1
            reqs.append(("V", n, a, b, [1.0] * k if rng.random() < 0.5 else _vals(rng, k, special=True)))
        else:
            d = rng.randint(1, 4); levs = _levels(rng, d, 300)
            reqs.append(("N", levs, _core_tok(rng, levs, g)))
    elif shape == "handled":
        # one nested integration whose integrand throws and handles, asked through several mixes of the overloads and through
        # (values,rule) alone, with other requests in between and afterwards
        d = rng.randint(2, 4); levs, core = _throwing_nest(rng, d, 300)
        at = None
        if rng.random() < 0.2: at = rng.randint(1, _evals(levs))      # ... or one that throws from its at-th evaluation on
        mk = lambda lv: ("N", lv, core) if at is None else ("X", lv, core, at)
        reqs.append(mk(levs))
        for _ in range(rng.randint(1, 3)):
            if rng.random() < 0.3: reqs.append(_random_request(rng, 200, 3))
            reqs.append(mk(_rekind(rng, levs, flat=rng.random() < 0.4)))
        if not any(all(l[0][0] == "U" for l in q[1]) for q in reqs if q[0] in ("N", "X") and q[2] is core): reqs.append(mk(_rekind(rng, levs, flat=True)))
        if rng.random() < 0.5: reqs.append(_random_request(rng, 200, 3))
    elif shape == "remix":
        # any nested integration asked again through other overloads
        d = rng.randint(1, 4); levs = _levels(rng, d, 300); core = _core_tok(rng, levs, smooth=rng.random() < 0.3)
        reqs = [("N", levs, core)] + [("N", _rekind(rng, levs, flat=rng.random() < 0.3), core) for _ in range(rng.randint(1, 3))]
    else:
        for _ in range(rng.randint(3, 6)): reqs.append(_random_request(rng))
    line = f"sess {len(reqs)} " + " ".join(_req_tok(q) for q in reqs)
    return Case(line, ("sess", shape), tol=(1e-12, _abs_tol(reqs)))


# ---- reading the requests back from the case text (the predicates do not depend on generator metadata)
def _rd_fexpr(t, p):
    w = t[p]
    if w in ("x", "y", "z"): return ("v", "xyz".index(w)), p + 1
    if w == "v": return ("v", int(t[p + 1])), p + 2
    if w == "c": return ("c", float.fromhex(t[p + 1]) if t[p + 1] not in ("nan", "inf", "-inf") else float(t[p + 1])), p + 2
    if w in ("+", "-", "*", "/"):
        a, p = _rd_fexpr(t, p + 1); b, p = _rd_fexpr(t, p); return (w, a, b), p
    if w == "pow":
        a, p = _rd_fexpr(t, p + 1); return ("pow", a, float.fromhex(t[p])), p + 1
    if w == "pwl":
        m = int(t[p + 1]); a, q = _rd_fexpr(t, p + 2 + 2 * m); return ("pwl", a), q
    a, p = _rd_fexpr(t, p + 1); return (w, a), p


def _rd_levels(t, p):
    d = int(t[p]); p += 1; levs = []
    for _ in range(d):
        l = (t[p], int(t[p + 1]), float.fromhex(t[p + 2]), float.fromhex(t[p + 3])); p += 4
        if len(l[0]) > 1: l += (float.fromhex(t[p]),); p += 1
        levs.append(l)
    return levs, p


def _rd_core(t, p):
    core = {"kind": t[p]}; p += 1
    if core["kind"] == "G":
        core.update(k=int(t[p]), n=int(t[p + 1]), a=float.fromhex(t[p + 2]), b=float.fromhex(t[p + 3])); p += 4
    if core["kind"] == "T": core["cond"], p = _rd_fexpr(t, p)
    core["ast"], p = _rd_fexpr(t, p)
    return core, p


def _rd_session(line):
    t = line.split(); k = int(t[1]); p = 2; reqs = []
    for _ in range(k):
        c = t[p]; p0 = p; p += 1
        if c == "R":
            q = {"op": "R", "n": int(t[p]), "a": float.fromhex(t[p + 1]), "b": float.fromhex(t[p + 2])}; p += 3
        elif c == "V":
            q = {"op": "V", "n": int(t[p]), "a": float.fromhex(t[p + 1]), "b": float.fromhex(t[p + 2])}; m = int(t[p + 3])
            q["vals"] = [float.fromhex(x) for x in t[p + 4:p + 4 + m]]; p += 4 + m
        else:
            q = {"op": c}
            if c == "X": q["at"] = int(t[p]); p += 1
            q["levs"], p = _rd_levels(t, p); pc = p; q["core"], p = _rd_core(t, p)
            q["canon"] = (c, q.get("at"), tuple((_order(l), l[2], l[3], l[4] if _catches(l) else None) for l in q["levs"]), " ".join(t[pc:p]))
        q["text"] = " ".join(t[p0:p]); reqs.append(q)
    return reqs


def _as_request(q):
    """generator tuple -> the dictionary _rd_session produces"""
    return _rd_session("sess 1 " + _req_tok(q))[0]


# ---- exact reference and a-priori slack for a nested integration of a polynomial core
def _atom(ast):
    """u = (v_j - c0)/s in one of its spellings -> (j, c0, s)"""
    if ast[0] == "v": return ast[1], 0.0, 1.0
    if ast[0] == "/" and ast[2][0] == "c":
        r = _atom(ast[1])
        if r and r[2] == 1.0: return r[0], r[1], ast[2][1]
    if ast[0] == "-" and ast[1][0] == "v" and ast[2][0] == "c": return ast[1][1], ast[2][1], 1.0
    return None


def _padd(p, q, sg=1):
    r = dict(p)
    for k, c in q.items(): r[k] = r.get(k, 0) + sg * c
    return r


def _pmul(p, q):
    r = {}
    for k1, c1 in p.items():
        for k2, c2 in q.items():
            k = tuple(x + y for x, y in zip(k1, k2)); r[k] = r.get(k, 0) + c1 * c2
    return r


def _poly(ast, d, atoms):
    """-> (P, Pabs, size): the polynomial in the atoms u_0..u_(d-1) as {exponents: Fraction}, the same with every sign made positive
    (no cancellation between subexpressions: the magnitude a floating-point evaluation works with), number of operations; None if not one"""
    at = _atom(ast)
    if at is not None and at[2] != 0.0 and not (ast[0] == "c"):
        j, c0, s = at
        if j >= d or atoms.setdefault(j, (c0, s)) != (c0, s): return None
        k = tuple(1 if i == j else 0 for i in range(d)); return {k: Fraction(1)}, {k: Fraction(1)}, 3
    z = tuple([0] * d)
    if ast[0] == "c":
        if math.isnan(ast[1]) or math.isinf(ast[1]): return None
        return {z: Fraction(ast[1])}, {z: abs(Fraction(ast[1]))}, 0
    if ast[0] in ("+", "-", "*"):
        l = _poly(ast[1], d, atoms); r = _poly(ast[2], d, atoms)
        if l is None or r is None: return None
        if ast[0] == "*": return _pmul(l[0], r[0]), _pmul(l[1], r[1]), l[2] + r[2] + 1
        return _padd(l[0], r[0], 1 if ast[0] == "+" else -1), _padd(l[1], r[1]), l[2] + r[2] + 1
    if ast[0] == "neg":
        l = _poly(ast[1], d, atoms)
        return None if l is None else ({k: -c for k, c in l[0].items()}, l[1], l[2])
    return None


def _nest_reference(levs, core):
    """(exact integral, slack, magnitude) of the nested integration of a polynomial core, all Fractions; None when the core is not a
    polynomial, a level's limits coincide or are not moderate numbers.  Slack (a priori): per level and exponent e the moment bound of
    DERIVATION in the variable u = (x - c0)/s, |sum w u^e - int u^e| <= L_u M_u^e r(e), r(e) = W(n) + e dt hw_u/M_u + (n + 2e + 6) 2^-53
    (weights, node positions in x rounded relative to max(|a|,|b|), the n-term sum and the evaluation of u^e); a product of levels errs
    by at most prod(B_j (1 + r_j)) - prod(B_j), B_j = L_u M_u^e >= |int u^e|; evaluating the core costs (operations) 2^-53 of its
    magnitude; a G core multiplies by the weights' total of its own rule, (b-a)(1 +- (W(n) + (2n + 5) 2^-53))."""
    d = len(levs); atoms = {}
    if core["kind"] == "T": return None      # piecewise: decided by the agreement with the all-(values,rule) evaluation
    pr = _poly(core["ast"], d, atoms)
    if pr is None: return None
    P, Pabs, size = pr
    lv = []
    scale = Fraction(1)
    for j, l in enumerate(levs):
        n = _order(l); a, b = l[2], l[3]
        if a == b or not (2.0 ** -100 < max(abs(a), abs(b)) < 2.0 ** 100): return None
        c0, s = atoms.get(j, (0.0, 1.0))
        ua, ub = (Fraction(a) - Fraction(c0)) / Fraction(s), (Fraction(b) - Fraction(c0)) / Fraction(s)
        Mu = max(abs(ua), abs(ub)); Lu = abs(ub - ua)
        Mx = max(abs(a), abs(b)); hwx = 0.5 * abs(b - a)
        dt = Fraction(NEWTON + 2 * EPS * Mx / hwx)
        lv.append((n, ua, ub, Mu, Lu, dt)); scale *= Fraction(s)
    def r(j, e):
        n, ua, ub, Mu, Lu, dt = lv[j]
        return Fraction(W(n)) + e * dt * (Lu / 2) / Mu + (n + 2 * e + 6) * Fraction(EPS)
    ref = Fraction(0)
    for k, c in P.items():
        t = c
        for j, e in enumerate(k):
            n, ua, ub, Mu, Lu, dt = lv[j]; t *= (ub ** (e + 1) - ua ** (e + 1)) / (e + 1)
        ref += t
    slack = Fraction(0); mag = Fraction(0)
    g = Fraction(0)
    if core["kind"] == "G": g = Fraction(W(core["n"]) + (2 * core["n"] + 5) * EPS)
    for k, c in Pabs.items():
        B = c; Br = c
        for j, e in enumerate(k):
            n, ua, ub, Mu, Lu, dt = lv[j]; Bj = Lu * Mu ** e; B *= Bj; Br *= Bj * (1 + r(j, e))
        slack += Br * (1 + g) * (1 + (size + 2) * Fraction(EPS)) - B; mag += B
    if core["kind"] == "G":
        w = Fraction(core["b"]) - Fraction(core["a"]); ref *= w; slack *= abs(w); mag *= abs(w)
    return ref * scale, slack * abs(scale), mag * abs(scale)


def _abs_tol(reqs):
    """absolute part of the comparison tolerance for a session: 1e-13 of the largest magnitude an answer is formed from"""
    m = 0.0
    for q in reqs:
        if q[0] == "R": m = max(m, 1e-2 * max(abs(q[2]), abs(q[3])))
        elif q[0] == "V": m = max(m, 4.0 * abs(q[3] - q[2]))
        else:
            levs = q[1]
            core = q[2] if isinstance(q[2], dict) else _rd_core(q[2].split(), 0)[0]
            r = _nest_reference(levs, core if core["kind"] != "T" else dict(core, kind="P"))
            if r is not None: v = float(r[2])
            else:
                v = 4.0
                for l in levs: v *= abs(l[3] - l[2])
            w = 1.0
            for l in levs:      # substitute values of the handlers, integrated over the levels above
                if _catches(l): v += abs(l[4]) * w
                w *= abs(l[3] - l[2])
            m = max(m, v)
    return 1e-13 * m


def _core_text(line):
    t = line.split(); _, p = _rd_levels(t, 1); return " ".join(t[p:])


def _core_guard(core): return core["kind"] == "G" and core["k"] != core["n"]


def _nest_exact(tag, levs, core, got, what):
    if not isinstance(got, float) or math.isnan(got) or math.isinf(got):
        if _nest_reference(levs, core) is not None: return [(f"{tag}:exact-polynomial", f"{what}: the integral of a polynomial over moderate limits is reported as {got!r}")]
        return []
    r = _nest_reference(levs, core)
    if r is None: return []
    ref, slack, mag = r
    if abs(Fraction(got) - ref) <= slack: return []
    return [(f"{tag}:exact-polynomial", f"{what}: returned {got!r}, the exact integral is {float(ref)!r} (allowed {float(slack):.3g})")]


def _describe(levs):
    return " of ".join(f"{ {'I': '(func,a,b,n)', 'F': '(func,rule)', 'U': '(values,rule)', 'D': '(func,a,b)', '*': '(each overload)'}[l[0][0]] }{' under a handler' if _catches(l) else ''} n={_order(l)} on [{l[2]!r},{l[3]!r}]" for l in levs)


def generate(rng, tier):
    cs = []
    big = tier != "quick"
    # ---- rules: exhaustive over n
    if big:
        ns = list(range(1, 513)); per = 5
        sample = sorted(rng.sample(range(513, 4001), 36)) + [1023, 1024, 2047, 3999, 4000]; sper = 2
    else:
        ns = list(range(1, 65)); per = 3
        sample = sorted(rng.sample(range(65, 513), 20)) + [127, 128, 255, 511, 512]; sper = 2
    for n in ns + sample:
        k = per if n in ns and n <= 512 and (big or n <= 64) else sper
        kinds = [KINDS[(n + j) % len(KINDS)] for j in range(k)]
        if n <= 8 and "unit" not in kinds: kinds.append("unit")
        for kind in kinds:
            cs.append(_rule_case(rng, n, kind))
        # every magnitude of the normal range, every position relative to the origin
        for _ in range(2 if (big or n <= 16) else 1):
            cs.append(_rule_case(rng, n, "scaled"))
        # subnormal end points / lengths (node spacing ~ 6|b-a|/n^2 must stay many quanta: n <= 64 only) and the top of the range
        if n <= 64 and (big or n <= 8 or n % 4 == 0 or rng.random() < 0.25):
            cs.append(_rule_case(rng, n, "subnormal"))
        if n <= 8 or rng.random() < (0.3 if big else 0.1):
            cs.append(_rule_case(rng, n, "huge-edge"))
        if n >= 2 and (n <= 6 or rng.random() < (0.15 if big else 0.05)):
            cs.append(_rule_case(rng, n, "huge-wide"))
        if n <= 1000 and (big or n <= 16 or n % 3 == 0 or rng.random() < 0.3):
            cs.append(_rule_case(rng, n, "far-narrow"))
        if n <= 64 or rng.random() < 0.1:
            cs.append(Case(f"rule_default {n}", ("rule_default", "odd" if n % 2 else "even"), tol=(1e-13, 1e-15)))
    cs.append(Case("rule 0 -0x1p+0 0x1p+0", ("rule", "n=0")))
    # ---- intervals 2 .. 1e4 ulps wide at every magnitude, every order the doubles of the interval can still resolve
    for _ in range(2500 if big else 260):
        cs.append(_ulp_rule_case(rng))
    # ---- the three overloads on the same request
    for _ in range(1500 if big else 250):
        n = rng.choice(INT_NS + [rng.randint(1, 200)])
        kind = rng.choice(["unit", "zero-one", "generic", "straddle", "far"])
        a, b = _interval(rng, kind)
        if rng.random() < 0.25: a, b = b, a
        if rng.random() < 0.6:
            cs.append(_int_poly_case(rng, n, a, b, ("int", "poly", kind)))
        else:
            cs.append(Case(f"int {n} {hx(a)} {hx(b)} {_smooth_fexpr(rng, a, b)}", ("int", "smooth", kind), tol=(1e-12, 1e-13 * abs(b - a))))
    # the same at every magnitude (scale ladder, subnormal lengths, top of the range) ...
    for _ in range(2400 if big else 400):
        n = rng.choice(INT_NS + [rng.randint(1, 100)])
        kind = rng.choice(["scaled", "scaled", "scaled", "scaled", "tiny", "tiny", "subnormal", "subnormal", "huge-edge", "huge-edge", "huge-wide"])
        if kind == "huge-wide" and n == 1: n = 2
        a, b = _interval(rng, kind)
        if rng.random() < 0.25: a, b = b, a
        if rng.random() < 0.7:
            cs.append(_int_poly_case(rng, n, a, b, ("int", "poly", kind)))
        else:
            cs.append(Case(f"int {n} {hx(a)} {hx(b)} {_smooth_fexpr(rng, a, b)}", ("int", "smooth", kind), tol=(1e-12, 1e-13 * abs(0.5 * b - 0.5 * a) * 2)))
    # ... and on intervals whose end points nearly coincide (1 .. 1e6 ulps, relative distance 1e-16 .. 1e-6), and a == b
    for _ in range(1800 if big else 300):
        n = rng.choice(INT_NS + [rng.randint(1, 100)])
        a, b = _near_equal(rng)
        r = rng.random()
        if r < 0.25: a, b = b, a
        elif r < 0.29: b = a
        cs.append(_int_poly_case(rng, n, a, b, ("int", "poly", "near-equal" if a != b else "a==b")))
    for _ in range(300 if big else 60):
        kind = rng.choice(["unit", "generic", "straddle", "scaled", "scaled", "subnormal"])
        a, b = _interval(rng, kind)
        if rng.random() < 0.2: a, b = _near_equal(rng); kind = "near-equal"
        if rng.random() < 0.2: a, b = b, a
        cs.append(Case(f"int_default {hx(a)} {hx(b)} {_smooth_fexpr(rng, a, b)}", ("int_default", kind), tol=(1e-12, 1e-13 * abs(b - a) * 3)))
    # ---- size guard of the value overload
    for _ in range(600 if big else 120):
        n = rng.choice([1, 2, 3, 4, 5, 8, 9, 16, 33])
        k = rng.choice([n, n, n - 1, n + 1, 0, 2 * n, rng.randint(0, 40)])
        vals = _vals(rng, k)
        if rng.random() < 0.5:
            a, b = _interval(rng, rng.choice(["unit", "generic"]))
            cs.append(Case(f"values {n} {hx(a)} {hx(b)} {flist(vals)}", ("values", "match" if k == n else "mismatch"), tol=(1e-12, 1e-13 * abs(b - a) * 2)))
        else:
            rows = [[rng.uniform(-1, 1), rng.uniform(-1, 2)] for _ in range(n)]
            bad = rng.random() < 0.4
            if bad:   # a row that is not {root, weight}
                i = rng.randrange(n); rows[i] = [rng.uniform(-1, 1) for _ in range(rng.choice([1, 3, 4]))]
            tab = f"{n} " + " ".join(flist(r_) for r_ in rows)
            tag = ("match" if k == n else "mismatch") + ("-badrow" if bad else "")
            if rng.random() < 0.6:
                cs.append(Case(f"values_rows {flist(vals)} {tab}", ("values_rows", tag), tol=(1e-12, 1e-13 * n)))
            else:
                cs.append(Case(f"fun_rows {tab} {rng.choice(['x', '* x x', 'cos x', 'c 0x1p+0', 'log x', 'c nan', 'c inf', '/ c 0x1p+0 x'])}", ("fun_rows", "badrow" if bad else "wellformed"), tol=(1e-12, 1e-13 * n)))
    # ---- unit values on a computed rule: sum of the weights = b-a at every magnitude and for nearly coinciding end points
    for _ in range(900 if big else 150):
        n = rng.choice(INT_NS + [rng.randint(1, 100)])
        if rng.random() < 0.4: a, b = _near_equal(rng); kind = "near-equal"
        else:
            kind = rng.choice(["scaled", "scaled", "subnormal", "huge-edge", "far"]); a, b = _interval(rng, kind)
        if rng.random() < 0.25: a, b = b, a
        cs.append(Case(f"values {n} {hx(a)} {hx(b)} {flist([1.0] * n)}", ("values", "unit-values", kind), tol=(1e-12, 1e-13 * abs(0.5 * b - 0.5 * a) * 2)))
    # ---- re-entrant integrands: nested integrations of every depth 1..6 through every mix of overloads (the three overloads at the top)
    budget = 4000 if big else 1200
    for i in range(1200 if big else 150):
        d = 1 + i % 6
        r = rng.random()
        cs.append(_nest_case(rng, d, budget, guard=("mismatch" if r < 0.15 else "match" if r < 0.22 else None), smooth=0.22 <= r < 0.3))
    # ---- integrands that throw on part of their domain, with handlers inside enclosing integrands (depth 1..5)
    for i in range(1200 if big else 160):
        cs.append(_nestx_case(rng, [2, 3, 2, 4, 3, 2, 5, 1][i % 8], budget))
    # ---- sessions: several requests in one process (adjacent panels at every offset, nearly equal requests, changing orders,
    #      reversed limits, repeats, requests abandoned by their integrand, size-guard probes in every context)
    for _ in range(2400 if big else 300):
        cs.append(_session(rng))
    return cs


def nontrivial(c, io):
    t = c.line.split(); op = t[0]
    if op in ("rule", "pair"):
        n = int(t[1]); a, b = float.fromhex(t[2]), float.fromhex(t[3])
        return n >= 1 and (n % 2 == 1 or n > 64 or not (min(a, b) <= 0.0 <= max(a, b)))
    if op == "rule_default": return int(t[1]) % 2 == 1 or int(t[1]) > 64
    if op in ("values", "values_rows", "fun_rows"): return any("mismatch" in x or "badrow" in x for x in c.tags)
    if op == "int":
        n = int(t[1]); a, b = float.fromhex(t[2]), float.fromhex(t[3])
        return n % 2 == 1 or n > 64 or not (min(a, b) <= 0.0 <= max(a, b))
    if op in ("nest", "nestx"): return int(t[1]) >= 2
    if op == "sess": return int(t[1]) >= 2
    return False


# ------------------------------------------------------------------ S4
def W(n):
    """a-priori relative perturbation of the weights' total (see the derivation in the module docstring below)"""
    return (8.0 * math.log(n) + 8.0) * NEWTON + 32.0 * n * EPS


DERIVATION = """
A-priori slack for 'integrates exactly to rounding' (fixed before any run):
 * each computed z_i differs from a root of P_n by at most the Newton tolerance eps = 1e-14 (last step) and pp is the derivative at the
   previous iterate (again within 1e-14); the weight formula 2/((1-z^2) pp^2) has relative sensitivity 2|z|/(1-z^2) to either, and
   sum_i w_i |z_i|/(1-z_i^2) ~ int |t|/(1-t^2) up to the last node = ln(n^2/5.8) <= 2 ln n; hence sum |dw_i| <= |hw| (8 ln n) 1e-14
   (+8e-14 for the constants);
 * the n-term Legendre recurrence in doubles perturbs pp by at most 8 n 2^-53 relative (forward recurrence, first-order bound), the
   weight by twice that, and the final sum over n weights adds n 2^-53: 32 n 2^-53 in total;
 * node positions: |dt_i| <= 1e-14 + 2*2^-53*max(|a|,|b|)/|hw| in units of the reference interval (Newton + the two roundings of
   x_middle -/+ x_half_width*z); a test function g contributes sum w_i |g'| |dx_i|;
 * magnitudes outside 2^-100 .. 2^100: the produced doubles are rescaled exactly by a power of two (units of 2^e, max(|a|,|b|) ~ 1) and the same
   bounds are used; where results can be subnormal (max(|a|,|b|) < 2^-900) each node, weight and product value*weight carries one absolute
   rounding of at most the quantum q = 2^-1074: 4q per node sum, 2q/|hw| in dt, (n+2) q max|g| on a weighted sum (+ (n+2) q for the products);
 * the reference side is exact (integers) for n <= 40; in floating point (n > 40) evaluating x^k costs (k+2) 2^-53 relative and the
   three-term recurrence for P_k at most (k+1)^2 2^-53 absolute.
"""


def _dy(x):
    """double -> (integer mantissa, exponent e) with x = m * 2^e"""
    num, den = x.as_integer_ratio()
    return num, -(den.bit_length() - 1)


def _exact_moments(xs, ws, kmax):
    """sum_i w_i x_i^k for k = 0..kmax as exact Fractions, via integers on a common binary exponent"""
    X = [_dy(x) for x in xs]; Wt = [_dy(w) for w in ws]
    ex = min(e for _, e in X); ew = min(e for _, e in Wt)
    Xi = [m << (e - ex) for m, e in X]; Wi = [m << (e - ew) for m, e in Wt]
    out = []; P = list(Wi)
    for k in range(kmax + 1):
        s = sum(P); e = ew + k * ex
        out.append(Fraction(s) * (Fraction(2) ** e))
        P = [p * x for p, x in zip(P, Xi)]
    return out


SUBQ = 2.0 ** -1074   # the subnormal quantum: absolute rounding error of a result below DBL_MIN (a-priori, like EPS)


def _units(a, b):
    """(e, q): magnitudes outside 2^-100 .. 2^100 are evaluated in units of 2^e (an exact rescaling of the produced doubles: every
    clause is homogeneous), e = exponent of max(|a|,|b|); q = the subnormal quantum in these units (0 when no result can be subnormal)"""
    M = max(abs(a), abs(b))
    if M == 0.0 or math.isinf(M) or math.isnan(M): return 0, 0.0
    e = math.frexp(M)[1]
    if -100 <= e <= 100: return 0, 0.0
    return e, (math.ldexp(1.0, -1074 - e) if e < -900 else 0.0)


def _region(a, b):
    """suffix of the signature for requests whose end points are doubles but whose a+b or b-a is not"""
    if math.isinf(a) or math.isinf(b) or math.isnan(a) or math.isnan(b): return ""
    if math.isinf(a + b): return ":sum-of-limits-overflows"
    if math.isinf(b - a): return ":length-overflows"
    return ""


def _rule_predicates(tag, n, a, b, xs, ws, full=True):
    e, q = _units(a, b)
    if e == 0: return _rule_predicates_u(tag, n, a, b, xs, ws, full)
    sc = lambda x: math.ldexp(x, -e) if isinstance(x, float) else x
    reg = _region(a, b)
    out = _rule_predicates_u(tag, n, sc(a), sc(b), [sc(x) for x in xs], [sc(w) for w in ws], full, q)
    return [(sig + reg, msg + f" [numbers in units of 2^{e}: a = {a!r}, b = {b!r}]") for sig, msg in out]


def _rule_predicates_u(tag, n, a, b, xs, ws, full=True, q=0.0):
    """the clauses of the property on one produced rule; orientation s = sign(b-a); q = absolute rounding quantum (subnormal results)"""
    out = []
    if len(xs) != n or len(ws) != n:
        return [(f"{tag}:count", f"rule of order {n} has {len(xs)} nodes and {len(ws)} weights")]
    if n == 0 or a == b: return out
    s = 1.0 if b > a else -1.0
    lo, hi = min(a, b), max(a, b); M = max(abs(a), abs(b)); L = abs(b - a)
    if any(not (s * (y - x) > 0) for x, y in zip(xs, xs[1:])):
        k = next(i for i, (x, y) in enumerate(zip(xs, xs[1:])) if not (s * (y - x) > 0))
        out.append((f"{tag}:increasing", f"n={n} [{a!r},{b!r}]: nodes {k},{k+1} = {xs[k]!r}, {xs[k+1]!r} are not strictly ordered from a to b"))
    if any(not (lo < x < hi) for x in xs):
        out.append((f"{tag}:inside", f"n={n} [{a!r},{b!r}]: a node is not strictly inside the interval (min {min(xs)!r}, max {max(xs)!r})"))
    # symmetry about the midpoint: construction gives xm -/+ hw*z with the same z; 2 roundings per node, 2 for xm, 2 for this sum
    sl = 8 * EPS * M + 4 * q
    for i in range(n // 2):
        if abs((xs[i] + xs[n - 1 - i]) - (a + b)) > sl:
            out.append((f"{tag}:nodes-symmetric", f"n={n} [{a!r},{b!r}]: node {i} + node {n-1-i} = {xs[i] + xs[n-1-i]!r}, a+b = {a+b!r}")); break
        if a == -b and xs[i] != -xs[n - 1 - i]:
            out.append((f"{tag}:nodes-symmetric", f"n={n} symmetric interval: node {i} = {xs[i]!r} is not minus node {n-1-i} = {xs[n-1-i]!r}")); break
    if n % 2 == 1:
        mid = xs[n // 2]
        if abs(mid - 0.5 * (a + b)) > sl + 0.5 * L * NEWTON:
            out.append((f"{tag}:nodes-symmetric", f"n={n} [{a!r},{b!r}]: middle node {mid!r} is not the midpoint {0.5*(a+b)!r}"))
    if any(not (s * w > 0) for w in ws):
        k = next(i for i, w in enumerate(ws) if not (s * w > 0))
        out.append((f"{tag}:positive", f"n={n} [{a!r},{b!r}]: weight {k} = {ws[k]!r} does not have the sign of b-a"))
    if any(ws[i] != ws[n - 1 - i] for i in range(n // 2)):
        out.append((f"{tag}:weights-symmetric", f"n={n} [{a!r},{b!r}]: weights are not symmetric"))
    if out: return out          # exactness is meaningless on a malformed rule; report the structural failure
    hw = 0.5 * (b - a); xm = 0.5 * (b + a)
    dt = NEWTON + 2 * EPS * M / abs(hw) + 2 * q / abs(hw)
    Wn = W(n); qn = (n + 2) * q      # each weight and each product is rounded once to the quantum
    sw = math.fsum(ws)
    if abs(sw - (b - a)) > L * (Wn + 2 * EPS) + qn:
        out.append((f"{tag}:sum", f"n={n} [{a!r},{b!r}]: weights sum to {sw!r}, b-a = {b-a!r} (slack {L*(Wn+2*EPS)+qn:.3g})"))
    if not full or out: return out      # a wrong total (or non-finite weights) is reported as such
    kmax = min(2 * n - 1, 60)
    # monomials x^k against (b^(k+1) - a^(k+1))/(k+1)
    fa, fb, fM = Fraction(a), Fraction(b), Fraction(M)
    if n <= 40:
        mom = _exact_moments(xs, ws, kmax)
        for k in range(kmax + 1):
            ref = (fb ** (k + 1) - fa ** (k + 1)) / (k + 1)
            rel = Wn + k * dt * abs(hw) / M
            if abs(mom[k] - ref) > (Fraction(L) * Fraction(rel) + Fraction(qn)) * fM ** k:
                out.append((f"{tag}:exact-monomial", f"n={n} [{a!r},{b!r}]: sum w_i x_i^{k} = integral*(1{float((mom[k] - ref) / ref):+.3g}), integral = {float(ref)!r} (exact arithmetic; allowed {rel:.3g}*|b-a|*max|x|^k)")); break
    else:
        # monomials scaled to (x/M)^k so that no power over- or underflows
        us = [x / M for x in xs]
        P = list(ws)
        for k in range(kmax + 1):
            got = math.fsum(P)
            ref = float((fb ** (k + 1) - fa ** (k + 1)) / (k + 1) / fM ** k)
            slack = L * (Wn + k * dt * abs(hw) / M + (2 * k + 2) * EPS) + qn
            if not (abs(got - ref) <= slack):
                out.append((f"{tag}:exact-monomial", f"n={n} [{a!r},{b!r}]: sum w_i (x_i/M)^{k} = {got!r}, integral = {ref!r} (M = {M!r}, slack {slack:.3g})")); break
            P = [p * u for p, u in zip(P, us)]
    # Legendre basis on the reference interval: sum w_i P_k(t_i) = (b-a) [k = 0]
    if n <= 40:      # exact midpoint and half width (the reference side adds no rounding of its own on intervals a few ulps wide)
        fm, fh = (fa + fb) / 2, (fb - fa) / 2
        ts = [float((Fraction(x) - fm) / fh) for x in xs]
    else:
        ts = [(x - xm) / hw for x in xs]
    p0 = [1.0] * n; p1 = list(ts)
    for k in range(1, kmax + 1):
        got = math.fsum(w * p for w, p in zip(ws, p1))
        slack = L * (Wn + (k + 1) * dt + (k + 1) ** 2 * EPS) + qn
        if not (abs(got) <= slack):
            out.append((f"{tag}:exact-legendre", f"n={n} [{a!r},{b!r}]: sum w_i P_{k}(t_i) = {got!r}, should vanish (slack {slack:.3g})")); break
        p0, p1 = p1, [((2 * k + 1) * t * q1 - k * q0) / (k + 1) for t, q1, q0 in zip(ts, p1, p0)]
    return out


def predicates(c, io):
    out = []
    t = c.line.split(); op = t[0]
    if io.startswith(("CRASH", "SANITIZER", "TIMEOUT", "HARNESSERR")): return out   # reported generically
    v = parse_vals(io)
    if op in ("rule", "rule_default", "pair"):
        n = int(t[1])
        a, b = (-1.0, 1.0) if op == "rule_default" else (float.fromhex(t[2]), float.fromhex(t[3]))
        if io.startswith("EXIT"): return [(f"{op}:exit", f"the rule of order {n} on [{a!r},{b!r}] terminated the process")]
        if op != "pair":
            if not v or len(v) != 1 + 2 * v[0]: return [(f"{op}:count", "malformed rule")]
            return _rule_predicates(op, n, a, b, v[1:1 + v[0]], v[1 + v[0]:])
        m = v[0]
        if len(v) != 2 * (1 + 2 * m) or v[1 + 2 * m] != m: return [("pair:count", "malformed rules")]
        x1, w1 = v[1:1 + m], v[1 + m:1 + 2 * m]; x2, w2 = v[2 + 2 * m:2 + 3 * m], v[2 + 3 * m:2 + 4 * m]
        out += _rule_predicates("pair", n, a, b, x1, w1)
        out += _rule_predicates("pair-reversed", n, b, a, x2, w2, full=False)
        if m == n and n >= 1:
            # node_i(b,a) = (a+b) - node_i(a,b); away from the middle row this is node_(n-1-i)(a,b) bit for bit (same z, hw -> -hw);
            # the middle row of an odd rule is xmid -/+ hw*z_mid with |z_mid| below the Newton tolerance
            r1, rw1 = x1[::-1], [-w for w in w1[::-1]]
            mid = n // 2 if n % 2 else -1
            bad = [i for i in range(n) if i != mid and (x2[i] != r1[i] or w2[i] != rw1[i])]
            e, q = _units(a, b)
            sc = lambda x: math.ldexp(x, -e)
            if mid >= 0 and (w2[mid] != rw1[mid] or not (abs((sc(x2[mid]) + sc(x1[mid])) - (sc(a) + sc(b))) <= 8 * EPS * max(abs(sc(a)), abs(sc(b))) + 4 * q + abs(sc(b) - sc(a)) * NEWTON)): bad.append(mid)
            if bad:
                out.append(("pair:mirror" + _region(a, b), f"n={n} [{a!r},{b!r}]: the rule with reversed limits is not the mirror image with negated weights (row {bad[0]}: {x2[bad[0]]!r}, {w2[bad[0]]!r} against {r1[bad[0]]!r}, {rw1[bad[0]]!r})"))
    elif op in ("int", "int_default"):
        if io.startswith("EXIT"): return [(f"{op}:exit", "integration terminated the process")]
        if op == "int":
            if len(v) != 3 or not (v[0] == v[1] == v[2] or all(isinstance(x, float) and math.isnan(x) for x in v)):
                out.append(("int:overloads-agree" + _region(float.fromhex(t[2]), float.fromhex(t[3])), f"n={t[1]} [{float.fromhex(t[2])!r},{float.fromhex(t[3])!r}]: the three overloads (func,a,b,n), (func,rule), (values,rule) return {v}"))
            co = c.info.get("poly")
            if co is not None and len(v) == 3 and isinstance(v[0], float) and not math.isnan(v[0]) and not math.isinf(v[0]):
                # the polynomial is sum co_k u^k in u = x/2^e with 1 <= max(|a|,|b|)/2^e < 2: everything below is in these units
                n = int(t[1]); a, b = float.fromhex(t[2]), float.fromhex(t[3]); e = c.info.get("e", 0)
                te = Fraction(2) ** e
                fa, fb = Fraction(a) / te, Fraction(b) / te
                M = float(max(abs(fa), abs(fb))); L = float(abs(fb - fa)); hw = 0.5 * L
                q = math.ldexp(1.0, -1074 - e) if e < -900 else 0.0
                ref = sum(Fraction(ck) * (fb ** (k + 1) - fa ** (k + 1)) / (k + 1) for k, ck in enumerate(co))
                if L > 0.0:
                    dt = NEWTON + 2 * EPS * M / hw + 2 * q / hw
                    # moment_checker_sound: |rule - integral| <= sum |c_k| delta_k, plus Horner evaluation and summation rounding
                    slack = sum(abs(ck) * M ** k * (L * (W(n) + k * dt * hw / M + (2 * len(co) + n + 2) * EPS) + (n + 2) * q) for k, ck in enumerate(co))
                    slack += (n + 2) * q      # each product value*weight is rounded to the quantum whatever the size of the value
                else: slack = 0.0
                if not (abs(Fraction(v[0]) / te - ref) <= Fraction(slack)):
                    out.append(("int:exact-polynomial" + _region(a, b), f"n={n} [{a!r},{b!r}] degree {len(co)-1} in x/2^{e}: the first overload gives {v[0]!r}, integral = {float(ref * te)!r} (slack {slack:.3g} * 2^{e})"))
            elif co is not None and len(v) == 3:
                a, b = float.fromhex(t[2]), float.fromhex(t[3])
                out.append(("int:exact-polynomial" + _region(a, b), f"[{a!r},{b!r}]: the integral of a polynomial with O(1) values is reported as {v[0]!r}"))
    elif op == "nest":
        levs, p = _rd_levels(t, 1); core, p = _rd_core(t, p)
        what = f"nested integration, depth {len(levs)} ({_describe([('*',) + tuple(levs[0][1:])] + levs[1:])})"
        if _core_guard(core):
            if not io.startswith("EXIT"):
                out.append(("nest:size-guard:reentrant", f"{what}: the integrand calls the value overload with {core['k']} values on a rule of {core['n']} rows and the call was accepted: {io[:80]}"))
            return out
        if io.startswith("EXIT"): return [("nest:exit", f"{what} terminated the process")]
        if len(v) != 3 or not (v[0] == v[1] == v[2] or all(isinstance(x, float) and math.isnan(x) for x in v)):
            out.append(("nest:overloads-agree", f"{what}: with the outermost level through (func,a,b,n), (func,rule), (values,rule) the results are {v}"))
        for k, nm in enumerate(("(func,a,b,n)", "(func,rule)", "(values,rule)")):
            if k < len(v):
                e = _nest_exact("nest", levs, core, v[k], f"{what}, outermost level through {nm}")
                if e: out += e; break
    elif op == "nestx":
        levs, p = _rd_levels(t, 1); core, p = _rd_core(t, p)
        what = f"nested integration, depth {len(levs)} ({_describe([('*' + levs[0][0][1:],) + tuple(levs[0][1:])] + levs[1:])})"
        if _core_guard(core):
            if not io.startswith("EXIT"):
                out.append(("nestx:size-guard:reentrant", f"{what}: the integrand calls the value overload with {core['k']} values on a rule of {core['n']} rows and the call was accepted: {io[:80]}"))
            return out
        if io.startswith("EXIT"): return [("nestx:exit", f"{what} terminated the process")]
        ans = []; p = 0
        while p < len(v):
            if v[p] == "A": ans.append(tuple(v[p:p + 2])); p += 2
            else: ans.append(v[p]); p += 1
        if len(ans) != 4: return [("nestx:count", f"{what}: {len(ans)} answers instead of 4: {io[:80]}")]
        same = lambda x, y: x == y or (isinstance(x, float) and isinstance(y, float) and math.isnan(x) and math.isnan(y))
        names = ("(func,a,b,n)", "(func,rule)", "(values,rule)", "(values,rule) at every level")
        bad = [k for k in range(3) if not same(ans[k], ans[3])]
        if bad:
            out.append(("nestx:overloads-agree", f"{what}; integrand {_core_text(c.line)[:200]}: the outermost level through {names[bad[0]]} gives {ans[bad[0]]!r}, "
                        f"the same rules and function values through (values,rule) at every level give {ans[3]!r} (all four: {ans})"))
        if core["kind"] != "T":
            if any(isinstance(x, tuple) for x in ans):
                out.append(("nestx:spurious-exception", f"{what}: the integrand never throws but an exception left the request: {ans}"))
            else:
                for k in range(4):
                    e = _nest_exact("nestx", levs, core, ans[k], f"{what}, outermost level through {names[k]}")
                    if e: out += e; break
    elif op == "sess":
        reqs = _rd_session(c.line)
        guard_at = next((i for i, q in enumerate(reqs) if (q["op"] == "V" and len(q["vals"]) != q["n"]) or (q["op"] == "N" and _core_guard(q["core"]))), None)
        if guard_at is not None:
            if not io.startswith("EXIT"):
                q = reqs[guard_at]
                ctx = "reentrant" if q["op"] == "N" else "plain"
                if any(r_["op"] == "X" for r_ in reqs[:guard_at]): ctx += "-after-abandoned-call"
                elif guard_at > 0: ctx += "-after-other-calls"
                out.append((f"sess:size-guard:{ctx}", f"request {guard_at + 1} of the session ({q['text'][:120]}) hands the value overload a number of values different from the number of rows and was accepted: {io[:80]}"))
            return out
        if io.startswith("EXIT"): return [("sess:exit", "a session of well-formed requests terminated the process")]
        p = 0; seen = {}; seenc = {}
        for i, q in enumerate(reqs):
            where = f"request {i + 1} of {len(reqs)}"
            if p >= len(v): out.append(("sess:count", f"{where}: no answer")); break
            if q["op"] == "R":
                m = v[p]
                if not isinstance(m, int) or p + 1 + 2 * m > len(v): out.append(("sess:count", f"{where}: malformed rule")); break
                ans = v[p:p + 1 + 2 * m]; p += 1 + 2 * m
                n, a, b = q["n"], q["a"], q["b"]
                full = n <= 16
                if max(abs(a), abs(b)) > 0 and abs(b - a) >= max(1e-12 * n * n, 4e-16) * max(abs(a), abs(b)):
                    out += [(sg, f"{where}: " + ms) for sg, ms in _rule_predicates("sess-rule", n, a, b, ans[1:1 + m], ans[1 + m:], full=full)]
            elif q["op"] in ("N", "X") and v[p] == "A":
                ans = v[p:p + 2]; p += 2
                plain = q["core"]["kind"] != "T" and not any(_catches(l) for l in q["levs"])
                if q["op"] == "N" and q["core"]["kind"] != "T":
                    out.append(("sess:abandon-count", f"{where}: the integrand never throws but an exception left the request after {ans[1]} evaluations"))
                elif q["op"] == "X" and plain and (ans[1] != q["at"] or q["at"] > _evals(q["levs"])):
                    out.append(("sess:abandon-count", f"{where}: the integrand abandons the request at its evaluation {q['at']} of {_evals(q['levs'])}; reported {ans[1]}"))
            else:
                ans = v[p:p + 1]; p += 1
                threw = q["op"] == "X" and q["at"] <= _evals(q["levs"])
                if threw and not any(_catches(l) for l in q["levs"]) and q["core"]["kind"] != "T":
                    out.append(("sess:abandon-count", f"{where}: the integrand throws at its evaluation {q['at']} of {_evals(q['levs'])} but the request returned {ans[0]!r}"))
                if q["op"] in ("N", "X"):
                    if not threw: out += _nest_exact("sess", q["levs"], q["core"], ans[0], f"{where}: {_describe(q['levs'])}")
                elif all(x == 1.0 for x in q["vals"]) and q["n"] >= 1 and isinstance(ans[0], float):
                    hl = 0.5 * q["b"] - 0.5 * q["a"]; n = q["n"]
                    if not (abs(0.5 * ans[0] - hl) <= abs(hl) * (W(n) + (n + 2) * 2 * EPS)):
                        out.append(("sess:sum", f"{where}: unit values on the rule n={n} [{q['a']!r},{q['b']!r}] give {ans[0]!r}, b-a = {q['b'] - q['a']!r}"))
            if q["op"] in ("N", "X"):
                # the same nested integration (orders, limits, handlers, integrand) through other overloads: the same answer
                if q["canon"] in seenc and seenc[q["canon"]][1] != ans and not any(isinstance(x, float) and math.isnan(x) for x in ans):
                    j0, a0 = seenc[q["canon"]]
                    out.append(("sess:overloads-agree", f"{where} ({_describe(q['levs'])}; integrand {q['canon'][3][:160]}) is request {j0 + 1} ({_describe(reqs[j0]['levs'])}) through other overloads "
                                f"and is answered {ans} against {a0}"))
                seenc.setdefault(q["canon"], (i, ans))
            if q["op"] != "X":
                if q["text"] in seen and seen[q["text"]][1] != ans and not any(isinstance(x, float) and math.isnan(x) for x in ans):
                    out.append(("sess:repeatable", f"{where} is request {seen[q['text']][0] + 1} again ({q['text'][:100]}) and is answered differently: {ans[:4]} against {seen[q['text']][1][:4]}"))
                seen.setdefault(q["text"], (i, ans))
        else:
            if p != len(v): out.append(("sess:count", f"{len(v) - p} surplus answer tokens"))
    elif op in ("values", "values_rows", "fun_rows"):
        pv = parse_vals(c.line)[1:]
        def rd_list(p):
            k = pv[p]; return pv[p + 1:p + 1 + k], p + 1 + k
        def rd_table(p):
            m = pv[p]; p += 1; rows = []
            for _ in range(m):
                r_, p = rd_list(p); rows.append(r_)
            return rows, p
        if op == "values":
            n = int(t[1]); k = int(t[4]); vals = [float.fromhex(x) for x in t[5:5 + k]]; badrow = False; rows = None
        elif op == "values_rows":
            vals, p = rd_list(0); rows, p = rd_table(p); n = len(rows); k = len(vals); badrow = any(len(r_) != 2 for r_ in rows)
        else:
            rows, p = rd_table(0); n = k = len(rows); badrow = any(len(r_) != 2 for r_ in rows)
            ft = c.line.split()[p + 1:]
            cv = float.fromhex(ft[1]) if ft[0] == "c" else (float.fromhex(ft[2]) if ft[0] == "/" else 0.0)
            fn = {"x": lambda x: x, "*": lambda x: x * x, "cos": math.cos, "c": lambda x: cv,
                  "log": lambda x: math.log(x) if x > 0.0 else (-math.inf if x == 0.0 else math.nan),
                  "/": lambda x: cv / x if x != 0.0 else math.copysign(math.inf, x) * cv}[ft[0]]
            vals = [fn(r_[0]) if len(r_) >= 1 else math.nan for r_ in rows]
        if k != n:
            if not io.startswith("EXIT"): out.append((f"{op}:size-guard", f"{k} function values against a rule of {n} rows were accepted: {io[:60]}"))
        elif badrow:
            if not io.startswith("EXIT"): out.append((f"{op}:row-guard", f"a table with a row that is not {{root, weight}} was accepted: {io[:60]}"))
        elif io.startswith("EXIT"): out.append((f"{op}:size-guard", f"matching sizes ({n}) and well-formed rows terminated the process"))
        elif rows is not None:
            prods = [x * r_[1] for x, r_ in zip(vals, rows)]
            seq = 0.0
            for pr in prods: seq += pr
            if not v or not isinstance(v[0], float): out.append((f"{op}:weighted-sum", f"no value returned: {io[:60]}"))
            elif any(math.isnan(pr) or math.isinf(pr) for pr in prods) or math.isinf(seq):
                # IEEE arithmetic on special values: a NaN product makes the sum NaN, infinities of one sign make it that infinity, of both signs NaN
                if not ((math.isnan(v[0]) and math.isnan(seq)) or v[0] == seq):
                    out.append((f"{op}:weighted-sum:special-values", f"values {vals} on weights {[r_[1] for r_ in rows]}: returned {v[0]!r}, the sum of the products v_i w_i in IEEE arithmetic is {seq!r}"))
            else:
                ref = math.fsum(prods); sc = math.fsum(abs(pr) for pr in prods)
                if not (abs(v[0] - ref) <= (n + 4) * 2 * EPS * sc): out.append((f"{op}:weighted-sum", f"returned {v[0]!r}, sum v_i w_i = {ref!r}"))
        elif any(math.isnan(x) for x in vals) and n >= 1:
            # a NaN sample times a weight is NaN and stays NaN in the sum
            if not (v and isinstance(v[0], float) and math.isnan(v[0])): out.append(("values:weighted-sum:special-values", f"n={n}: values {vals} contain NaN and the weighted sum is reported as {io[:40]}"))
        elif all(x == 1.0 for x in vals) and n >= 1:
            a, b = float.fromhex(t[2]), float.fromhex(t[3])
            # in halves, so that a length up to 2*DBL_MAX is not formed
            hv, hl = 0.5 * v[0], 0.5 * b - 0.5 * a
            rel = W(n) + (n + 2) * 2 * EPS
            if math.isinf(hv) and abs(hl) * (1 + rel) >= 0.5 * DBL_MAX and hv * hl > 0: pass      # b-a within rounding of DBL_MAX: the sum may round to inf
            elif not (abs(hv - hl) <= abs(hl) * rel + (n + 2) * SUBQ): out.append(("values:sum" + _region(a, b), f"n={n}: unit values on [{a!r},{b!r}] give {v[0]!r}, b-a = {b-a!r}"))
    return out
