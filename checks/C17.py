"""C17 — scalar special functions (Sign, StepFunction, Round, Relative_Difference, Floats_Equal, Dawson_Integral,
Erfi, Inv_Erf) and vector spherical harmonics."""
import cmath, glob, math, os, re, shutil, subprocess, sys, time
from concurrent.futures import ThreadPoolExecutor
from decimal import Decimal, getcontext
import vbuild, vcheck
from vcheck import Case, hx, flist, parse_vals, compare_lines

PID = "C17"
COQ = os.path.join(vbuild.VERIF, "coq")
EPS = 2.0 ** -53
RULE = ("non-trivial = scalar argument aimed at a branch (within a few ulp of |x| = 0.2, of a power of ten (for Round also 1e-16 .. 0.5 relative "
        "below / above every power of ten and within 2 ulp of every power of two of the 600 decades), of a change of the "
        "Dawson sampling index n0, of a rounding tie, p within 1e-6 of +-1, relative difference within a few ulp of the tolerance, "
        "zero arguments, both arguments among the first subnormals / smallest normal / largest doubles) or a guard (digits > 7, |p| >= 1, component outside 0..2), or a harmonic (l,m) with |m| >= l-1, or a "
        "direction on a pole / the equator / an axis, or a history in one process (scalar-harmonic requests with orders beyond the degree, repeats and mirrors over 1..3 directions; "
        "Dawson_Integral / Erfi requests across the static table; Round requests - scalar, Vector, Matrix - with changing digits and NaN / infinite / zero / subnormal arguments in between; "
        "vector-harmonic Y / Psi and scalar requests with NaN / infinite / huge angles in between and orders m = +-l, +-(l-1), l = 0), or p (Inv_Erf) / x (Dawson_Integral, Erfi) on a ladder of relative "
        "distances 1e-2 .. 1e-16 and 1 .. 1000 ulp on both sides of a round value (0.5, 0.9, 0.99, ..., 1 - 10^-k, 10^-k; multiples of 0.4), or a request aimed as above re-run under a directed rounding mode set by the caller; distinct by case text")
LEVEL_TEXT = ("Theorems (Coq): over the abstract order (no arithmetic law, valid for doubles) the translated Sign, Sign(x,y), StepFunction meet "
              "their case specifications; over R Floats_Equal is symmetric and reflexive (Relative_Difference(a,a) = 0, also at 0), Relative_Difference is symmetric, lies in [0,2] and "
              "vanishes exactly for equal arguments (C17_relative_difference_spec); Round meets "
              "round_spec (result = nearest multiple, half up in magnitude, of 10^(k-d+1) with 10^k <= |x| < 10^(k+1); within half a unit; odd; "
              "idempotent; monotone; 0 -> 0; digits > 7 exits); the Vector and Matrix overloads of Round (any length / shape, induction over the containers): they return l' exactly when every entry is "
              "the scalar Round of the corresponding entry (C17_round_containers_iff, any number type), never exit for digits <= 7 and exit for digits > 7 exactly when there is an entry "
              "(C17_round_containers_exit), and are odd, idempotent, within half a unit entry by entry and monotone entry by entry (C17_round_containers_odd/_idempotent/_half_unit, C17_round_vector_monotone). "
              "A history of Round requests in one process (scalar, Vector and Matrix requests as tables, any number type, so NaN / infinite / zero entries and any digits included): every answer is the pure "
              "function's answer to that request alone, whatever was requested before or after, and a history with digits <= 7 throughout never exits (C17_round_history_independent, C17_round_history_total; "
              "the history model is run against the library on generated histories with special values in between, bit-identical). "
              "Dawson_Integral's model is odd on both branches; on the WHOLE small-argument branch |x| < 0.2 its truncated series is within (16/945)|x|^9 <= 8.7e-9 < 2e-7 of Dawson's integral "
              "(C17_dawson_series_accuracy: all real x of the branch, from P' + 2xP = 1 - (16/105)x^8); on the same branch Erfi is within 1e-6 relatively of erfi for every real x (C17_erfi_series_accuracy); "
              "the static table c[NMAX] modelled as explicit state: after ANY history of Dawson_Integral / Erfi calls "
              "from ANY table every answer equals the pure function's, for any number type including doubles (C17_dawson_history_independent, C17_special_history_independent, C17_dawson_call_from_any_table; "
              "the stateful model is run against the library on generated histories, bit-identical). Erfi = 2/sqrt(pi) exp(x^2) Dawson(x) "
              "(= erfi(x) when Dawson is exact), |Inv_Erf(p) - erfinv(p)| <= 1e-4 from Find_Root's bracket guarantee (hypothesis, proved in C02) and strict "
              "monotonicity of erf (proved from its integral definition). For every l >= 0 and |m| <= l (not only l <= 12), from the coefficient tables "
              "translated from the current source on every run: each Psi coefficient is -l (l_hat = l+1) or l+1 (l_hat = l-1) times the Y coefficient; "
              "under the three classical recurrences of Y_lm (premises) the summation loop of Vector_Spherical_Harmonics_Y, including the terms it skips, equals "
              "rhat * Y_lm component-wise; under the classical gradient identity (premise) Psi = r grad Y_lm and is tangential; if the scalar harmonics satisfy Y_{l,-m} = (-1)^m conj(Y_{l,m}) (premise), "
              "both vector harmonics do, component by component (C17_vsh_conjugation, from the translated tables through the summation loops). T-tie, second part: Round, Dawson_Integral (static table as explicit state, both loops unrolled with the bound read from the source), Erfi and Inv_Erf (guards, lambda, bracket, accuracy handed to Find_Root) "
              "are regenerated from the source on every run (Gen_C17_More.v) and proved equal to the hand models round / dawson_st / erfi / erfi_st / inv_erf for every arithmetic obeying the literal laws and every table "
              "(C17_generated_round_dawson_erfi_inv_erf_are_model), so the Round clauses, Dawson's oddness / series accuracy / table independence and Inv_Erf's guards are also theorems about the generated terms "
              "(C17_generated_round_clauses, C17_generated_dawson_clauses, C17_generated_inv_erf_guards); the generated terms are extracted and run against the library too (`gen` cases, bit-identical). "
              "NOT theorems: Dawson's 2e-7 on the large-argument branch |x| >= 0.2 and "
              "Erfi's 1e-6 accuracy for all x, and Inv_Erf's 1e-4 on the doubles themselves (kernel-certified at sampled points by Coq-Interval against the integral "
              "definitions: |D - int_0^x exp(t^2-x^2)| <= 2e-7, |Erfi - erfi| <= 1e-6 |erfi|, erf(y-1e-4) < p < erf(y+1e-4): S3; and tested against an "
              "independent 50-digit reference, S4), conjugation symmetry of boost's Y_lm and that boost's Y_lm satisfies the recurrences (tested, S4; Spherical_Harmonics is a pass-through to boost: "
              "histories of requests in one process, orders beyond the degree included, are tested against an independent recurrence for Y_lm, S4 only, no model; the same for histories of Vector_Spherical_Harmonics_Y / _Psi requests with NaN / infinite / huge angles "
              "in between: each answer at a proper direction is judged against rhat Y_lm, tangentiality and the classical gradient coefficients times an independent Y_lm, S4 only; such histories also contain requests of degrees far beyond 12 "
              "(every order of a degree of a few thousand scanned, plus random ones), which boost abandons by throwing std::overflow_error from |m| = 1606 on: the harness catches, goes on in the same process and the next answers are judged, S4). "
              "Calls abandoned by an exception from the back end ARE modelled (back end = function into option, None = throws; the sums are locals, nothing survives the call): a call whose neighbour evaluations all answer returns exactly what the "
              "exception-free model returns, for any number type, table, degree and order (C17_vsh_call_refines_when_back_end_answers), a call in which a needed neighbour throws is abandoned as a whole (C17_vsh_call_abandoned_when_back_end_throws), and in a history of "
              "Y / Psi / scalar requests with answered and abandoned ones mixed every outcome is that of the request alone (C17_vsh_history_independent_with_throws; the history model is run against the library on generated histories that cross the "
              "throwing threshold, with the back end's answers and throws as its argument, outcome by outcome). Not a theorem: WHERE boost throws (found by scanning), "

              "floating-point behaviour of Round (tested in every decade and every binade of the 600 decades, d = 1..7), and everything under a directed rounding mode set by the caller "
              "(fesetround upward / downward / toward zero: the model's float instance rounds to nearest, so those runs are judged by the predicates only, with every rounding bound doubled and the "
              "exact symmetries x -> -x relaxed to that bound, which is what the unchanged library satisfies).")
LEVEL_NOTE = ("Coq 8.16.1 kernel; T-tie: tools/cxx2gallina.py regenerates coq/Gen_C17_Formulas.v and tools/cxx2gallina_C17.py (assignments as shadowing lets, counted loops unrolled, a static std::vector as explicit state, "
              "a lambda as a Gallina function) regenerates coq/Gen_C17_More.v from clang's AST of src/Special_Functions.cpp before the proofs are rebuilt; the tie lemmas of the second file carry the literal laws "
              "(nlit num den = num/den; proved for the reals, true of correctly rounded doubles) as a hypothesis; coverage/C17.md lists function by function what is generated, hand-modelled or only tested; "
              "C-tie: extraction (ExtrOcamlBasic only) run against the library; premises inside theorem statements: the three recurrences and the gradient identity of spherical harmonics, "
              "Find_Root's accuracy guarantee (C02); boost::math::spherical_harmonic, std::floor/log10/pow/exp/erf modelled by specification (same libm in the float instance); "
              "S3 uses Coq-Interval (primitive 63-bit integers through Bignums)")
TOL = (1e-12, 0.0)
TRUSTED = ["tools/cxx2gallina.py, tools/cxx2gallina_C17.py and clang 14's JSON AST (validated on every run by running the translated functions, Round / Dawson_Integral / Erfi / Inv_Erf included, against the library)",
           "boost::math::spherical_harmonic is trusted to be Y_lm (its recurrences/gradient identity are premises of the VSH theorems; tested in S4 for l <= 12)",
           "S3: Coq-Interval's `integral` tactic; the library's doubles enter as exact dyadic rationals IZR m * powerRZ 2 e",
           "S4 reference values: Python decimal (50 digits) power series of the integral of exp(t^2); bisection on math.erf/math.erfc for erfinv"]
ASSUMPTIONS = ["the caller's rounding direction (fesetround) is treated as process state inside the quantifier: the clauses are evaluated in all four modes (S4), the theorems are about exact real arithmetic",
               "Round's theorems are over R; in doubles Round(x,d) is within half a unit + 8 eps |x| and idempotent/monotone to 8 eps (checked in S4)",
               "Erfi's relative accuracy is only meaningful where exp(x^2) does not overflow (|x| < 26.64); beyond that the library returns +-inf"]


def regenerate():
    import cxx2gallina
    try:
        ch = cxx2gallina.regenerate_c17(vbuild.REPO, COQ)
    except cxx2gallina.Unsupported as e:
        raise RuntimeError(f"tools/cxx2gallina.py cannot translate src/Special_Functions.cpp: {e}")
    import cxx2gallina_C17
    try:
        ch2 = cxx2gallina_C17.regenerate_more(vbuild.REPO, COQ)
    except cxx2gallina.Unsupported as e:
        raise RuntimeError(f"tools/cxx2gallina_C17.py cannot translate Round / Dawson_Integral / Erfi / Inv_Erf of src/Special_Functions.cpp: {e}")
    return "; ".join(["Gen_C17_Formulas.v regenerated from the current source"] * bool(ch) + ["Gen_C17_More.v regenerated from the current source"] * bool(ch2))


# ---------------------------------------------------------------- generators
def ulps(x, n):
    for _ in range(abs(n)): x = math.nextafter(x, math.inf if n > 0 else -math.inf)
    return x


def around(x, k=2):
    return [ulps(x, j) for j in range(-k, k + 1)]


SPECIAL = [0.0, -0.0, 5e-324, -5e-324, 2.2250738585072014e-308, 1.0, -1.0, 0.2, -0.2, 1e-300, -1e300, 1.7976931348623157e308, -1.7976931348623157e308, 3.5, -7.25e-12]


def rand_decades(rng, lo=-300, hi=300):
    return rng.choice([-1, 1]) * rng.uniform(1, 10) * 10.0 ** rng.randint(lo, hi)


def round_edge(rng):
    """an argument next to a power of ten or a power of two anywhere in the 600 decades, at a relative distance 1e-16 .. 0.1 (or on it)"""
    c = float(f"1e{rng.randint(-300, 300)}") if rng.random() < 0.5 else math.ldexp(1.0, rng.randint(-997, 996))
    return rng.choice([1, -1]) * c * (1.0 + rng.choice([1, -0.5, 0]) * 10.0 ** -rng.uniform(1, 16))


def directions(rng, nrand):
    """(theta, phi, tag): poles, equator, axes, near-pole, random"""
    pi = math.pi
    d = [(0.0, 0.0, "pole"), (0.0, 1.3, "pole"), (pi, 0.0, "pole"), (pi, 2.1, "pole"),
         (pi / 2, 0.0, "axis"), (pi / 2, pi / 2, "axis"), (pi / 2, pi, "axis"), (pi / 2, 1.5 * pi, "axis"),
         (pi / 2, rng.uniform(0, 2 * pi), "equator"), (pi / 2, rng.uniform(0, 2 * pi), "equator"),
         (1e-7, rng.uniform(0, 2 * pi), "near-pole"), (pi - 1e-5, rng.uniform(0, 2 * pi), "near-pole")]
    for _ in range(nrand):
        d.append((math.acos(rng.uniform(-1, 1)), rng.uniform(0, 2 * pi), "random"))
    return d


def generate(rng, tier):
    big = tier != "quick"
    cs = []
    # ---- Sign, Sign(x,y), StepFunction, Relative_Difference, Floats_Equal
    xs = SPECIAL + [rand_decades(rng) for _ in range(300 if big else 40)]
    for x in xs:
        cs.append(Case(f"sign {hx(x)}", ("sign", "nt") if abs(x) <= 5e-324 else ("sign",)))
        cs.append(Case(f"step {hx(x)}", ("step", "nt") if abs(x) <= 5e-324 else ("step",)))
    for _ in range(3000 if big else 300):
        x, y = rng.choice(xs), rng.choice(xs)
        cs.append(Case(f"sign2 {hx(x)} {hx(y)}", ("sign2", "nt") if x == 0 or y == 0 else ("sign2",)))
    for _ in range(6000 if big else 600):
        r = rng.random()
        a = rng.choice(xs) if r < 0.5 else rng.choice([-1, 1]) * 10 ** rng.uniform(-150, 150)
        tol = rng.choice([1e-10, 1e-10, 1e-6, 1e-3, 0.5, 1e-15, 2.0 ** -30])
        k = rng.random(); tag = ()
        if k < 0.2: b = a; tag = ("nt",)
        elif k < 0.3: b = -a
        elif k < 0.6:
            # relative difference at the tolerance, a few ulp on either side
            b = a * (1.0 + tol * rng.choice([1, -1])); b = ulps(b, rng.randint(-3, 3)); tag = ("nt",)
        elif k < 0.7: b = a * (1.0 + tol * rng.uniform(0, 2))
        elif k < 0.8: b = rng.choice([0.0, -0.0]); tag = ("nt",)
        else: b = rng.choice(xs)
        if math.isinf(a - b) or math.isinf(b): b = a / 2
        cs.append(Case(f"reldiff {hx(a)} {hx(b)}", ("reldiff",) + tag))
        cs.append(Case(f"feq {hx(a)} {hx(b)} {hx(tol)}", ("feq",) + tag))
    # the bottom and the top of the range: the first subnormals, the smallest normal number and the largest doubles, crossed (with both signs and zero)
    edge = [0.0, 5e-324, 1e-323, 1.5e-323, 2e-323, 3.5e-323, ulps(2.2250738585072014e-308, -1), 2.2250738585072014e-308, ulps(2.2250738585072014e-308, 1),
            4.450147717014403e-308, 8.98846567431158e307, ulps(1.7976931348623157e308, -1), 1.7976931348623157e308]
    for a in edge:
        for b in edge:
            for sb in ((1, -1) if big else (rng.choice([1, -1]),)):
                if a == 0.0 and b == 0.0: continue
                a1, b1 = a * rng.choice([1, -1]), b * sb
                if math.isinf(a1 - b1): continue
                tol = rng.choice([1e-10, 1e-6, 0.5, 1e-15])
                cs.append(Case(f"reldiff {hx(a1)} {hx(b1)}", ("reldiff", "nt", "range-edge")))
                cs.append(Case(f"feq {hx(a1)} {hx(b1)} {hx(tol)}", ("feq", "nt", "range-edge")))
    for z1 in (0.0, -0.0):
        for z2 in (0.0, -0.0):
            cs.append(Case(f"reldiff {hx(z1)} {hx(z2)}", ("reldiff", "nt", "zero")))
            cs.append(Case(f"feq {hx(z1)} {hx(z2)} {hx(1e-10)}", ("feq", "nt", "zero")))
    # ---- Round: 600 decades, d = 1..7, powers of ten and their neighbours, ties, integers; guards
    def rnd(x, y, d, *tags): cs.append(Case(f"round {hx(x)} {hx(y)} {d}", ("round",) + tags))
    decs = range(-300, 301) if big else list(range(-300, 301, 7)) + [-1, 0, 1, 2, 3]
    for k in decs:
        p = float(f"1e{k}")
        for d in (range(1, 8) if big else [rng.randint(1, 7), rng.randint(1, 7)]):
            x = rng.uniform(1, 10) * p
            rnd(x, x * rng.uniform(1, 1.0 + 3 * 10.0 ** (-d)), d)
            rnd(-x, -x * rng.uniform(1 - 10.0 ** (-d), 1), d)
            x = ulps(p, rng.choice([-2, -1, -1, 0, 1]))         # 10^k (1 - 2^-53) and neighbours
            rnd(x, ulps(x, rng.randint(0, 3)), d, "nt", "power-of-ten")
            # just below a power of ten in the d-th digit: 9.99..95 x 10^(k-1) (rounds up into the next decade)
            x = p * (1.0 - rng.choice([0.5, 0.49, 0.51, 0.3]) * 10.0 ** (-d))
            rnd(x, p, d, "nt", "below-power")
            # a tie in the d-th digit
            n = rng.randint(10 ** (d - 1), 10 ** d - 1)
            x = (n + 0.5) * 10.0 ** (k - d + 1) if abs(k - d + 1) < 300 else p
            rnd(ulps(x, rng.randint(-2, 2)), ulps(x, 3), d, "nt", "tie")
    # ---- Round, EVERY decade (also in the quick tier): below / above the power of ten on a geometric ladder of distances
    #      (1 .. 1000 units of the d-th digit, and 1e-16 .. 0.5 relative independent of d), random mantissas in between
    lad = lambda lo, hi: 10.0 ** -rng.uniform(lo, hi)
    for k in range(-300, 301):
        p = float(f"1e{k}")
        for d in (range(1, 8) if big else rng.sample(range(1, 8), 2)):
            u = 10.0 ** (-d)
            delta = min(0.5, rng.uniform(0.3, 30) * 10.0 ** rng.randint(0, 2) * u)        # a few .. a few thousand units of the d-th digit below 10^k
            x = p * (1.0 - delta)
            rnd(x, x * (1.0 + rng.uniform(0, 3) * u), d, "nt", "below-power-ladder")
            x = p * (1.0 - lad(0.3, 16))
            rnd(x, rng.choice([p, x * (1.0 + rng.uniform(0, 3) * u)]), d, "nt", "below-power-ladder")
            x = p * (1.0 + lad(0.3, 16))
            rnd(rng.choice([p, x * (1.0 - rng.uniform(0, 1) * u)]), x, d, "nt", "above-power-ladder")
    # ---- Round, EVERY binade inside the 600 decades (2^-997 .. 2^996): the power of two and its neighbours, arguments just above / below
    #      it on the same geometric ladder, and a random mantissa (decimal exponent and binary exponent are related only through log10(2))
    for e2 in range(-997, 997):
        b = math.ldexp(1.0, e2)
        for d in (range(1, 8) if big else rng.sample(range(1, 8), 2)):
            u = 10.0 ** (-d)
            x = ulps(b, rng.choice([0, 0, 1, 2, -1, -2]))
            rnd(x, x * (1.0 + rng.uniform(0, 3) * u), d, "nt", "power-of-two")
            x = b * (1.0 + rng.choice([1, 1, -0.5]) * lad(1, 16))
            rnd(x, x * (1.0 + rng.uniform(0, 3) * u), d, "binade-edge")
            if big:
                x = b * rng.uniform(1, 2) * rng.choice([1, -1])
                rnd(x, x + abs(x) * rng.uniform(0, 3) * u, d, "binade")
    for _ in range(2000 if big else 200):
        d = rng.randint(1, 7); x = float(rng.randint(-10 ** 7, 10 ** 7)); y = x + rng.randint(0, 1000)
        rnd(x, y, d, "integer")
        x = rand_decades(rng); y = rand_decades(rng)
        if x > y: x, y = y, x
        rnd(x, y, d, "pair")
    for d in (1, 4, 7, 8, 9, 100, 4294967295):
        rnd(0.0, 0.0, d, "nt", "zero"); rnd(-0.0, 1.0, d, "nt", "zero")
        rnd(123.456, 123.5, d, "nt", "guard" if d > 7 else "digits")
    rnd(2.5, 3.0, 0, "digits0")          # outside the quantifier; correspondence only
    for _ in range(600 if big else 60):
        d = rng.choice([1, 2, 3, 4, 5, 6, 7, 7, 8, 12])
        el = lambda: rng.choice([0.0, rand_decades(rng, -30, 30), rand_decades(rng, -30, 30), rand_decades(rng), round_edge(rng), round_edge(rng)])
        v = [el() for _ in range(rng.randint(0, 6))]
        cs.append(Case(f"roundv {d} {flist(v)}", ("roundv",) + (("nt",) if d > 7 else ())))
        rows, cols = rng.randint(1, 4), rng.randint(1, 4)
        t = [[el() for _ in range(cols)] for _ in range(rows)]
        cs.append(Case(f"roundm {d} {rows} " + " ".join(flist(r) for r in t), ("roundm",) + (("nt",) if d > 7 else ())))
    # ---- Dawson, Erfi: |x| <= 30, both sides of 0.2, of every change of n0 (|x| = 0.4, 1.2, 2.0, ...), tiny, zero
    def de(x, *tags):
        cs.append(Case(f"dawson {hx(x)}", ("dawson",) + tags)); cs.append(Case(f"erfi {hx(x)}", ("erfi",) + tags))
    for x in around(0.2, 3) + around(-0.2, 3): de(x, "nt", "switch")
    for j in range(0, 38):
        b = 0.8 * (j + 0.5)
        if b <= 30:
            for x in around(b, 1): de(x * rng.choice([1, -1]), "nt", "n0-change")
    for x in [0.0, -0.0, 5e-324, 1e-300, -1e-160, 1e-8, 0.1, 0.19, 0.21, 0.924, 1.0, 30.0, -30.0, 26.0, 26.64, 26.65, 26.7, -26.68, 27.0]: de(x, "special")
    for _ in range(6000 if big else 500):
        r = rng.random()
        if r < 0.25: x = rng.uniform(-0.4, 0.4)
        elif r < 0.5: x = rng.uniform(-3, 3)
        elif r < 0.9: x = rng.uniform(-30, 30)
        else: x = rng.choice([-1, 1]) * 10 ** rng.uniform(-20, -1)
        de(x)
    # every binade of 0 < |x| <= 30 (subnormals included), random mantissa and the power of two itself
    for e2 in range(-1074, 5):
        for _ in range(4 if big else 1):
            x = math.ldexp(rng.choice([1.0, rng.uniform(1, 2), rng.uniform(1, 2)]), e2) * rng.choice([1, -1])
            if abs(x) <= 30: de(x, "binade")
    # ---- Inv_Erf: (-1,1) up to 1 - 1e-12 (and closer, down to the last double below 1); guards
    ps = [0.0, -0.0, 0.5, -0.5, 1e-300, 1e-17, -1e-9, 0.999, -0.999]
    for k in range(1, 16): ps += [1 - 10.0 ** -k, -(1 - 10.0 ** -k)]
    for p in ps + around(1.0, 2)[:2] + [ulps(-1.0, 1), ulps(-1.0, 2)]:
        cs.append(Case(f"inverf {hx(p)}", ("inverf", "nt") if abs(p) > 1 - 1e-6 else ("inverf",)))
    for p in [1.0, -1.0, ulps(1.0, 1), 1.5, -2.0, 1e300, ulps(-1.0, -1)]:
        cs.append(Case(f"inverf {hx(p)}", ("inverf", "nt", "guard")))
    for _ in range(3000 if big else 300):
        r = rng.random()
        p = rng.uniform(-1, 1) if r < 0.6 else rng.choice([-1, 1]) * (1 - 10 ** rng.uniform(-12, -1)) if r < 0.9 else rng.choice([-1, 1]) * 10 ** rng.uniform(-18, -1)
        cs.append(Case(f"inverf {hx(p)}", ("inverf",)))
    # every binade of |p| (2^-70 .. 1/2) and of 1 - |p| (down to 2^-52; the property's range ends at 1e-12 ~ 2^-40), random mantissas
    for e2 in range(-70, 0):
        for _ in range(16 if big else 4):
            p = math.ldexp(rng.choice([1.0, rng.uniform(1, 2), rng.uniform(1, 2), rng.uniform(1, 2)]), e2) * rng.choice([1, -1])
            if abs(p) < 1: cs.append(Case(f"inverf {hx(p)}", ("inverf", "binade")))
    for e2 in range(-52, -1):
        for _ in range(8 if big else 2):
            p = (1.0 - math.ldexp(rng.uniform(1, 2), e2)) * rng.choice([1, -1])
            cs.append(Case(f"inverf {hx(p)}", ("inverf", "binade", "nt") if abs(p) > 1 - 1e-6 else ("inverf", "binade")))
    # ---- coefficient tables: every (component, l, m, l_hat, m_hat) in a box (also outside |m| <= l and the selection rules)
    lmax = 13 if big else 6
    for fn in ("ycomp", "psicomp"):
        for l in range(0, lmax + 1):
            for m in range(-l - 1, l + 2):
                for lh in range(l - 2, l + 3):
                    for mh in range(m - 2, m + 3):
                        inner = lh in (l - 1, l + 1) and mh in (m - 1, m, m + 1)
                        if not big and not inner and rng.random() < 0.8: continue
                        for c in (0, 1, 2):
                            cs.append(Case(f"{fn} {c} {l} {m} {lh} {mh}", (fn, "nt") if (inner and abs(m) >= l - 1) else (fn,)))
        for l in ([7, 12, 13, 40, 1000, 46340] if not big else [20, 40, 100, 1000, 20000, 46340]):
            for m in (-l, -l + 1, -1, 0, 1, l - 1, l):
                for lh in (l - 1, l + 1):
                    for mh in (m - 1, m, m + 1):
                        for c in (0, 1, 2): cs.append(Case(f"{fn} {c} {l} {m} {lh} {mh}", (fn, "nt") if abs(m) >= l - 1 else (fn,)))
        for c in (-1, 3, 7): cs.append(Case(f"{fn} {c} 2 1 3 1", (fn, "nt", "guard")))
    # ---- the vector harmonics: all (l,m), l <= 12, x special and random directions
    for l in range(0, 13):
        for m in range(-l, l + 1):
            for th, ph, tag in directions(rng, 12 if big else 3):
                cs.append(Case(f"vsh {l} {m} {hx(th)} {hx(ph)}", ("vsh", tag) + (("nt",) if (abs(m) >= l - 1 or tag != "random") else ())))
    cs += histories(rng, big)
    # ---- histories of Dawson_Integral / Erfi requests in one process (the static table c[NMAX]): small and large arguments interleaved,
    #      repeats, mirrored arguments, larger-then-smaller; the model threads the table through as explicit state
    for _ in range(2000 if big else 200):
        n = rng.randint(1, 12); pool = [rng.choice([rng.uniform(-0.2, 0.2), rng.uniform(-3, 3), rng.uniform(-26, 26), rng.choice(around(0.2, 2)), 10 ** rng.uniform(-300, -1)]) for _ in range(4)]
        reqs = []
        for _ in range(n):
            x = rng.choice(pool) * rng.choice([1, 1, -1])
            reqs.append((rng.randint(0, 1), x))
        cs.append(Case(f"spechist {n} " + " ".join(f"{k} {hx(x)}" for k, x in reqs), ("spechist", "nt")))
    cs += round_histories(rng, big)
    cs += vsh_histories(rng, big)
    cs += branch_ladders(rng, big)
    cs += rounding_modes(rng, big, cs)
    cs += generated_terms(rng, big, cs)
    return cs


def generated_terms(rng, big, cs):
    """gen <case>: requests of Round / Dawson_Integral / Erfi / Inv_Erf and Dawson / Erfi histories drawn from the cases generated so far, answered on the
    model side by the terms regenerated from the C++ source on this run (Gen_C17_More.v) instead of the hand model"""
    out = []; by_op = {}
    for c in cs: by_op.setdefault(c.line.split()[0], []).append(c)
    for op, n in {"round": 600, "dawson": 300, "erfi": 300, "inverf": 150, "spechist": 60}.items():
        pool = by_op.get(op, [])
        for c in rng.sample(pool, min(len(pool), n * (10 if big else 1))):
            out.append(Case("gen " + c.line, ("gen",) + tuple(c.tags), c.tol))
    return out


NONREAL = [math.nan, math.inf, -math.inf]
# arguments outside the property's quantifier for Round (not real, or outside the 600 decades) and the two zeros: their own answers are not judged
# (zeros are), the answers to the requests after them are
ROUND_SPECIAL = NONREAL + [0.0, -0.0, 5e-324, -5e-324, 1e-310, 2.2250738585072014e-308, 1.7976931348623157e308, -1.7976931348623157e308]


def round_judged(x):
    return x == 0 or (math.isfinite(x) and 1e-300 <= abs(x) <= 1e300)


def round_histories(rng, big):
    """roundhist: histories of Round requests in ONE process - scalar, Vector and Matrix requests interleaved, digits changing and repeating
    (larger-then-smaller, the same again), arguments repeated, and requests whose arguments are NaN / +-inf / +-0 / subnormal / the largest doubles
    (as the scalar argument or as an entry of a container) in between; every answer with a real argument in the 600 decades is judged"""
    cs = []
    def real():
        r = rng.random()
        if r < 0.3: return rng.choice([math.pi, -math.e * 100, 1234.56789, 0.000123456789, 98765.4321, -0.999999, 5.55555555, 1.0, 1e10 / 3])
        if r < 0.6: return rand_decades(rng, -30, 30)
        if r < 0.8: return rand_decades(rng)
        return round_edge(rng)
    def payload(kind, el):
        if kind == 0: return hx(el())
        if kind == 1: return flist([el() for _ in range(rng.randint(0, 5))])
        rows, cols = rng.randint(1, 3), rng.randint(1, 3)
        return f"{rows} " + " ".join(flist([el() for _ in range(cols)]) for _ in range(rows))
    def case(reqs, *tags):
        cs.append(Case(f"roundhist {len(reqs)} " + " ".join(f"{k} {d} {p}" for k, d, p in reqs), ("roundhist", "nt") + tags))
    # 1. systematic: (real request, digits d1) (request with a special value, digits d2) (real requests, digits d2, d1), for every special value,
    #    the special value as the scalar argument, as the first / a middle / the last entry of a Vector, as an entry of a Matrix
    for s in ROUND_SPECIAL:
        for shape in range(5):
            for _ in range(4 if big else 1):
                d1 = rng.randint(1, 7); d2 = rng.choice([d for d in range(1, 8) if d != d1] + [d1])
                if shape == 0: sp = (0, d2, hx(s))
                elif shape == 1: sp = (1, d2, flist([s] + [real() for _ in range(rng.randint(0, 3))]))
                elif shape == 2: sp = (1, d2, flist([real(), s, real()]))
                elif shape == 3: sp = (1, d2, flist([real() for _ in range(rng.randint(1, 3))] + [s]))
                else: sp = (2, d2, "2 " + flist([real(), s]) + " " + flist([real(), real()]))
                k1, k2, k3 = (rng.randint(0, 2) for _ in range(3))
                case([(k1, d1, payload(k1, real)), sp, (k2, d2, payload(k2, real)), (k3, d1, payload(k3, real)), (0, d2, hx(real()))], "special-then-real")
    # 2. random histories over a small pool of digits and arguments (repeats are frequent), a quarter of the entries special
    for _ in range(3000 if big else 250):
        dpool = [rng.randint(1, 7) for _ in range(rng.randint(1, 3))]
        apool = [real() for _ in range(4)]
        pspec = rng.choice([0.0, 0.1, 0.3])
        el = lambda: rng.choice(ROUND_SPECIAL) if rng.random() < pspec else rng.choice(apool) * rng.choice([1, 1, -1]) if rng.random() < 0.6 else real()
        reqs = []
        for _ in range(rng.randint(2, 10)):
            k = rng.choice([0, 0, 0, 1, 1, 2]); reqs.append((k, rng.choice(dpool), payload(k, el)))
        case(reqs, "random")
    # 3. a guard after a history: digits > 7 ends the process whatever came before
    for _ in range(20 if big else 4):
        d = rng.randint(1, 7)
        case([(0, d, hx(real())), (1, d, flist([real(), rng.choice(ROUND_SPECIAL)])), (0, rng.choice([8, 9, 100]), hx(real()))], "guard")
    return cs


ANGLE_SPECIAL = [math.nan, math.inf, -math.inf, 1e300, -1e300, 1.7976931348623157e308]


def dir_judged(th, ph):
    return math.isfinite(th) and math.isfinite(ph) and 0.0 <= th <= 3.1415926535897936 and abs(ph) <= 7.0


def vsh_histories(rng, big):
    """vshhist: histories of vector-harmonic (Y, Psi) and scalar-harmonic requests in ONE process over 1..4 directions, some of which are not
    directions at all (a NaN / infinite / astronomically large angle: those answers are not judged) or lie exactly on a pole / carry a -0.0 or
    subnormal angle (judged); orders m = +-l, +-(l-1), 0, interior; l = 0; repeats, mirrored orders, degree neighbours; every answer at a
    proper direction is judged against an independent Y_lm"""
    cs = []
    def lm(edge=None):
        l = rng.randint(0, 12) if rng.random() < 0.8 else rng.choice([0, 1, 2, 12])
        r = rng.random() if edge is None else (0.0 if edge else 0.9)
        if r < 0.25: m = rng.choice([-l, l])
        elif r < 0.5: m = rng.choice([-1, 1]) * max(l - 1, 0)
        elif r < 0.6: m = 0
        else: m = rng.randint(-max(l - 2, 0), max(l - 2, 0))
        return l, m
    def case(dirs, reqs, *tags):
        cs.append(Case(f"vshhist {len(dirs)} " + " ".join(f"{hx(t)} {hx(p)}" for t, p in dirs) + f" {len(reqs)} " + " ".join(f"{k} {l} {m} {d}" for k, l, m, d in reqs),
                       ("vshhist", "nt") + tags))
    def good():
        t, p, _ = rng.choice(directions(rng, 6))
        if rng.random() < 0.15:
            t = rng.choice([0.0, -0.0, 5e-324, 1e-310, 1e-160, t]); p = rng.choice([0.0, -0.0, 5e-324, -5e-324, p])
        return (t, p)
    def bad():
        r = rng.random(); s = rng.choice(ANGLE_SPECIAL)
        g = good()
        return (s, g[1]) if r < 0.45 else (g[0], s) if r < 0.8 else (s, rng.choice(ANGLE_SPECIAL))
    # 1. systematic: for each kind of request, a request at a non-direction followed by requests at a proper direction
    for s_th in (True, False):
        for s in ANGLE_SPECIAL:
            for kind in (0, 1, 2):
                for _ in range(6 if big else 2):
                    g = good(); b = (s, g[1]) if s_th else (g[0], s)
                    l0, m0 = lm(); l1, m1 = lm(edge=False)
                    reqs = [(rng.choice([0, 1, 2]), l0, m0, 0), (kind, l1, m1, 1)]
                    for _ in range(rng.randint(2, 5)):
                        l, m = lm(edge=rng.random() < 0.7); reqs.append((rng.choice([kind, kind, 0, 1, 2]), l, m, 0))
                    case([g, b], reqs, "special-then-proper")
    # 2. random histories
    for _ in range(1500 if big else 120):
        nd = rng.randint(1, 4); pbad = rng.choice([0.0, 0.25, 0.5])
        dirs = [bad() if (rng.random() < pbad and i > 0) else good() for i in range(nd)]
        reqs = []
        for _ in range(rng.randint(2, 14)):
            r = rng.random()
            if reqs and r < 0.15: k, l, m, d = rng.choice(reqs); m = -m
            elif reqs and r < 0.3: k, l, m, d = rng.choice(reqs); d = rng.randrange(nd)
            elif reqs and r < 0.4:
                k, l0, m0, d = rng.choice(reqs); l = min(12, max(0, l0 + rng.choice([-1, 1]))); m = max(-l, min(l, m0 + rng.choice([-1, 0, 1])))
            else:
                l, m = lm(); k = rng.choice([0, 0, 1, 2]); d = rng.randrange(nd)
            reqs.append((rng.choice([k, 0, 1, 2]) if rng.random() < 0.3 else k, l, m, d))
        case(dirs, reqs, "random")
    # 3. requests far beyond the judged degrees (l up to thousands) in between: legal requests of the same process which the scalar-harmonic back
    #    end may abandon by throwing (it reports an overflow that way at very high orders; where that starts is the back end's business, so the
    #    orders are SCANNED: every order -L..L of a high degree L, so that a call is broken off at each of its neighbour evaluations in turn),
    #    the caller catches and goes on; each such request is followed at once by a judged request of the same kind (and sometimes another)
    def probe():
        l = rng.choice([0, 1, 1, 2, 2, 3, 4, 12]) if rng.random() < 0.85 else rng.randint(0, 12)
        r = rng.random()
        m = rng.choice([-l, l]) if r < 0.4 else rng.choice([-1, 1]) * max(l - 1, 0) if r < 0.6 else rng.randint(-l, l)
        return l, m
    L = rng.choice([1700, 1800, 2000, 2400]) if not big else rng.choice([1700, 2500, 3000, 4000])
    chunk = 150
    for kind in (0, 1, 2):
        orders = list(range(-L - 1, L + 2))
        for c0 in range(0, len(orders), chunk):
            # two directions per chunk: a generic one (away from the poles, where harmonics of high order do not vanish) and a drawn one (poles, axes,
            # equator, subnormal angles included); every order is requested at both
            dirs = [(math.acos(rng.uniform(-0.9, 0.9)), rng.uniform(-3.1, 3.1)), good()]; reqs = []
            for m in orders[c0:c0 + chunk]:
                for d in (0, 1):
                    reqs.append((kind, L, m, d))
                    l, mm = probe(); reqs.append((kind, l, mm, rng.choice([d, d, 1 - d])))
                    if rng.random() < 0.15: l, mm = probe(); reqs.append((rng.choice([0, 1, 2]), l, mm, rng.randrange(2)))
            case(dirs, reqs, "high-degree-scan")
    # random high degrees and orders (log-uniform degree 13 .. 6000, orders at the ends, in the middle, beyond the degree), mixed kinds and directions
    for _ in range(400 if big else 40):
        nd = rng.randint(1, 3); dirs = [good() for _ in range(nd)]; reqs = []
        for _ in range(rng.randint(3, 10)):
            Lh = int(round(13 * (6000 / 13) ** rng.random())); r = rng.random()
            mh = rng.choice([-1, 1]) * (Lh - rng.randint(0, 3)) if r < 0.4 else rng.randint(-Lh, Lh) if r < 0.8 else rng.choice([-1, 1]) * (Lh + rng.randint(1, 3))
            k = rng.choice([0, 1, 2]); d = rng.randrange(nd)
            reqs.append((k, Lh, mh, d))
            for _ in range(rng.randint(1, 2)):
                l, mm = probe(); reqs.append((k if rng.random() < 0.7 else rng.choice([0, 1, 2]), l, mm, rng.randrange(nd)))
        case(dirs, reqs, "high-degree-random")
    return cs


BRANCH_POINTS_P = [0.5, 0.25, 0.75, 0.1, 0.2, 0.3, 0.4, 0.6, 0.7, 0.8, 0.9, 0.95, 0.975, 0.99, 0.995, 0.999, 0.9995, 0.9999, 0.99999, 0.999999,
                   1 - 1e-7, 1 - 1e-8, 1 - 1e-9, 1 - 1e-10, 1 - 1e-11, 1 - 1e-12, 0.01, 0.001, 1e-4, 1e-5, 1e-6, 1e-8, 1e-10, 1e-16, 0.0625, 0.125, 0.875, 0.9375,
                   0.8427007929497149, 0.9953222650189527, 0.5204998778130465]       # (erf(1), erf(2), erf(1/2): round values of the answer)
BRANCH_POINTS_X = [0.1, 0.2, 0.25, 0.3, 0.4, 0.5, 0.8, 1.0, 1.2, 1.5, 2.0, 2.5, 3.0, 4.0, 5.0, 6.0, 8.0, 10.0, 12.0, 15.0, 20.0, 25.0, 26.0, 30.0, 0.01, 0.001, 1e-4, 1e-8]


def ladder_points(rng, c, n, lo=1.5, hi=16.0):
    """n points on either side of c on a geometric ladder of relative distances 10^-lo .. 10^-hi, a few at +-1 .. +-1000 ulp, and c itself"""
    out = [c]
    for j in range(n):
        u = lo + (hi - lo) * (j + rng.random()) / n
        out.append(c * (1.0 + rng.choice([1, 1, -1]) * 10.0 ** -u))
    for k in (1, 2, rng.randint(3, 10), rng.randint(11, 100), rng.randint(101, 1000)):
        out.append(ulps(c, k * rng.choice([1, -1])))
    return out


def branch_ladders(rng, big):
    """arguments in narrow windows next to round values where an implementation may switch branch: Inv_Erf with p around 0.5, 0.9, 0.99, 0.999, ...,
    1 - 10^-k, 10^-k; Dawson_Integral / Erfi with x around 0.2, the multiples of H = 0.4 and round arguments - a ladder of relative distances
    1e-2 .. 1e-16 on both sides, both signs"""
    cs = []
    for c in BRANCH_POINTS_P:
        for p in ladder_points(rng, c, 24 if big else 8):
            if not abs(p) < 1: continue
            p *= rng.choice([1, -1])
            cs.append(Case(f"inverf {hx(p)}", ("inverf", "nt", "branch-ladder")))
            if big: cs.append(Case(f"inverf {hx(-p)}", ("inverf", "nt", "branch-ladder")))
    pts = BRANCH_POINTS_X + [0.4 * k for k in range(2, 40, (1 if big else 5))]
    for c in pts:
        for x in ladder_points(rng, c, 12 if big else 3):
            if abs(x) > 30: continue
            x *= rng.choice([1, -1])
            cs.append(Case(f"dawson {hx(x)}", ("dawson", "nt", "branch-ladder"))); cs.append(Case(f"erfi {hx(x)}", ("erfi", "nt", "branch-ladder")))
    return cs


def histories(rng, big):
    """yhist: histories of scalar-harmonic requests in ONE process over 1..3 directions (bit-identical repeats of a direction), with orders
    beyond the degree (|m| > l: the answer is 0 by definition), degrees beyond 12, repeated and mirrored (l, -m) requests, rectangular
    tabulations in both loop orders; each answer is judged on its own, then the vector harmonics of an in-range (L, M) are requested"""
    cs = []
    def case(dirs, reqs, L, M, di, *tags):
        cs.append(Case(f"yhist {len(dirs)} " + " ".join(f"{hx(t)} {hx(p)}" for t, p in dirs) + f" {len(reqs)} " + " ".join(f"{l} {m} {d}" for l, m, d in reqs) + f" {L} {M} {di}",
                       ("yhist", "nt") + tags))
    def some_dirs(n):
        d = directions(rng, 6)
        return [(t, p) for t, p, _ in rng.sample(d, n)]
    def final(lmax=12):
        L = rng.randint(0, lmax); return L, rng.choice([-L, L, 0, rng.randint(-L, L), rng.randint(-L, L)])
    # rectangular tabulations l <= Lx, |m| <= Mx (a table filled without regard to |m| <= l), degree-major and order-major
    for _ in range(12 if big else 3):
        Lx, Mx = rng.randint(8, 20), rng.randint(8, 30)
        for order in (0, 1):
            dirs = some_dirs(1)
            reqs = [(l, m, 0) for l in range(Lx + 1) for m in range(-Mx, Mx + 1)] if order == 0 else [(l, m, 0) for m in range(-Mx, Mx + 1) for l in range(Lx + 1)]
            if rng.random() < 0.5: reqs.reverse()
            L, M = final()
            case(dirs, reqs, L, M, 0, "tabulation")
    # triangular tabulations (in-range only), twice over, and interleaved over two directions
    for _ in range(6 if big else 2):
        Lx = rng.randint(3, 16); dirs = some_dirs(2)
        tri = [(l, m) for l in range(Lx + 1) for m in range(-l, l + 1)]
        reqs = [(l, m, 0) for l, m in tri] + [(l, m, rng.randint(0, 1)) for l, m in tri] + [(l, m, 0) for l, m in reversed(tri)]
        L, M = final(); case(dirs, reqs, L, M, rng.randint(0, 1), "triangle")
    # random histories: a pool of a few degrees and orders (so that repeats, mirrors and neighbours are frequent), orders far outside the degree
    for _ in range(1500 if big else 150):
        nd = rng.choice([1, 1, 2, 3]); dirs = some_dirs(nd)
        k = rng.randint(1, 40)
        lpool = [rng.randint(0, 12) for _ in range(3)] + [rng.randint(0, 24)]
        reqs = []
        for _ in range(k):
            r = rng.random(); l = rng.choice(lpool)
            if reqs and r < 0.15: l, m, _d = rng.choice(reqs); m = -m                     # the mirrored order
            elif reqs and r < 0.25: l, m, _d = rng.choice(reqs)                           # a repeat
            elif reqs and r < 0.35: l0, m0, _d = rng.choice(reqs); l = max(0, l0 + rng.choice([-1, 1])); m = m0 + rng.choice([-1, 0, 1])
            elif r < 0.6: m = rng.randint(-l, l)
            elif r < 0.8: m = rng.choice([-1, 1]) * (l + rng.randint(1, 40))             # beyond the degree
            else: m = rng.randint(-45, 45)
            reqs.append((l, m, rng.randrange(nd)))
        # the final request: often the degree-neighbour of an earlier request with the order shifted by a table width (2 l' + 1 of some l')
        L, M = final()
        if rng.random() < 0.5:
            l0, m0, _d = rng.choice(reqs); w = 2 * rng.randint(max(l0, 1), max(l0, 1) + 8) + 1
            for dl, dm in ((1, -w), (-1, w), (1, w), (-1, -w), (0, w), (0, -w)):
                if 0 <= l0 + dl <= 12 and abs(m0 + dm) <= l0 + dl: L, M = l0 + dl, m0 + dm; break
        case(dirs, reqs, L, M, rng.randrange(nd), "random")
    return cs


FE_NAMES = {0: "to-nearest", 1: "upward", 2: "downward", 3: "toward-zero"}


def rounding_modes(rng, big, cs):
    """fe <mode> <case>: requests of every operation re-run with the caller's rounding direction set to upward / downward / toward zero
    (ambient process state); drawn from the cases generated so far, plus plain Round requests with random mantissas in every mode"""
    out = []
    by_op = {}
    for c in cs: by_op.setdefault(c.line.split()[0], []).append(c)
    quota = {"round": 400, "roundv": 40, "roundm": 40, "dawson": 150, "erfi": 150, "inverf": 60, "reldiff": 100, "feq": 100, "sign": 20, "sign2": 40, "step": 20,
             "ycomp": 60, "psicomp": 60, "vsh": 120, "yhist": 12, "spechist": 30, "roundhist": 40, "vshhist": 12}
    for op, n in quota.items():
        pool = by_op.get(op, [])
        if not pool: continue
        for c in rng.sample(pool, min(len(pool), n * (10 if big else 1))):
            mode = rng.choice([1, 2, 3])
            out.append(Case(f"fe {mode} {c.line}", ("fe", FE_NAMES[mode], op) + (("nt",) if "nt" in c.tags else ()), c.tol))
    for c in rng.sample(cs, 40): out.append(Case(f"fe 0 {c.line}", ("fe", FE_NAMES[0]), c.tol))
    for _ in range(3000 if big else 300):
        d = rng.randint(1, 7); mode = rng.choice([1, 2, 3])
        x = rng.choice([-1, 1]) * rng.uniform(1, 10) * 10.0 ** rng.randint(-300, 300) if rng.random() < 0.7 else round(rng.uniform(-1000, 1000), rng.randint(0, 6))
        out.append(Case(f"fe {mode} round {hx(x)} {hx(x + abs(x) * rng.uniform(0, 3) * 10.0 ** -d)} {d}", ("fe", FE_NAMES[mode], "round", "nt")))
    return out


def nontrivial(c, io):
    return "nt" in c.tags


def split_fe(line):
    t = line.split()
    if t[0] == "gen": t = t[1:]
    return (int(t[1]), t[2:]) if t[0] == "fe" else (0, t)


def compare(c, io, mo, tol):
    mode, t = split_fe(c.line)
    if mode != 0: return True, False, ""       # the model's float instance runs in round-to-nearest: directed-mode answers are judged by the predicates only
    if t[0] in ("yhist", "vshhist"): return True, False, ""  # boost's scalar harmonics are a function argument of the model: histories are judged by the predicates only
    if t[0] == "vsh":
        return compare_lines(io.split("|")[0].strip(), mo, tol)    # the model side of `vsh` is the coefficient tables
    return compare_lines(io, mo, tol)


# ---------------------------------------------------------------- independent references (S4)
_PI = Decimal("3.14159265358979323846264338327950288419716939937510582097494459230781640628620899")
_cache = {}


def int_exp_t2(x):
    """Decimal value of integral_0^x exp(t^2) dt = sum_n x^(2n+1) / (n! (2n+1))  (all terms of one sign: no cancellation)"""
    if x in _cache: return _cache[x]
    getcontext().prec = 50
    X = Decimal(x); X2 = X * X
    p = X; s = X; n = 0
    lim = Decimal(10) ** -45
    while True:
        n += 1
        p = p * X2 / n
        t = p / (2 * n + 1)
        s += t
        if n > X2 and abs(t) <= abs(s) * lim: break
        if n > 20000: break
    if len(_cache) > 200000: _cache.clear()
    _cache[x] = s
    return s


def dawson_ref(x):
    getcontext().prec = 50
    X = Decimal(x)
    return int_exp_t2(x) * (-(X * X)).exp()


def erfi_ref(x):
    getcontext().prec = 50
    return int_exp_t2(x) * 2 / _PI.sqrt()


def erfinv_ref(p):
    """erfinv of the double p, |p| < 1: bisection on erf (|p| <= 1/2) or on erfc(y) = 1 - |p| (exact subtraction)"""
    a = abs(p)
    if a == 0.0: return 0.0
    lo, hi = 0.0, 10.0
    if a <= 0.5:
        f = lambda y: math.erf(y) - a
    else:
        q = 1.0 - a
        f = lambda y: q - math.erfc(y)
    for _ in range(120):
        mid = 0.5 * (lo + hi)
        if f(mid) < 0: lo = mid
        else: hi = mid
    return math.copysign(0.5 * (lo + hi), p)


def ylm_sign(m): return -1.0 if m % 2 else 1.0


def predicates(c, io):
    """S4: the property's own clauses evaluated on the implementation's output.  `fe <mode> <case>`: the same clauses with the case run under
    a directed rounding mode set by the caller; there every rounding error bound doubles (one ulp instead of half an ulp per operation) and
    x -> -x is no longer an exact symmetry of the arithmetic, so the clauses that are exact identities in round-to-nearest (odd, symmetric) hold
    to the doubled rounding bound (this is what the unchanged library does in those modes; toward-zero keeps the exact symmetries)."""
    mode, t = split_fe(c.line)
    if "ROUNDING_MODE_CHANGED" in io: return [(t[0] + ":rounding-mode-restored", "the call changed the caller's rounding direction")]
    res = _predicates(t, io, mode)
    return [(sig + ":" + FE_NAMES[mode], f"[rounding direction {FE_NAMES[mode]}] " + msg) for sig, msg in res] if mode else res


def close(a, b, rel):
    return a == b or abs(a - b) <= rel * max(abs(a), abs(b)) + 8 * 5e-324          # (a few subnormal quanta: one per operation)


def _predicates(t, io, mode):
    out = []
    op = t[0]
    K = 2 if mode else 1           # directed rounding: error per operation up to one ulp instead of half an ulp
    sym = mode in (0, 3)           # to-nearest and toward-zero are symmetric under x -> -x
    if io.startswith(("CRASH", "SANITIZER", "TIMEOUT", "HARNESSERR")): return out
    ex = io.startswith("EXIT")
    v = parse_vals(io)
    if op == "sign":
        x = float.fromhex(t[1]); e = 1 if x > 0 else 0 if x == 0 else -1
        if ex or v != [e]: out.append(("sign:cases", f"Sign({x!r}) = {io}, expected {e}"))
    elif op == "sign2":
        x, y = float.fromhex(t[1]), float.fromhex(t[2]); s = lambda z: 1 if z > 0 else 0 if z == 0 else -1
        e = x if s(x) == s(y) else -x
        if ex or v[0] != e: out.append(("sign2:spec", f"Sign({x!r},{y!r}) = {io}, expected {e!r}"))
        elif x != 0 and y != 0 and (abs(v[0]) != abs(x) or s(v[0]) != s(y)): out.append(("sign2:sign-of-y", f"Sign({x!r},{y!r}) = {v[0]!r} is not |x| with the sign of y"))
    elif op == "step":
        x = float.fromhex(t[1]); e = 1.0 if x >= 0 else 0.0
        if ex or v != [e]: out.append(("step:spec", f"StepFunction({x!r}) = {io}, expected {e}"))
    elif op == "reldiff":
        a, b = float.fromhex(t[1]), float.fromhex(t[2])
        if ex: return [("reldiff:exit", "terminated the process")]
        mx = max(abs(a), abs(b)); e = 0.0 if mx == 0 else abs(a - b) / mx
        # directed modes: subtraction and division each err by up to one ulp (2 eps), in a direction that depends on the order of the arguments
        if not (v[0] == e if mode == 0 else close(v[0], e, 6 * EPS)): out.append(("reldiff:definition", f"Relative_Difference({a!r},{b!r}) = {v[0]!r}, definition gives {e!r}"))
        if not (v[1] == v[0] if sym else close(v[1], v[0], 8 * EPS)): out.append(("reldiff:symmetric", f"Relative_Difference({a!r},{b!r}) = {v[0]!r} but ({b!r},{a!r}) gives {v[1]!r}"))
        if not (v[2] == 0.0): out.append(("reldiff:reflexive", f"Relative_Difference({a!r},{a!r}) = {v[2]!r}, not 0"))
    elif op == "feq":
        a, b, tol = float.fromhex(t[1]), float.fromhex(t[2]), float.fromhex(t[3])
        if ex: return [("feq:exit", "terminated the process")]
        mx = max(abs(a), abs(b)); rd = 0.0 if mx == 0 else abs(a - b) / mx
        at_tol = mode != 0 and close(rd, tol, 8 * EPS)        # directed modes: the computed relative difference is within 6 eps of rd, and depends on the argument order
        if v[0] != (1 if rd < tol else 0) and not at_tol: out.append(("feq:consistent", f"Floats_Equal({a!r},{b!r},{tol!r}) = {v[0]} but Relative_Difference = {rd!r}"))
        if v[1] != v[0] and (sym or not at_tol): out.append(("feq:symmetric", f"Floats_Equal({a!r},{b!r}) = {v[0]} but ({b!r},{a!r}) gives {v[1]}"))
        if tol > 0 and (v[2] != 1 or v[3] != 1): out.append(("feq:reflexive", f"Floats_Equal(x,x,{tol!r}) is false for x = {a!r} or {b!r}"))
    elif op == "round":
        x, y, d = float.fromhex(t[1]), float.fromhex(t[2]), int(t[3])
        if d > 7:
            if not ex: out.append(("round:digits-guard", f"Round(x,{d}) did not terminate the process"))
            return out
        if ex: return [("round:exit", f"Round({x!r},{d}) terminated the process")]
        if d < 1: return out
        r, rm, rr, ry = v[0], v[1], v[2], v[3]
        if x == 0:
            if r != 0: out.append(("round:zero", f"Round(0,{d}) = {r!r}"))
        else:
            getcontext().prec = 60
            X = Decimal(x); k = X.adjusted(); q = Decimal(10) ** (k - d + 1); R = Decimal(r)
            # a priori slack: four roundings of pow / products on top of the exact half unit
            if abs(R - X) > q / 2 + Decimal(K * 8 * EPS) * abs(X): out.append(("round:half-unit", f"Round({x!r},{d}) = {r!r} is further than half a unit ({q/2}) of the digit from x"))
            n = R / q
            if abs(n - n.to_integral_value()) > Decimal(K * 16 * EPS) * abs(n): out.append(("round:multiple", f"Round({x!r},{d}) = {r!r} is not a multiple of {q}"))
        if not (rm == -r if sym else close(rm, -r, 16 * EPS)): out.append(("round:odd", f"Round(-x,{d}) = {rm!r} but -Round(x,{d}) = {-r!r} for x = {x!r}"))
        if not (abs(rr - r) <= K * 8 * EPS * abs(r)): out.append(("round:idempotent", f"Round(Round(x)) = {rr!r} differs from Round(x) = {r!r} for x = {x!r}, d = {d}"))
        if x <= y and not (r <= ry + K * 8 * EPS * abs(ry)): out.append(("round:monotone", f"x = {x!r} <= y = {y!r} but Round(x,{d}) = {r!r} > Round(y,{d}) = {ry!r}"))
    elif op in ("roundv", "roundm"):
        d = int(t[1])
        vals = [float.fromhex(w) for w in t[2:] if w.startswith(("0x", "-0x"))]
        if d > 7:
            if not ex and len(vals) > 0: out.append((op + ":digits-guard", f"Round(container,{d}) did not terminate the process"))
            return out
        if ex: return [(op + ":exit", "terminated the process")]
        res = [w for w in v if isinstance(w, float)]
        shape_in = [w for w in parse_vals(" ".join(t[2:])) if isinstance(w, int)]; shape_out = [w for w in v if isinstance(w, int)]
        if shape_in != shape_out: out.append((op + ":shape", f"shape changed from {shape_in} to {shape_out}"))
        elif d >= 1:
            getcontext().prec = 60
            for x, r in zip(vals, res):
                if x == 0:
                    if r != 0: out.append((op + ":element", f"0 rounded to {r!r}"))
                else:
                    X = Decimal(x); q = Decimal(10) ** (X.adjusted() - d + 1)
                    if abs(Decimal(r) - X) > q / 2 + Decimal(K * 8 * EPS) * abs(X): out.append((op + ":element", f"element {x!r} rounded to {r!r}, not within half a unit")); break
    elif op == "dawson":
        x = float.fromhex(t[1])
        if ex: return [("dawson:exit", "terminated the process")]
        if not (v[1] == -v[0] if sym else close(v[1], -v[0], 8 * EPS)): out.append(("dawson:odd", f"Dawson_Integral(-x) = {v[1]!r} but -Dawson_Integral(x) = {-v[0]!r} at x = {x!r}"))
        ref = dawson_ref(x)
        if not (abs(Decimal(v[0]) - ref) <= Decimal("2e-7")): out.append(("dawson:accuracy", f"Dawson_Integral({x!r}) = {v[0]!r}, reference {float(ref)!r}: error {float(abs(Decimal(v[0]) - ref)):.3g} > 2e-7"))
    elif op == "erfi":
        x = float.fromhex(t[1])
        if ex: return [("erfi:exit", "terminated the process")]
        if not (v[1] == -v[0] if sym else close(v[1], -v[0], 16 * EPS)): out.append(("erfi:odd", f"Erfi(-x) = {v[1]!r} but -Erfi(x) = {-v[0]!r} at x = {x!r}"))
        ref = erfi_ref(x)
        if abs(ref) > Decimal("1.7976931348623157e308"):
            # (an overflow is rounded to the largest double instead of infinity when the direction points toward zero)
            if not (math.isinf(v[0]) or (mode != 0 and abs(v[0]) == 1.7976931348623157e308)): out.append(("erfi:accuracy", f"Erfi({x!r}) = {v[0]!r} but erfi(x) exceeds the largest double"))
        elif math.isinf(v[0]) or math.isnan(v[0]) or (mode != 0 and abs(v[0]) == 1.7976931348623157e308 and abs(ref) < Decimal("1.79e308")):
            out.append(("erfi:overflow", f"Erfi({x!r}) = {v[0]!r} but erfi(x) = {float(ref)!r} is a finite double (exp(x*x) overflows for |x| > 26.64)"))
        elif not (abs(Decimal(v[0]) - ref) <= Decimal("1e-6") * abs(ref) + (4 if mode else 1) * Decimal(5e-324)):     # + one subnormal quantum (directed modes: one per product)
            out.append(("erfi:accuracy", f"Erfi({x!r}) = {v[0]!r}, reference {float(ref)!r}: relative error {float(abs(Decimal(v[0]) - ref) / abs(ref)):.3g} > 1e-6"))
    elif op == "spechist":
        if ex: return [("spechist:exit", "terminated the process")]
        n = int(t[1]); reqs = [(int(t[2 + 2 * j]), float.fromhex(t[3 + 2 * j])) for j in range(n)]
        seen = {}
        for j, ((k, x), y) in enumerate(zip(reqs, v)):
            name = "Erfi" if k else "Dawson_Integral"; where = f"request {j + 1} of {n} in this process"
            if (k, x) in seen and seen[(k, x)] != y and y == y:
                out.append(("spechist:repeatable", f"{name}({x!r}) = {y!r} at {where}, but {seen[(k, x)]!r} earlier in the same history")); break
            seen.setdefault((k, x), y)
            if (k, -x) in seen and not (seen[(k, -x)] == -y if sym else close(seen[(k, -x)], -y, 16 * EPS)):
                out.append(("spechist:odd", f"{name}({x!r}) = {y!r} at {where}, but {name}({-x!r}) = {seen[(k, -x)]!r} earlier in the same history")); break
            if k == 0:
                ref = dawson_ref(x)
                if not (abs(Decimal(y) - ref) <= Decimal("2e-7")): out.append(("spechist:accuracy", f"Dawson_Integral({x!r}) = {y!r} at {where}, reference {float(ref)!r}")); break
            else:
                ref = erfi_ref(x)
                if abs(ref) < Decimal("1e300") and not (abs(Decimal(y) - ref) <= Decimal("1e-6") * abs(ref) + 4 * Decimal(5e-324)):
                    out.append(("spechist:accuracy", f"Erfi({x!r}) = {y!r} at {where}, reference {float(ref)!r}")); break
    elif op == "inverf":
        p = float.fromhex(t[1])
        if abs(p) >= 1 and abs(p) != 1.0:
            if not ex: out.append(("inverf:guard", f"Inv_Erf({p!r}) with |p| > 1 returned {io}"))
        elif ex: out.append(("inverf:exit", f"Inv_Erf({p!r}) terminated the process"))
        elif abs(p) == 1.0:
            if v[0] != 10.0 * p: out.append(("inverf:one", f"Inv_Erf({p!r}) = {v[0]!r}, expected {10.0 * p!r}"))
        else:
            ref = erfinv_ref(p)
            if abs(p) > 1 - 1e-12:
                # beyond the property's range the doubles erf(x) near +-1 are 1.1e-16 apart, which limits what any root finder on erf(x) - p can resolve
                if not (abs(math.erf(v[0]) - p) <= 4 * EPS): out.append(("inverf:residual", f"Inv_Erf({p!r}) = {v[0]!r} but erf of it is {math.erf(v[0])!r}"))
            elif not (abs(v[0] - ref) <= 1e-4): out.append(("inverf:accuracy", f"Inv_Erf({p!r}) = {v[0]!r}, erfinv = {ref!r}: error {abs(v[0]-ref):.3g} > 1e-4"))
    elif op in ("ycomp", "psicomp"):
        cc, l, m, lh, mh = (int(w) for w in t[1:6])
        if cc not in (0, 1, 2):
            if not ex: out.append((op + ":guard", f"component {cc} was accepted"))
            return out
        if ex: return [(op + ":exit", "terminated the process")]
        e = table_ref(op == "psicomp", cc, l, m, lh, mh)
        z = complex(v[0], v[1])
        if e is not None and not (abs(z - e) <= 16 * EPS * max(1.0, abs(e))):
            out.append((op + ":table", f"{op}({cc},{l},{m},{lh},{mh}) = {z!r}, the classical coefficient is {e!r}"))
    elif op == "vsh":
        if ex: return [("vsh:exit", "terminated the process")]
        out += vsh_predicates(t, io)
    elif op == "yhist":
        if ex: return [("yhist:exit", "terminated the process")]
        out += yhist_predicates(t, io)
    elif op == "vshhist":
        if ex: return [("vshhist:exit", "terminated the process")]
        out += vshhist_predicates(t, io)
    elif op == "roundhist":
        out += roundhist_predicates(t, io, ex, v, K)
    return out


def roundhist_predicates(t, io, ex, v, K):
    """every request of the history whose argument is real and inside the 600 decades (or zero): within half a unit of the d-th digit, a multiple
    of the unit, zero -> zero, the same answer as the same request got earlier in this process; shapes kept; the answers to NaN / infinite /
    subnormal arguments themselves are not judged"""
    out = []
    n = int(t[1]); q = 2; reqs = []
    for _ in range(n):
        kind, d = int(t[q]), int(t[q + 1]); q += 2
        fl = lambda w: float(w) if w in ("nan", "inf", "-inf") else float.fromhex(w)
        if kind == 0: rows = [[fl(t[q])]]; q += 1
        else:
            nr = 1
            if kind == 2: nr = int(t[q]); q += 1
            rows = []
            for _r in range(nr):
                ln = int(t[q]); q += 1
                rows.append([fl(w) for w in t[q:q + ln]]); q += ln
        reqs.append((kind, d, rows))
    guard = any(d > 7 and any(len(r) for r in rows) for _k, d, rows in reqs)
    if guard:
        if not ex: out.append(("roundhist:digits-guard", "a request with digits > 7 did not terminate the process"))
        return out
    if ex: return [("roundhist:exit", "a history of Round requests with digits <= 7 terminated the process")]
    getcontext().prec = 60
    pos = 0; seen = {}
    def bad_shape(): out.append(("roundhist:shape", f"the answers do not have the shapes of the requests: {io[:200]}"))
    for j, (kind, d, rows) in enumerate(reqs):
        where = f"request {j + 1} of {n} in this process ({('Round(double)', 'Round(Vector)', 'Round(Matrix)')[kind]}, digits = {d})"
        try:
            if kind == 2:
                if v[pos] != len(rows) or not isinstance(v[pos], int): bad_shape(); return out
                pos += 1
            res = []
            for r in rows:
                if kind != 0:
                    if not isinstance(v[pos], int) or v[pos] != len(r): bad_shape(); return out
                    pos += 1
                for x in r:
                    if not isinstance(v[pos], float): bad_shape(); return out
                    res.append((x, v[pos])); pos += 1
        except IndexError:
            bad_shape(); return out
        for x, r in res:
            if not round_judged(x) or d < 1: continue
            if x == 0:
                if r != 0: out.append(("roundhist:zero", f"Round(0,{d}) = {r!r} at {where}")); return out
                continue
            if not math.isfinite(r): out.append(("roundhist:half-unit", f"Round({x!r},{d}) = {r!r} at {where}")); return out
            X = Decimal(x); k = X.adjusted(); u = Decimal(10) ** (k - d + 1); R = Decimal(r)
            if abs(R - X) > u / 2 + Decimal(K * 8 * EPS) * abs(X):
                out.append(("roundhist:half-unit", f"Round({x!r},{d}) = {r!r} is further than half a unit ({u/2}) of the digit from x, at {where}")); return out
            nn = R / u
            if abs(nn - nn.to_integral_value()) > Decimal(K * 16 * EPS) * abs(nn):
                out.append(("roundhist:multiple", f"Round({x!r},{d}) = {r!r} is not a multiple of {u}, at {where}")); return out
            if (x, d) in seen and seen[(x, d)] != r:
                out.append(("roundhist:repeatable", f"Round({x!r},{d}) = {r!r} at {where}, but {seen[(x, d)]!r} earlier in the same process")); return out
            seen[(x, d)] = r
    if pos != len(v): bad_shape()
    return out


def vshhist_predicates(t, io):
    out = []
    fl = lambda w: float(w) if w in ("nan", "inf", "-inf") else float.fromhex(w)
    nd = int(t[1]); dirs = [(fl(t[2 + 2 * i]), fl(t[3 + 2 * i])) for i in range(nd)]
    q = 2 + 2 * nd; k = int(t[q]); reqs = [tuple(int(w) for w in t[q + 1 + 4 * j: q + 5 + 4 * j]) for j in range(k)]
    a = parse_vals(io); pos = 0; first = {}
    for j, (kind, l, m, d) in enumerate(reqs):
        nz = 1 if kind == 2 else 3
        th, ph = dirs[d]
        name = ("Vector_Spherical_Harmonics_Y", "Vector_Spherical_Harmonics_Psi", "Spherical_Harmonics")[kind]
        where = f"request {j + 1} of {k} in this process: {name}(l={l}, m={m}, theta={th!r}, phi={ph!r})"
        if pos < len(a) and a[pos] == "THROW":
            # the request was abandoned by an exception from the back end (caught by the caller): legal beyond the judged degrees, a violation within them
            pos += 1
            if l <= 12 and dir_judged(th, ph): out.append(("vshhist:throws", f"an exception came out of {where}")); return out
            key = (kind, l, m, th, ph)
            if key in first and first[key][1] != "THROW":
                out.append(("vshhist:repeatable", f"an exception at {where}, but request {first[key][0] + 1} with the same arguments was answered {first[key][1]!r}")); return out
            first.setdefault(key, (j, "THROW"))
            continue
        if pos + 2 * nz > len(a) or any(not isinstance(w, float) for w in a[pos:pos + 2 * nz]):
            out.append(("vshhist:shape", f"{len(a)} tokens returned for {k} requests")); return out
        z = [complex(a[pos + 2 * i], a[pos + 2 * i + 1]) for i in range(nz)]; pos += 2 * nz
        if not dir_judged(th, ph): continue
        if l > 12:
            # beyond the degrees of the property: only the repeat of an identical request in the same process is compared
            key = (kind, l, m, th, ph)
            if key in first and first[key][1] != z and not any(w != w for w in z):
                out.append(("vshhist:repeatable", f"{z!r} at {where}, but request {first[key][0] + 1} with the same arguments was answered {first[key][1]!r}")); return out
            first.setdefault(key, (j, z))
            continue
        sc = math.sqrt((2 * l + 1) / (4 * math.pi))
        n = (math.sin(th) * math.cos(ph), math.sin(th) * math.sin(ph), math.cos(th))
        if kind == 2:
            e = ylm_ref(l, m, th, ph)
            if not (abs(z[0] - e) <= 1e-11 * (l + 1) * sc): out.append(("vshhist:definition", f"{z[0]!r}, Y_lm = {e!r} at {where}")); return out
        elif kind == 0:
            e = ylm_ref(l, m, th, ph)
            for i in range(3):
                if not (abs(z[i] - n[i] * e) <= 1e-11 * (l + 1) * sc):
                    out.append(("vshhist:Y=rhat*Ylm", f"component {i} = {z[i]!r}, rhat_i * Y_lm = {n[i] * e!r} at {where}")); return out
        else:
            dot = sum(n[i] * z[i] for i in range(3))
            if not (abs(dot) <= 1e-12 * (l + 1) ** 2 * sc): out.append(("vshhist:tangential", f"rhat . Psi = {dot!r} is not 0 at {where}")); return out
            # r grad Y_lm in the basis of the neighbouring harmonics (classical coefficients, independent Y_lm)
            for i in range(3):
                e = 0j
                for lh in (l - 1, l + 1):
                    for mh in (m - 1, m, m + 1):
                        if abs(mh) <= lh: e += table_ref(True, i, l, m, lh, mh) * ylm_ref(lh, mh, th, ph)
                if not (abs(z[i] - e) <= 1e-11 * (l + 1) ** 2 * sc):
                    out.append(("vshhist:Psi=r*grad(Y)", f"component {i} = {z[i]!r}, r grad Y_lm = {e!r} at {where}")); return out
        key = (kind, l, m, th, ph)
        if key in first and first[key][1] != z and not any(w != w for w in z):
            out.append(("vshhist:repeatable", f"{z!r} at {where}, but request {first[key][0] + 1} with the same arguments was answered {first[key][1]!r}")); return out
        first.setdefault(key, (j, z))
    return out


def ylm_ref(l, m, th, ph):
    """independent Y_lm(theta, phi), Condon-Shortley phase, 0 for |m| > l: normalised three-term recurrence in the degree started from
    Y_mm ~ sin^m(theta) (no cancellation at the poles); errors of a few (l + 1) eps max|Y|"""
    if l < 0 or abs(m) > l: return 0j
    am = abs(m); ct, st = math.cos(th), math.sin(th)
    p = math.sqrt(1.0 / (4 * math.pi))
    for k in range(1, am + 1): p *= -math.sqrt((2 * k + 1) / (2.0 * k)) * st
    pm1 = 0.0
    for n in range(am + 1, l + 1):
        a = math.sqrt((4.0 * n * n - 1) / (n * n - am * am))
        b = math.sqrt(((n - 1.0) ** 2 - am * am) / (4.0 * (n - 1) ** 2 - 1))
        p, pm1 = a * (ct * p - b * pm1), p
    z = p * cmath.exp(1j * am * ph)
    return z if m >= 0 else ylm_sign(am) * z.conjugate()


def yhist_predicates(t, io):
    out = []
    nd = int(t[1]); dirs = [(float.fromhex(t[2 + 2 * i]), float.fromhex(t[3 + 2 * i])) for i in range(nd)]
    q = 2 + 2 * nd; k = int(t[q]); reqs = [(int(t[q + 1 + 3 * j]), int(t[q + 2 + 3 * j]), int(t[q + 3 + 3 * j])) for j in range(k)]
    L, M, D = (int(w) for w in t[q + 1 + 3 * k: q + 4 + 3 * k])
    left, right = io.split("|")
    a = parse_vals(left); w = parse_vals(right)
    cz = lambda arr, j: complex(arr[2 * j], arr[2 * j + 1])
    first = {}
    for j, (l, m, d) in enumerate(reqs):
        z = cz(a, j); th, ph = dirs[d]
        sc = math.sqrt((2 * l + 1) / (4 * math.pi))
        where = f"request {j + 1} of {k} (l={l} m={m} theta={th!r} phi={ph!r})"
        if abs(m) > l:
            if z != 0: out.append(("yhist:order-beyond-degree", f"Y_lm = {z!r} is not 0 for |m| > l at {where}")); break
        else:
            e = ylm_ref(l, m, th, ph)
            if not (abs(z - e) <= 1e-11 * (l + 1) * sc): out.append(("yhist:definition", f"Spherical_Harmonics = {z!r}, Y_lm = {e!r} at {where}, after {j} earlier requests in this process")); break
        if (l, m, d) in first and first[(l, m, d)][1] != z and not (z != z):
            out.append(("yhist:repeatable", f"Spherical_Harmonics = {z!r} at {where} but request {first[(l, m, d)][0] + 1} with the same arguments was answered {first[(l, m, d)][1]!r}")); break
        first.setdefault((l, m, d), (j, z))
        if (l, -m, d) in first and abs(m) <= l:
            zz = first[(l, -m, d)][1]
            if not (abs(zz - ylm_sign(m) * z.conjugate()) <= 64 * EPS * sc):
                out.append(("yhist:conjugation", f"Y_(l,-m) = {zz!r} (request {first[(l, -m, d)][0] + 1}) is not (-1)^m conj(Y_lm) = {ylm_sign(m) * z.conjugate()!r} at {where}")); break
    th, ph = dirs[D]; n = (math.sin(th) * math.cos(ph), math.sin(th) * math.sin(ph), math.cos(th))
    sc = math.sqrt((2 * L + 1) / (4 * math.pi)); e = ylm_ref(L, M, th, ph)
    Yvec = [cz(w, j) for j in range(3)]; Pvec = [cz(w, 3 + j) for j in range(3)]; ylm, ylmm = cz(w, 6), cz(w, 7)
    where = f"l={L} m={M} theta={th!r} phi={ph!r} after {k} scalar requests in this process"
    if not (abs(ylm - e) <= 1e-11 * (L + 1) * sc): out.append(("yhist:definition", f"Spherical_Harmonics = {ylm!r}, Y_lm = {e!r} at {where}"))
    if not (abs(ylmm - ylm_sign(M) * ylm.conjugate()) <= 64 * EPS * sc): out.append(("yhist:conjugation", f"Y_(l,-m) = {ylmm!r} is not (-1)^m conj(Y_lm) = {ylm_sign(M) * ylm.conjugate()!r} at {where}"))
    for i in range(3):
        if not (abs(Yvec[i] - n[i] * e) <= 1e-11 * (L + 1) * sc):
            out.append(("yhist:Y=rhat*Ylm", f"Vector_Spherical_Harmonics_Y component {i} = {Yvec[i]!r}, rhat_i * Y_lm = {n[i] * e!r} at {where}")); break
    dot = sum(n[i] * Pvec[i] for i in range(3))
    if not (abs(dot) <= 1e-12 * (L + 1) ** 2 * sc): out.append(("yhist:tangential", f"rhat . Psi = {dot!r} is not 0 at {where}"))
    return out


def table_ref(psi, c, l, m, lh, mh):
    """classical coefficients of rhat*Y_lm (and of r grad Y_lm) in the basis Y_{lh,mh}; None outside l >= 0, |m| <= l"""
    if l < 0 or abs(m) > l: return None
    if lh not in (l - 1, l + 1): return 0j
    def sq(a):
        return math.sqrt(a) if a > 0 else 0.0
    den_p = (2 * l + 1) * (2 * l + 3); den_m = (2 * l - 1) * (2 * l + 1)
    e = 0j
    if c == 2:
        if mh != m: return 0j
        e = sq((l - m + 1) * (l + m + 1) / den_p) if lh == l + 1 else sq((l - m) * (l + m) / den_m)
    else:
        if mh not in (m - 1, m + 1): return 0j
        if lh == l + 1 and mh == m + 1: a = -sq((l + m + 1) * (l + m + 2) / den_p)     # sin e^{+i phi} part
        elif lh == l - 1 and mh == m + 1: a = sq((l - m) * (l - m - 1) / den_m)
        elif lh == l + 1 and mh == m - 1: a = sq((l - m + 1) * (l - m + 2) / den_p)    # sin e^{-i phi} part
        else: a = -sq((l + m) * (l + m - 1) / den_m)
        # x = (e+ + e-)/2, y = (e+ - e-)/(2i)
        if c == 0: e = a / 2
        else: e = (a / 2j) if mh == m + 1 else (-a / 2j)
    if psi: e *= (-l if lh == l + 1 else l + 1)
    return complex(e)


def vsh_predicates(t, io):
    out = []
    l, m = int(t[1]), int(t[2]); th, ph = float.fromhex(t[3]), float.fromhex(t[4])
    left, right = io.split("|")
    tab = parse_vals(left); w = parse_vals(right)
    cz = lambda a, k: complex(a[2 * k], a[2 * k + 1])
    ytab = [cz(tab, k) for k in range(18)]; ptab = [cz(tab, 18 + k) for k in range(18)]
    ylm, ylmm = cz(w, 0), cz(w, 1)
    yv = [cz(w, 2 + k) for k in range(6)]
    Yvec = [cz(w, 8 + k) for k in range(3)]; Pvec = [cz(w, 11 + k) for k in range(3)]
    h = w[28]; e1 = w[29:32]; e2 = w[32:35]; fd = [cz(w, 0) for _ in range(0)]
    fdv = [complex(w[35 + 2 * k], w[36 + 2 * k]) for k in range(4)]
    n = (math.sin(th) * math.cos(ph), math.sin(th) * math.sin(ph), math.cos(th))
    sc = math.sqrt((2 * l + 1) / (4 * math.pi))          # max |Y_lm|
    where = f"l={l} m={m} theta={th!r} phi={ph!r}"
    # conjugation symmetry of the scalar harmonics (boost): slack 64 eps * max|Y|
    if not (abs(ylmm - ylm_sign(m) * ylm.conjugate()) <= 64 * EPS * sc):
        out.append(("vsh:conjugation", f"Y_(l,-m) = {ylmm!r} is not (-1)^m conj(Y_lm) = {ylm_sign(m) * ylm.conjugate()!r} at {where}"))
    # the summation loops, recomputed from the printed table entries and harmonics (same order; slack 8 eps * sum of |terms|)
    for name, tb, vec in (("Y", ytab, Yvec), ("Psi", ptab, Pvec)):
        for i in range(3):
            s = 0j; mag = 0.0
            for j in range(6):
                lh = l - 1 if j < 3 else l + 1; mh = m - 1 + (j % 3)
                if abs(mh) <= lh: s += tb[6 * i + j] * yv[j]; mag += abs(tb[6 * i + j] * yv[j])
            if not (abs(s - vec[i]) <= 8 * EPS * mag):
                out.append(("vsh:summation", f"Vector_Spherical_Harmonics_{name} component {i} = {vec[i]!r}, the sum over the table gives {s!r} at {where}"))
    # Y = rhat * Y_lm: the recurrences hold exactly, boost's harmonics carry a few ulp each: slack 1e-12 * (l+1) * max|Y|  (a priori: <= 4 terms x 100 eps)
    for i in range(3):
        if not (abs(Yvec[i] - n[i] * ylm) <= 1e-12 * (l + 1) * sc):
            out.append(("vsh:Y=rhat*Ylm", f"Vector_Spherical_Harmonics_Y component {i} = {Yvec[i]!r}, rhat_i * Y_lm = {n[i] * ylm!r} at {where}"))
    # Psi tangential: rhat . Psi = 0, |Psi| <= sqrt(l(l+1)) max|Y|
    dot = sum(n[i] * Pvec[i] for i in range(3))
    if not (abs(dot) <= 1e-12 * (l + 1) ** 2 * sc):
        out.append(("vsh:tangential", f"rhat . Psi = {dot!r} is not 0 at {where}"))
    # Psi = r grad Y_lm: central differences of Spherical_Harmonics along e1, e2 (step h): truncation <= h^2/6 (l+1)^3 max|Y|, rounding <= 64 eps max|Y| / h
    g = [(fdv[1] - fdv[0]) / (2 * h) * e1[i] + (fdv[3] - fdv[2]) / (2 * h) * e2[i] for i in range(3)]
    slack = (h * h / 6 * (l + 1) ** 3 + 64 * EPS / h) * sc * 4
    for i in range(3):
        if not (abs(Pvec[i] - g[i]) <= slack):
            out.append(("vsh:Psi=r*grad(Y)", f"Vector_Spherical_Harmonics_Psi component {i} = {Pvec[i]!r}, r grad Y_lm (finite differences) = {g[i]!r} (slack {slack:.2g}) at {where}"))
    return out


# ---------------------------------------------------------------- extra stages: VSH summation correspondence, S3 certified samples
def dyadic(x):
    """double -> 'IZR (m) * powerRZ 2 (e)' exactly"""
    if x == 0.0: return "0"
    mant, ex = math.frexp(x); m = int(mant * (1 << 53)); e = ex - 53
    while m % 2 == 0: m //= 2; e += 1
    return f"(IZR ({m}) * powerRZ 2 ({e}))"


def s3_points(rng, tier):
    """sample arguments for the certified samples: Dawson (dense around |x| = 0.2, +-30), Erfi (x > 0 up to the overflow), Inv_Erf (p up to 1 - 1e-12)"""
    n = 40 if tier == "quick" else 1000
    daw = [0.2, -0.2, math.nextafter(0.2, 0), math.nextafter(0.2, 1), 0.4, 1.2, 30.0, -30.0, 0.924, 1e-3]
    while len(daw) < n:
        r = rng.random()
        if r < 0.35: x = 0.2 + rng.choice([-1, 1]) * 10 ** rng.uniform(-9, -1.3)      # dense around the switch
        elif r < 0.45: x = -(0.2 + rng.choice([-1, 1]) * 10 ** rng.uniform(-9, -1.3))
        elif r < 0.6: x = rng.uniform(-3, 3)
        else: x = rng.uniform(-30, 30)
        daw.append(x)
    m = 10 if tier == "quick" else 300
    erfi = [0.2, math.nextafter(0.2, 0), 1e-6, 1.0, 26.6]
    while len(erfi) < m:
        r = rng.random()
        erfi.append(0.2 + rng.choice([-1, 1]) * 10 ** rng.uniform(-9, -1.3) if r < 0.3 else rng.uniform(0.01, 3) if r < 0.6 else rng.uniform(3, 26.6))
    inv = [0.5, -0.5, 1e-9, 0.999, 1 - 1e-12, -(1 - 1e-12), 1 - 1e-6]
    while len(inv) < m:
        r = rng.random()
        inv.append(rng.uniform(-1, 1) if r < 0.6 else rng.choice([-1, 1]) * (1 - 10 ** rng.uniform(-12, -1)))
    return daw, erfi, inv


S3_HEAD = ["From Coq Require Import Reals Lra.", "From Coquelicot Require Import Coquelicot.", "From Interval Require Import Tactic.",
           "From LP Require Import NumR C17_Defs.", "Open Scope R_scope."]


def certified_samples(ctx, rng):
    """S3: Coq-Interval certifies, for the library's doubles (embedded as exact dyadic rationals) at sampled arguments:
       |Dawson_Integral(x) - RInt (fun t => exp(t^2 - x^2)) 0 x| <= 2e-7;   |Erfi(x) - erfi(x)| <= 1e-6 |erfi(x)|;
       erf(y - 1e-4) < p < erf(y + 1e-4) for y = Inv_Erf(p), i.e. |y - erfinv p| < 1e-4 (erf = NumR.Rerf, defined by its integral)."""
    tier = ctx["tier"]; work = ctx["work"]
    daw, erfi, inv = s3_points(rng, tier)
    lines = [f"dawson {hx(x)}" for x in daw] + [f"erfi {hx(x)}" for x in erfi] + [f"inverf {hx(x)}" for x in inv]
    outl = [vcheck.canon_impl(o) for o in vcheck.run_exe(ctx["exe"], lines, work, "s3_impl")]
    res = {"s3_points": len(lines), "s3_certified": 0, "s3_failed": 0, "s3_dawson_points": len(daw), "s3_erfi_points": len(erfi), "s3_inv_erf_points": len(inv)}
    viol = []; broken = []
    if not (os.path.exists(os.path.join(COQ, "C17_Defs.vo")) and os.path.exists(os.path.join(COQ, "NumR.vo"))):
        return res, viol, [{"kind": "S3", "what": "C17_Defs.vo / NumR.vo are not built: the certified samples cannot be checked"}]
    items = []     # (index, case line, impl value, lemma text, message if it fails)
    for i, (ln, o) in enumerate(zip(lines, outl)):
        op, xs = ln.split(); x = float.fromhex(xs)
        try: y = float.fromhex(o.split()[0])
        except Exception: y = None
        if y is None or not math.isfinite(y):
            viol.append({"sig": op + ":S3", "msg": f"{op}({x!r}) did not return a finite number: {o}", "case": ln, "impl": o, "model": ""}); continue
        if op == "dawson":
            lem = [f"Lemma s3_{i} : Rabs (dawson_def {dyadic(x)} - {dyadic(y)}) <= 2 / 10000000.", "Proof. unfold dawson_def. integral with (i_prec 60). Qed."]
            msg = f"Coq-Interval cannot certify |Dawson_Integral({x!r}) - dawson(x)| <= 2e-7: the library returned {y!r}, a 50-digit reference gives {float(dawson_ref(x))!r}"
        elif op == "erfi":
            lem = [f"Lemma s3_{i} : Rabs ({dyadic(y)} - erfi_def {dyadic(x)}) <= 1 / 1000000 * Rabs (erfi_def {dyadic(x)}).",
                   "Proof. apply rel_error_from_enclosure; [lra|interval|]. unfold erfi_def. split; integral with (i_prec 80). Qed."]
            msg = f"Coq-Interval cannot certify |Erfi({x!r}) - erfi(x)| <= 1e-6 |erfi(x)|: the library returned {y!r}, a 50-digit reference gives {float(erfi_ref(x))!r}"
        else:
            lem = [f"Lemma s3_{i} : Rerf ({dyadic(y)} - 1 / 10000) < {dyadic(x)} < Rerf ({dyadic(y)} + 1 / 10000).",
                   "Proof. unfold Rerf. split; integral with (i_prec 80). Qed."]
            msg = f"Coq-Interval cannot certify erf(y - 1e-4) < p < erf(y + 1e-4) for y = Inv_Erf({x!r}) = {y!r}; erfinv(p) = {erfinv_ref(x)!r}"
        items.append((i, ln, o, lem, msg))
    shards = min(16, max(1, os.cpu_count() or 4)) if tier != "quick" else min(10, max(1, os.cpu_count() or 4))
    for f in glob.glob(os.path.join(COQ, "cases_C17_*")):
        try: os.remove(f)
        except OSError: pass
    files = []
    for sh in range(shards):
        mine = [it for k, it in enumerate(items) if k % shards == sh]
        if not mine: continue
        q = os.path.join(COQ, f"cases_C17_{sh}.v")
        open(q, "w").write("\n".join(S3_HEAD + [l for it in mine for l in it[3]]) + "\n"); files.append((q, mine))

    def coqc(q):
        r = subprocess.run(["timeout", "900", "coqc", "-w", "-all", "-Q", ".", "LP", os.path.basename(q)], cwd=COQ, stdout=subprocess.PIPE, stderr=subprocess.STDOUT, text=True)
        return r.returncode, r.stdout

    with ThreadPoolExecutor(len(files) or 1) as ex:
        first = list(ex.map(lambda it: coqc(it[0]), files))
    # a shard that does not compile is re-checked point by point (one file per point, in parallel)
    singles = []
    for (q, mine), (rc, log) in zip(files, first):
        if rc == 0: res["s3_certified"] += len(mine)
        else:
            for it in mine:
                q1 = os.path.join(COQ, f"cases_C17_p{it[0]}.v")
                open(q1, "w").write("\n".join(S3_HEAD + it[3]) + "\n"); singles.append((q1, it))
    if singles:
        with ThreadPoolExecutor(min(16, os.cpu_count() or 4)) as ex:
            second = list(ex.map(lambda it: coqc(it[0]), singles))
        for (q1, it), (rc, log) in zip(singles, second):
            if rc == 0: res["s3_certified"] += 1; continue
            if "Numerical evaluation failed" not in log and "failed to conclude" not in log:
                if not broken: broken.append({"kind": "S3", "what": "a generated cases_C17 file could not be compiled", "log": log[-600:]})
                continue
            res["s3_failed"] += 1
            viol.append({"sig": it[1].split()[0] + ":S3", "msg": it[4], "case": it[1], "impl": it[2], "model": ""})
    for f in glob.glob(os.path.join(COQ, "cases_C17_*")) + glob.glob(os.path.join(COQ, ".cases_C17_*")):
        try: os.remove(f)
        except OSError: pass
    return res, viol, broken


def vsh_sum_correspondence(ctx, rng):
    """the summation loops of Vector_Spherical_Harmonics_Y/_Psi against the model, which receives the scalar harmonics boost returned"""
    work = ctx["work"]
    lines = []
    for l in range(0, 13):
        for m in range(-l, l + 1):
            for th, ph, tag in directions(rng, 2)[::3] + directions(rng, 2)[-2:]:
                lines.append(f"vsh {l} {m} {hx(th)} {hx(ph)}")
    io = [vcheck.canon_impl(x) for x in vcheck.run_exe(ctx["exe"], lines, work, "vshsum_impl")]
    ml = []; exp = []
    for ln, o in zip(lines, io):
        if "|" not in o: ml.append("vshsum 0 0 " + " ".join(["0x0p+0"] * 12)); exp.append(o); continue
        w = o.split("|")[1].split(); t = ln.split()
        ml.append(f"vshsum {t[1]} {t[2]} " + " ".join(w[4:16])); exp.append(" ".join(w[16:28]))
    mo = [x.strip() for x in vcheck.run_exe(ctx["driver"], ml, work, "vshsum_model")]
    nbit = nok = 0; bad = []
    for ln, e, m_ in zip(lines, exp, mo):
        ok, bit, detail = compare_lines(e, m_, (1e-13, 1e-15))
        nbit += bit; nok += ok
        if not ok: bad.append({"case": ln, "impl": e, "model": m_, "detail": detail})
    res = {"vsh_summation_cases": len(lines), "vsh_summation_bit_identical": nbit, "vsh_summation_within_tol": nok}
    broken = []
    if bad: broken.append({"kind": "correspondence", "what": f"the summation loops of Vector_Spherical_Harmonics_Y/_Psi disagree with the model on {len(bad)} of {len(lines)} cases", "first": bad[:3]})
    return res, broken


def vsh_throw_correspondence(ctx, rng):
    """histories of vector- and scalar-harmonic requests in which the back end abandons some evaluations by throwing (very high orders), against the
    history model vsh_run_x, which receives the back end's answers and throws as its function argument: every outcome (numbers or THROW) must agree"""
    work = ctx["work"]; lines = []
    def probe():
        l = rng.randint(0, 12); r = rng.random()
        return l, (rng.choice([-l, l]) if r < 0.3 else rng.choice([-1, 1]) * max(l - 1, 0) if r < 0.5 else rng.randint(-l, l))
    for _ in range(60):
        nd = rng.randint(1, 2); dirs = [(math.acos(rng.uniform(-0.95, 0.95)), rng.uniform(-3.1, 3.1)) if rng.random() < 0.7 else rng.choice(directions(rng, 4))[:2] for _ in range(nd)]
        reqs = []
        L = int(round(13 * (4000 / 13) ** rng.random())); m0 = rng.randint(-L - 2, L + 2)
        for j in range(rng.randint(4, 12)):
            r = rng.random()
            if r < 0.35: l, m = probe()
            elif r < 0.7: l, m = L, m0 + j * rng.choice([1, 1, -1])      # a walk through neighbouring orders of one high degree
            else: l = int(round(13 * (4000 / 13) ** rng.random())); m = rng.choice([-1, 1]) * (l - rng.randint(-1, 4)) if rng.random() < 0.6 else rng.randint(-l, l)
            reqs.append((rng.choice([0, 1, 1, 2]), l, m, rng.randrange(nd)))
        lines.append(f"vshx {nd} " + " ".join(f"{hx(t)} {hx(p)}" for t, p in dirs) + f" {len(reqs)} " + " ".join(f"{k} {l} {m} {d}" for k, l, m, d in reqs))
    # the orders at which the back end starts to throw are found by the scan of vsh_histories; here a dense walk across every order of one degree
    L = rng.choice([1650, 1700, 1800]); g = (math.acos(rng.uniform(-0.9, 0.9)), rng.uniform(-3.1, 3.1))
    orders = list(range(-L - 1, L + 2))
    for c0 in range(0, len(orders), 200):
        reqs = []
        for m in orders[c0:c0 + 200]:
            reqs.append((rng.choice([0, 1, 1, 2]), L, m, 0))
            if rng.random() < 0.5: l, mm = probe(); reqs.append((rng.choice([0, 1, 2]), l, mm, 0))
        lines.append(f"vshx 1 {hx(g[0])} {hx(g[1])} {len(reqs)} " + " ".join(f"{k} {l} {m} {d}" for k, l, m, d in reqs))
    io = [vcheck.canon_impl(x) for x in vcheck.run_exe(ctx["exe"], lines, work, "vshx_impl")]
    ml = []; exp = []; nthrow = 0
    for ln, o in zip(lines, io):
        t = ln.split(); nd = int(t[1]); q = 2 + 2 * nd; k = int(t[q]); reqs = [t[q + 1 + 4 * j: q + 5 + 4 * j] for j in range(k)]
        parts = [p.strip() for p in o.split(";")][:-1] if o.endswith(";") else []
        if len(parts) != k or any("=" not in p for p in parts):
            ml.append("vshrun 0"); exp.append(o); continue
        m_ = [f"vshrun {k}"]; e = []
        for (kind, l, m, d), p in zip(reqs, parts):
            nb, ans = [x.strip() for x in p.split("=")]
            own = "T" if ans == "THROW" else ans if int(kind) >= 2 else "S"
            m_.append(f"{kind} {l} {m} {nb} {own}"); e.append(ans + " ;"); nthrow += ans == "THROW"
        ml.append(" ".join(m_)); exp.append(" ".join(e))
    mo = [x.strip() for x in vcheck.run_exe(ctx["driver"], ml, work, "vshx_model")]
    nbit = nok = 0; bad = []
    for ln, e, m_ in zip(lines, exp, mo):
        ok, bit, detail = compare_lines(e, m_, (1e-13, 1e-15))
        nbit += bit; nok += ok
        if not ok: bad.append({"case": ln[:400], "impl": e[:400], "model": m_[:400], "detail": detail})
    res = {"vsh_throw_histories": len(lines), "vsh_throw_histories_bit_identical": nbit, "vsh_throw_histories_within_tol": nok, "vsh_throw_histories_abandoned_requests": nthrow}
    broken = []
    if bad: broken.append({"kind": "correspondence", "what": f"histories of harmonic requests with abandoned (throwing) evaluations disagree with the history model vsh_run_x on {len(bad)} of {len(lines)} histories", "first": bad[:3]})
    if nthrow == 0: broken.append({"kind": "coverage", "what": "no request of the throwing-back-end histories was abandoned: the region where the back end throws is not reached"})
    return res, broken


def extra(ctx, rng):
    out = {}; viol = []; broken = []
    r, b = vsh_sum_correspondence(ctx, rng); out.update(r); broken += b
    r, b = vsh_throw_correspondence(ctx, rng); out.update(r); broken += b
    t0 = time.time()
    r, v, b = certified_samples(ctx, rng); out.update(r); viol += v; broken += b
    out["s3_wall_s"] = round(time.time() - t0, 1)
    out["violations"] = viol; out["broken"] = broken
    return out
