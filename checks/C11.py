"""C11 — minimisers never end worse than they started and converge on convex bowls."""
import math, os
import vbuild
from vcheck import Case, hx, flist, parse_vals

PID = "C11"
COQ = os.path.join(vbuild.VERIF, "coq")


def regenerate():
    """T-tie: Sign(double) and Sign(double,double) of src/Special_Functions.cpp - the only straight-line callees of Bracket (the denominator
    2.0*Sign(max(|q-r|,TINY), q-r)) and of Brent::Minimize (Sign(tol1, xm-x), Sign(tol1, d)) - are translated from clang's AST into
    coq/Gen_C11_Formulas.v on every run; coq/C11_GenTie.v proves them equal to the terms sign1 / sign2 the model is written with."""
    import cxx2gallina as c
    try:
        txt = c.translate_all(os.path.join(vbuild.REPO, "src", "Special_Functions.cpp"),
                              [c.Fn("Sign", ["double"], "g_Sign"), c.Fn("Sign", ["double", "double"], "g_Sign2")],
                              [os.path.join(vbuild.REPO, "include")])
    except c.Unsupported as e:
        raise RuntimeError(f"tools/cxx2gallina.py cannot translate Sign of src/Special_Functions.cpp: {e}")
    ch = c.write_if_changed(os.path.join(COQ, "Gen_C11_Formulas.v"), txt)
    return "Gen_C11_Formulas.v regenerated from the current source" if ch else ""

EPS = 2.0 ** -53
RULE = ("one case = one call (fmin | fmax | fpair | nm | nmd | nm1 with objective, start, step/tolerance), or a run of calls in one process on one or several "
        "Minimization objects with 1-D calls in between, the vector arguments given by the caller or being public members of the objects (current_simplex, a row of it, y; "
        "of the called object or another; by reference or copied), with the caller writing the public members between calls (putY, putS, putN) and calls abandoned by an objective that throws "
        "at its n-th evaluation (ab) (seq; non-trivial = at least two calls returned and 24 evaluations), or an outer call whose objective runs a "
        "minimisation itself (nest; non-trivial like the outer call); non-trivial = a Nelder-Mead run with at least 12 "
        "objective evaluations after the initial simplex (such runs contain reflections, expansions and contractions; shrinks are rarer and are counted in the "
        "evidence's input distribution only through the traces), or a 1-D run with at least one downhill bracketing step beyond the first three evaluations and at least "
        "4 Brent iterations (golden and parabolic steps both occur), or a guard request that exits; distinct by case text")
LEVEL_TEXT = ("Theorems (Coq, abstract number type with only the laws of a total order on objective values, arithmetic uninterpreted - so they hold for IEEE doubles "
              "with rounding, for every objective without NaN values, every start, step and tolerance): Bracket returns fa,fb,fc = f(ax),f(bx),f(cx) with fb <= fa, fb <= fc and "
              "fb <= both starting values on every exit path; Brent keeps fx = f(x), never increases fx, and returns f_min = f(x_min) <= f(bx); hence Find_Minimum's result "
              "is not worse than either starting abscissa; Find_Maximum is Find_Minimum of -1.0*f (and over R its result is not below either starting value); Nelder-Mead keeps "
              "y[i] = f(simplex[i]) in every iteration, its best value never increases, and on return fmin = y[0] = f(returned point) = f(simplex[0]), y[0] <= every y[i] and "
              "<= f at every initial vertex; the two convenience overloads build the stated simplex (and reject mismatched lengths); a call on a Minimization object in ANY state "
              "gives the answer of a fresh object, and so does every call of a run of calls on one object (call history: mpts, ndim, simplex, y are assigned before they are read, nfunc is reset); "
              "a call whose by-reference arguments are public members of objects (m.current_simplex, a row of it, m.y, the starting vector also as displacements, members of other objects) gives the answer of a fresh object on the "
              "values the members held, and the restart idioms minimize(m.current_simplex, f), minimize(m.current_simplex[0], deltas|delta, f) never end above the fmin of the call they restart from. "
              "a call with the caller's own arguments gives the same answer in any two states of all the objects - whatever the caller wrote into the public members (nfunc, mpts, ndim, fmin, y, current_simplex) "
              "and whatever an abandoned call (objective threw) left there -, minimize(m.current_simplex, f) after the caller assigned s to m.current_simplex and anything to the other members is the fresh answer on s, "
              "and a call abandoned at the objective's n-th evaluation has asked for exactly the first n points of the completed call's trace, which begins with the rows of the stated simplex. "
              "Nelder-Mead, further (abstract number type): every call of every overload terminates - it returns or stops at NMAX; the model's fuel is never exhausted, for every objective, NaN values included "
              "(C11_minimize_terminates, from C11_nm_iter_nfunc: the loop continues only while nfunc < NMAX and every pass adds 1..2+ndim to nfunc); on ndim+1 vertices (always so for the two convenience overloads) the objective "
              "has been evaluated exactly mpts + nfunc times when the call returns and 0 <= nfunc <= NMAX+1+ndim (C11_minimize_nfunc_counts_evaluations, C11_minimize_deltas_nfunc_counts_evaluations); a returned simplex has a highest reported "
              "vertex value whose fractional range 2|y_hi - fmin|/(|y_hi| + |fmin| + 1e-10), as the code computes it, is below ftol (C11_minimize_returns_within_ftol); over the reals, in absolute terms: "
              "2(y_hi - fmin) < ftol(|y_hi| + |fmin| + 1e-10), and when the reported values have both signs (fmin <= 0 <= y_hi, objectives with a negative minimum value) and ftol <= 1 then y_hi - fmin < 1e-10 - extreme values of "
              "opposite sign and equal magnitude never end a run (C11_minimize_returns_within_ftol_signed). "
              "One-dimensional convergence, over the reals (the real-number instance of the same model, no rounding): for EVERY strictly unimodal objective (falls strictly up to xs, rises strictly after), every two distinct starting abscissae and "
              "every tolerance >= 0, Bracket ends with bx strictly between ax and cx and the minimiser between ax and cx (C11_bracket_encloses_minimiser); every pass of Brent keeps the current point and the minimiser inside [a,b] - the parabolic, golden-section "
              "and minimal-step trial points all lie in [a,b] and differ from x (C11_brent_step_keeps_minimiser); hence whenever Find_Minimum returns, |x_min - xs| <= 2*(tol*|x_min| + 2^-52) (C11_find_minimum_converges_unimodal), "
              "and likewise Find_Maximum on strictly unimodal humps (C11_find_maximum_converges_unimodal). "
              "The returned point against every evaluation (abstract number type, order laws only; all objectives without NaN values): Minimization::minimize (all three overloads) returns fmin <= f(p) for EVERY point p at which the objective was "
              "evaluated in the call - rejected reflections, expansions, contractions and all shrink vertices included (C11_minimize_best_of_all_evaluated; induction over the iterations with the invariant 'every recorded point has a current vertex value below its value'), "
              "and the returned point and every vertex of the reported simplex are points at which the objective was evaluated in this call (C11_minimize_reports_evaluated_points); Brent::Minimize evaluates 1..100 points, x_min is one of them and f_min = f(x_min) is "
              "the least value among them (C11_brent_best_of_evaluated); Find_Minimum's evaluations are Bracket's followed by Brent's, x_min is one of Brent's and not worse than any of them (C11_find_minimum_best_of_brent_points; for Find_Maximum over the reals: C11_find_maximum_best_of_brent_points), and they begin with xLeft, xRight and the "
              "golden-section point beyond the lower of the two (C11_find_minimum_evaluations_start). These statements were S4 predicates only before (best-of-all-evaluations, vertex-was-evaluated, returned-evaluated, trace); they remain S4 predicates on the implementation. "
              "REFUTED, hence not claimed: 'Find_Minimum's result is not worse than every point it evaluated' (C11_find_minimum_best_of_all_evaluated_refuted, witness on the integer instance): Bracket's early return 'fu > fb: cx = u; return' drops the old cx where a value "
              "below f(bx) had been seen, and Brent searches [ax,u] only. Replayed on the C++ in doubles: f = 3 for x < 0.5, 1 on (0.9,1.1), 0.9 for x > 2.5, 5 elsewhere; Find_Minimum(f, 0, 1, 1e-6) evaluates f(2.618034) = 0.9 and returns x = 0.9715 with f = 1. "
              "This is not a violation of the property (which speaks of the two initial abscissae: 3 and 1). "
              "Seventh pass. Over the reals, for EVERY objective (multimodal, discontinuous): Brent::Minimize never leaves its bracket - each trial point lies in the current [a,b] and differs from x, [a,b] only shrinks, "
              "and the returned point and all of Brent's evaluations lie between the outer abscissae of the bracket (C11_brent_step_shrinks_bracket, C11_brent_stays_in_bracket, C11_find_minimum_in_bracket). "
              "Nelder-Mead geometry over the reals: psum holds the column sums of the simplex on entry and after every pass of the loop (C11_psum_initial, C11_psum_is_column_sum_in_every_pass: the incremental update in amotry and the recomputation after a shrink), "
              "so the trial points are c + fac*(p_hi - c) with c the centroid of the other vertices - reflection for -1, expansion for 2, contraction for 0.5 (C11_amotry_trial_point, C11_amotry_reflects_about_centroid). "
              "The default tolerance 3e-8 of Find_Minimum / Find_Maximum is a model term (default_tol) compared on every run; calls without a tolerance converge on strictly unimodal objectives within 2*(3e-8*|x| + 2^-52) (C11_find_minimum_default_converges, C11_find_maximum_default_converges; reals). "
              "T-tie: Sign(double) and Sign(double,double), the only straight-line callees of Bracket and Brent::Minimize, are translated from the source on every run and proved equal to the model's sign1 / sign2 (C11_generated_Sign_is_model, C11_generated_Sign2_is_model, C11_bracket_u_uses_generated_Sign). "
              "The Brent containment and the Nelder-Mead geometry are theorems about the real-number instance only (with rounding psum drifts from the column sums and a trial point can land one ulp outside [a,b]); on the implementation they are covered by the bit-for-bit comparison of the evaluation traces, there is no separate S4 predicate. "
              "NOT theorems: convergence of Nelder-Mead to the minimiser of a quadratic bowl within the tolerance (no such theorem exists for the method); the 1-D distance bound under rounding (the real-number theorem does not speak about objectives that are flat in doubles "
              "around the minimiser: S4 adds the objective's resolution to the bound); termination of the bracketing loop (no cap in the source) and that Brent does not hit ITMAX. "
              "These clauses are decided on the implementation (S4) on the quantifier's classes: quadratic bowls with condition number up to 1e4 in 1..6 dimensions, quartic-flat, "
              "cosh-like, Morse and Lennard-Jones-like 1-D wells, random starts, scales 1e-3..1e3, tolerances 1e-3..1e-12, with the a-priori distance bounds written next to the predicates; "
              "descent and consistency are also replayed exactly (bit for bit, the objective re-evaluated in Python) on multimodal sin/cos mixtures. "
              "Also driven: quadratic bowls whose values change sign inside the simplex (negative minimum value; the extreme vertex values of opposite sign and equal magnitude exactly and at relative distances 1e-16..1e-1, "
              "one extreme value zero, the zero level anywhere in or near the simplex, at the start or at the 1st..34th iteration, as single calls of all three overloads and as calls within runs on shared objects; S4 evaluates the fractional range of the reported values itself); 1-D bowls whose values overflow to +inf at visited points (far starts, steep bowls, repulsive walls); runs of 2..60 calls on shared objects "
              "(every answer compared with a fresh object's, evaluation counts passing NMAX); runs in which the arguments are the objects' own or another object's public members, passed by reference "
              "(aliasing: the restart from the reported simplex / reported point, y or the starting vector as displacements) or copied, judged on the values the members held when the call started; runs in which the caller overwrites y (stale, 'better than possible', infinite values, other lengths), current_simplex (the very simplex of the next request) "
              "and nfunc/mpts/ndim/fmin (counters at NMAX, sizes of another problem) between calls, runs in which a call is abandoned by a throwing objective (at every vertex of the initial loop and 1..60 evaluations into the iteration) "
              "and the object is used again (the retry, the same arguments with another objective, restarts), every later call judged by all clauses and against a fresh object; profiled objectives F(x) = min_z g(x,z) whose evaluation runs Nelder-Mead "
              "(fresh or reused inner object) or Find_Minimum inside the outer run (re-entrancy), judged on the values the objective returned during and after the run.")
LEVEL_NOTE = ("coverage/C11.md lists function by function what is modelled line by line, by specification, or not at all; Gen_C11_Formulas.v (Sign, Sign(x,y)) is regenerated from src/Special_Functions.cpp by tools/cxx2gallina.py on every run, "
              "the tie lemmas carry the premise that the literals 0.0 and 1.0 are the constants 0 and 1 of the number instance (proved for the reals); "
              "Coq 8.16.1 kernel; order-theoretic theorems are axiom-free (OrdLaws: total order on the objective's values, i.e. NaN-free objectives); find_maximum_not_worse and the four 1-D convergence theorems are over R (standard real-number axioms, "
              "literals 1.618034, 0.3819660, 100.0, 2^-52 at their exact values; premise: the run returns); C11_nm_iter_nfunc and C11_minimize_terminates need no order law; "
              "hand-written model tied by differential correspondence including the full evaluation traces (bit-identical expected); the bracketing loop of the source has no iteration cap "
              "(model fuel 1000 -> FUEL), Brent's ITMAX = 100 and Nelder-Mead's NMAX = 5000 exits are modelled as EXIT; "
              "the model of minimize(pp) covers rectangular simplices with >= 2 vertices (others: out-of-bounds reads, not generated); "
              "arguments are values in the model: a by-reference argument that is a member contributes the value the member has when the call starts (C11_Model.v 3.3b says why the code behaves so; "
              "the harness passes the members themselves and the correspondence check compares); "
              "the state an abandoned call leaves in the object is not modelled (objs_abandon takes it as an argument; the theorems hold for every state): the case language does not refer to the members of an object "
              "between an abandoned call and its next returned call; that a C++ exception thrown by the objective passes through minimize without other effects is trusted (it holds only std::vector locals)")
TOL = (1e-12, 0.0)
TRUSTED = ["objective values are assumed NaN-free in the theorems (a total order); generated objectives are finite on the explored region",
           "S4 re-evaluates the objective in Python with the same libm (math.sin/cos/exp/cosh/log/pow) to compare reported values bit for bit"]
ASSUMPTIONS = ["'within the distance implied by the tolerance' is made precise next to each predicate in checks/C11.py (Brent: final bracket half-width 2*(tol*|x|+2^-52) plus the "
               "resolution of the objective in doubles; Nelder-Mead: value excess of the returned vertex bounded by the achieved spread, converted by the smallest curvature)"]


# ------------------------------------------------------------------ fexpr helpers (builder + evaluator)
def C(x): return f"c {hx(x)}"


def parse(tokens, p=0):
    """prefix expression -> (python closure over the variable vector, next position)"""
    o = tokens[p]
    if o in ("x", "y", "z"):
        k = "xyz".index(o); return (lambda v: v[k]), p + 1
    if o == "v":
        k = int(tokens[p + 1]); return (lambda v: v[k]), p + 2
    if o == "c":
        t = tokens[p + 1]; cst = {"nan": math.nan, "inf": math.inf, "-inf": -math.inf}.get(t); cst = float.fromhex(t) if cst is None else cst
        return (lambda v: cst), p + 2
    if o in "+-*/" and len(o) == 1:
        a, p = parse(tokens, p + 1); b, p = parse(tokens, p)
        if o == "+": return (lambda v: a(v) + b(v)), p
        if o == "-": return (lambda v: a(v) - b(v)), p
        if o == "*": return (lambda v: a(v) * b(v)), p
        def dv(v):
            x, y = a(v), b(v)
            try: return x / y
            except ZeroDivisionError: return math.nan if (x == 0 or x != x) else math.copysign(math.inf, x) * math.copysign(1.0, y)
        return dv, p
    if o == "pow":
        a, p = parse(tokens, p + 1); e = float.fromhex(tokens[p])
        def pw(v):
            try: return math.pow(a(v), e)
            except (OverflowError, ValueError, ZeroDivisionError): return math.inf
        return pw, p + 1
    fn = {"neg": lambda x: -x, "exp": lambda x: _safe(math.exp, x), "log": lambda x: math.log(x) if x > 0 else (-math.inf if x == 0 else math.nan), "sin": math.sin, "cos": math.cos,
          "atan": math.atan, "cosh": lambda x: _safe(math.cosh, x), "tanh": math.tanh, "abs": abs, "sqrt": lambda x: math.sqrt(x) if x >= 0 else math.nan, "step": lambda x: 1.0 if x >= 0 else 0.0}[o]
    a, p = parse(tokens, p + 1)
    return (lambda v: fn(a(v))), p


def _safe(g, x):
    try: return g(x)
    except OverflowError: return math.inf


def sq(e): return f"* {e} {e}"
def add(es):
    e = es[0]
    for t in es[1:]: e = f"+ {e} {t}"
    return e


# ------------------------------------------------------------------ objective classes
def obj1d(rng, kind):
    """returns (fexpr, info) with info: xstar (list of minimisers), res(tol1) -> a-priori resolution half-width"""
    s = 10 ** rng.uniform(-3, 3)                      # length scale
    c = rng.choice([0.0, 1.0, -1.0]) * s * rng.uniform(0.1, 10) if rng.random() < 0.8 else 0.0
    d = rng.choice([0.0, 0.0, 1.0, -3.0, 100.0]) * rng.choice([1.0, 10 ** rng.uniform(-3, 3)])
    A = 10 ** rng.uniform(-3, 3)
    u = f"- x {C(c)}"
    # resolution: half-width of {x : f(x) - f(x*) <= 8 u F} with F the magnitude of the terms near the minimum, plus the
    # rounding of (x - c): 4 ulp of max(|c|, |x|)
    if kind == "quadratic":
        e = f"+ * {C(A)} {sq(u)} {C(d)}"
        res = lambda X: math.sqrt(16 * EPS * abs(d) / A) + 8 * EPS * max(abs(c), abs(X))
    elif kind == "quartic":
        a4 = A / s ** 2
        e = f"+ * {C(a4)} {sq(sq(u))} {C(d)}"
        # flat bottom: besides the resolution of the values, differences of (x-c)^4 are resolved only down to |x-c| ~ ulp(c)^(1/1): keep both terms
        res = lambda X: (16 * EPS * abs(d) / a4) ** 0.25 + 8 * EPS * max(abs(c), abs(X))
    elif kind == "cosh":
        k = 1.0 / s
        e = f"+ * {C(A)} cosh * {C(k)} {u} {C(d)}"
        res = lambda X: math.sqrt(2 * 16 * EPS * (abs(d) + A) / A) / k + 8 * EPS * max(abs(c), abs(X))
    elif kind == "morse":
        k = 1.0 / s
        t = f"- {C(1.0)} exp neg * {C(k)} {u}"
        e = f"+ * {C(A)} {sq(t)} {C(d)}"
        res = lambda X: math.sqrt(16 * EPS * abs(d) / A) / k + 8 * EPS * max(abs(c), abs(X)) + 8 * EPS / k
    elif kind == "lj":
        r0 = s
        q = f"/ {C(r0)} x"
        e = f"+ * {C(A)} - pow {q} {hx(12.0)} * {C(2.0)} pow {q} {hx(6.0)} {C(d)}"
        c = r0
        # f - f* ~ 36 A ((x - r0)/r0)^2 near the minimum; value magnitude A + |d|
        res = lambda X: r0 * math.sqrt(16 * EPS * (abs(d) + 3 * A) / (36 * A)) + 8 * EPS * r0
        return e, {"kind": kind, "xstar": [r0, -r0], "res": res, "scale": s, "c": c}
    else:
        raise ValueError(kind)
    return e, {"kind": kind, "xstar": [c], "res": res, "scale": s, "c": c}


def _overflow_case(rng, tols):
    kind = rng.choice(["cosh", "cosh", "cosh", "morse", "lj"])
    for _try in range(50):
        e, info = obj1d(rng, kind)
        s = info["scale"]; c = info["c"]
        f = parse(e.split())[0]
        if kind == "cosh":
            r = rng.random()
            if r < 0.5:      # both starts far out (cosh overflows beyond 710 length scales)
                xl = c + rng.choice([-1, 1]) * s * rng.uniform(30, 705); xr = c + rng.choice([-1, 1]) * s * rng.uniform(30, 705)
            elif r < 0.8:    # near start, step of tens to hundreds of length scales
                xl = c + s * rng.uniform(-8, 8); xr = xl + rng.choice([-1, 1]) * s * 10 ** rng.uniform(1, 3)
            else:            # geometric ladder towards the overflow threshold
                xl = c + rng.choice([-1, 1]) * s * 710.0 * (1 - 10 ** rng.uniform(-6, -0.3)); xr = xl + rng.choice([-1, 1]) * s * 10 ** rng.uniform(-3, 3)
        elif kind == "morse":   # exp(-k u) overflows for u < -709 s (its square beyond -355 s)
            xl = c - s * rng.choice([rng.uniform(10, 354), rng.uniform(354, 709), 10 ** rng.uniform(0, 2.85)]); xr = xl + rng.choice([-1, 1]) * s * 10 ** rng.uniform(-3, 2.5)
        else:                   # (r0/x)^12 overflows for x < 2e-26 r0
            xl = c * 10 ** rng.uniform(-27, -0.3); xr = xl * (1 + rng.choice([-1, 1]) * 10 ** rng.uniform(-3, -0.1)) if rng.random() < 0.5 else c * 10 ** rng.uniform(-27, 0.5)
        if xl == xr or math.isinf(xl) or math.isinf(xr): continue
        fl, fr = f([xl, 0.0, 0.0]), f([xr, 0.0, 0.0])
        if math.isfinite(fl) and math.isfinite(fr): break
    tol = rng.choice(tols)
    if rng.random() < 0.25:
        return Case(f"fpair {hx(xl)} {hx(xr)} {hx(tol)} * {C(-1.0)} {e}", ("fpair", kind, "overflow"), info=dict(info, tol=tol, neg=True, region="overflow"))
    return Case(f"fmin {hx(xl)} {hx(xr)} {hx(tol)} {e}", ("fmin", kind, "overflow"), info=dict(info, tol=tol, region="overflow"))


def multimodal1d(rng):
    s = 10 ** rng.uniform(-2, 2)
    ts = []
    for _ in range(rng.randint(2, 4)):
        ts.append(f"* {C(rng.uniform(-2, 2))} {rng.choice(['sin', 'cos'])} * {C(rng.uniform(0.2, 5) / s)} x")
    if rng.random() < 0.6: ts.append(f"* {C(rng.uniform(0.001, 0.1) / s ** 2)} * x x")
    return add(ts), s


def quad_nd(rng, n):
    """sum_i lam_i (u_i . (v - c))^2 + d with random (non-orthogonalised but well conditioned) directions; minimiser c, minimum d"""
    s = 10 ** rng.uniform(-3, 3)
    kappa = 10 ** rng.uniform(0, 4)
    lam = [kappa ** (i / (n - 1)) if n > 1 else 1.0 for i in range(n)]
    rng.shuffle(lam)
    a = 10 ** rng.uniform(-2, 2) / s ** 2
    lam = [a * l for l in lam]
    # orthonormal directions by Gram-Schmidt on random vectors (floating point; exact orthogonality is not needed)
    U = []
    while len(U) < n:
        w = [rng.gauss(0, 1) for _ in range(n)]
        for u in U:
            dp = sum(x * y for x, y in zip(w, u)); w = [x - dp * y for x, y in zip(w, u)]
        nr = math.sqrt(sum(x * x for x in w))
        if nr > 1e-3: U.append([x / nr for x in w])
    if rng.random() < 0.3: U = [[1.0 if i == j else 0.0 for j in range(n)] for i in range(n)]
    c = [rng.choice([0.0, s * rng.uniform(-3, 3)]) for _ in range(n)]
    d = rng.choice([0.0, 0.0, 1.0, -2.0, 50.0]) * rng.choice([1.0, a * s * s])
    terms = []
    for l, u in zip(lam, U):
        lin = add([f"* {C(uj)} - v {j} {C(cj)}" for j, (uj, cj) in enumerate(zip(u, c)) if uj != 0.0] or [C(0.0)])
        terms.append(f"* {C(l)} {sq(lin)}")
    e = f"+ {add(terms)} {C(d)}"
    return e, {"c": c, "d": d, "mu": 2 * min(lam) * 0.98, "lmax": 2 * max(lam) * 1.02, "scale": s, "kappa": kappa, "q": add(terms)}


def _nm_sim(f, pp, kmax):
    """a plain Nelder-Mead (reflect -1, expand 2, contract 0.5, shrink towards the best vertex) WITHOUT any termination test, used by the generator only
    to learn which vertex values a run sees at the top of its k-th iteration; returns (simplex, values, ihi, ilo) there"""
    p = [list(r) for r in pp]; m = len(p); n = len(p[0]); y = [f(r) for r in p]
    psum = [sum(p[i][j] for i in range(m)) for j in range(n)]

    def amotry(ihi, fac):
        fac1 = (1.0 - fac) / n; fac2 = fac1 - fac
        pt = [psum[j] * fac1 - p[ihi][j] * fac2 for j in range(n)]
        yt = f(pt)
        if yt < y[ihi]:
            y[ihi] = yt
            for j in range(n): psum[j] += pt[j] - p[ihi][j]; p[ihi][j] = pt[j]
        return yt
    for it in range(kmax + 1):
        ilo = 0
        ihi, inhi = (0, 1) if y[0] > y[1] else (1, 0)
        for i in range(m):
            if y[i] <= y[ilo]: ilo = i
            if y[i] > y[ihi]: inhi = ihi; ihi = i
            elif y[i] > y[inhi] and i != ihi: inhi = i
        if it == kmax or y[ihi] == y[ilo] or not all(math.isfinite(t) for t in y): break
        yt = amotry(ihi, -1.0)
        if yt <= y[ilo]: amotry(ihi, 2.0)
        elif yt >= y[inhi]:
            ys = y[ihi]
            if amotry(ihi, 0.5) >= ys:
                for i in range(m):
                    if i != ilo:
                        p[i] = [0.5 * (p[i][j] + p[ilo][j]) for j in range(n)]; y[i] = f(p[i])
                psum = [sum(p[i][j] for i in range(m)) for j in range(n)]
    return p, y, ihi, ilo


EPS_LADDER = [0.0, 1e-16, 1e-15, 1e-14, 1e-13, 1e-12, 1e-11, 1e-10, 1e-9, 1e-8, 1e-7, 1e-6, 1e-5, 1e-4, 3e-4, 1e-3, 3e-3, 1e-2, 1e-1]


def signed_bowl_case(rng, tols):
    op, args, e, info, tags = signed_bowl_request(rng)
    ftol = rng.choice(tols)
    return Case(f"{op} {hx(ftol)} {args} {e}", (op,) + tags, info=dict(info, ftol=ftol))


def signed_bowl_request(rng):
    """strictly convex quadratic bowls whose VALUES change sign: the minimum value is negative and the zero level set runs through (or near) the simplex
    at the top of the run's k-th iteration, k on a ladder from the start to tens of iterations in.  The termination test is a FRACTIONAL range
    2|y_hi - y_lo| / (|y_hi| + |y_lo| + TINY); its numerator and denominator behave differently from the all-positive case exactly here.
      symmetric : y_hi = -y_lo(1 + eps) at iteration k, eps = 0 (exactly, where an offset with that property exists in doubles) and on a geometric
                  ladder 1e-16 .. 1e-1 of both signs (the extreme values have equal magnitudes to eps: fractional range 2, difference of magnitudes eps)
      one-zero  : y_lo = 0 or y_hi = 0 (to eps) at iteration k
      straddle  : the zero level anywhere between the extreme values (or just outside them)
      deep      : the minimum value is negative and 1e-3 .. 1e3 times the initial spread below the start values (all values negative from some iteration on)
    'dyadic' variants use power-of-two curvatures, axis directions and dyadic coordinates, so that the values and the symmetric offset are exact."""
    n = rng.choice([1, 2, 2, 3, 3, 4, 5, 6])
    dyadic = rng.random() < 0.3
    if dyadic:
        s = 2.0 ** rng.randint(-9, 9); lam = [2.0 ** rng.randint(-3, 3) / (s * s) for _ in range(n)]
        c = [rng.choice([0.0, s * rng.randint(-12, 12) / 4]) for _ in range(n)]
        terms = [f"* {C(l)} {sq(f'- v {j} {C(cj)}')}" for j, (l, cj) in enumerate(zip(lam, c))]
        info = {"c": c, "mu": 2 * min(lam) * 0.98, "lmax": 2 * max(lam) * 1.02, "scale": s, "kappa": max(lam) / min(lam), "q": add(terms)}
        start = [cj + s * rng.randint(-40, 40) / 8 for cj in c]
        delta = s * 2.0 ** rng.randint(-4, 4) * rng.choice([-1, 1])
        dmul = lambda: 2.0 ** rng.randint(-2, 2) * rng.choice([-1, 1]); jit = lambda: rng.randint(-8, 8) / 8
    else:
        _e, info = quad_nd(rng, n); s = info["scale"]
        start = [cj + s * 10 ** rng.uniform(-1, 1.5) * rng.gauss(0, 1) for cj in info["c"]]
        delta = s * 10 ** rng.uniform(-2, 2) * rng.choice([-1, 1])
        dmul = lambda: 10 ** rng.uniform(-1, 1) * rng.choice([-1, 1]); jit = lambda: rng.gauss(0, 1)
    op = rng.choice(["nm1", "nmd", "nm"])
    if op == "nm1":
        ds = [delta] * n; pp = [list(start)] + [[x + ds[i] if j == i else x for j, x in enumerate(start)] for i in range(n)]; args = f"{flist(start)} {hx(delta)}"
    elif op == "nmd":
        ds = [delta * dmul() for _ in range(n)]; pp = [list(start)] + [[x + ds[i] if j == i else x for j, x in enumerate(start)] for i in range(n)]; args = f"{flist(start)} {flist(ds)}"
    else:
        pp = [[x + abs(delta) * jit() for x in start] for _ in range(n + 1)]; args = table(pp)
    q = parse(info["q"].split())[0]
    k = rng.choice([0, 0, 0, 0, 1, 1, 2, 3, 5, 8, 13, 21, 34])
    p, y, ihi, ilo = _nm_sim(q, pp, k)
    qhi, qlo = y[ihi], y[ilo]; h = 0.5 * (qhi - qlo); mid = 0.5 * (qhi + qlo)
    mode = rng.choice(["symmetric", "symmetric", "symmetric", "one-zero", "straddle", "deep"])
    eps = rng.choice(EPS_LADDER) * rng.choice([-1, 1])
    if mode == "symmetric":
        d = -mid + 0.5 * eps * h
        if eps == 0.0:
            # an offset with fl(q_hi + d) == -fl(q_lo + d), when one exists within a few ulp
            cand = [d]
            for _ in range(4): cand = cand + [math.nextafter(cand[-1], math.inf)]
            for _ in range(4): cand = [math.nextafter(cand[0], -math.inf)] + cand
            for dd in sorted(cand, key=lambda t: abs(t - d)):
                fd = parse(f"+ {info['q']} {C(dd)}".split())[0]
                if fd(p[ihi]) == -fd(p[ilo]): d = dd; break
    elif mode == "one-zero":
        d = -(qlo if rng.random() < 0.5 else qhi) * (1 + eps)
    elif mode == "straddle":
        d = -(qlo + rng.uniform(-0.5, 1.5) * (qhi - qlo))
    else:
        d = -(y[0] + 10 ** rng.uniform(-3, 3) * max(2 * h, abs(y[0]) * 1e-3))
    if not math.isfinite(d): d = -1.0
    info = dict(info, d=d, n=n)
    return op, args, f"+ {info['q']} {C(d)}", info, ("bowl-signed-values", f"dim{n}", mode, "iteration0" if k == 0 else "later-iteration") + (("dyadic",) if dyadic else ())


def multimodal_nd(rng, n):
    s = 10 ** rng.uniform(-1, 1)
    ts = []
    for _ in range(rng.randint(2, 5)):
        j = rng.randrange(n); k = rng.randrange(n)
        ts.append(f"* {C(rng.uniform(-2, 2))} {rng.choice(['sin', 'cos'])} + * {C(rng.uniform(0.2, 3) / s)} v {j} * {C(rng.uniform(-1, 1) / s)} v {k}")
    for j in range(n):
        if rng.random() < 0.7: ts.append(f"* {C(rng.uniform(0.01, 0.3) / s ** 2)} * v {j} v {j}")
    return add(ts), s


def table(rows): return f"{len(rows)} " + " ".join(flist(r) for r in rows)


def _nm_request(rng, n, e, info, kinds=("nm1", "nmd", "nm")):
    """one request (text without the tolerance) for a bowl from quad_nd"""
    s = info["scale"]
    start = [cj + s * 10 ** rng.uniform(-1, 1.5) * rng.gauss(0, 1) for cj in info["c"]]
    delta = s * 10 ** rng.uniform(-2, 2) * rng.choice([-1, 1])
    k = rng.choice(kinds)
    if k == "nm1": return f"nm1 {flist(start)} {hx(delta)} {e}"
    if k == "nmd": return f"nmd {flist(start)} {flist([delta * 10 ** rng.uniform(-1, 1) * rng.choice([-1, 1]) for _ in range(n)])} {e}"
    return f"nm {table([[x + abs(delta) * rng.gauss(0, 1) for x in start] for _ in range(n + 1)])} {e}"


def seq_case(rng, long_run):
    """call history: several calls in one process on one or several Minimization objects, 1-D calls in between.
    long_run: one object takes so many calls that their evaluation counts add up to one to three times NMAX = 5000."""
    tols = [1e-4, 1e-6, 1e-8, 1e-10, 1e-12]
    if long_run:
        nobj = rng.choice([1, 1, 2]); ftols = [rng.choice([1e-8, 1e-10, 1e-12]) for _ in range(nobj)]
        ncalls = rng.randint(28, 60); dims = [rng.choice([3, 4, 5])] * ncalls if rng.random() < 0.5 else [rng.choice([2, 3, 4, 5, 6]) for _ in range(ncalls)]
    else:
        nobj = rng.choice([1, 1, 2, 3]); ftols = [rng.choice(tols) for _ in range(nobj)]
        ncalls = rng.randint(2, 6); dims = [rng.choice([1, 2, 3, 4, 6]) for _ in range(ncalls)]
        if rng.random() < 0.3: dims.sort(reverse=True)                     # larger, then smaller requests
    calls = []; infos = []; prev = None; signed = False
    for k in range(ncalls):
        r = rng.random()
        if prev is not None and r < 0.2:                                   # the identical request again, on the same or on another object
            txt, info, ob = prev
            ob = ob if rng.random() < 0.5 else rng.randrange(nobj)
            calls.append(f"{ob} {txt}"); infos.append(dict(info, ftol=ftols[ob])); continue
        if not long_run and r < 0.35:                                      # a 1-D call in between
            kind = rng.choice(["quadratic", "cosh", "lj"]); e, info = obj1d(rng, kind)
            sc = info["scale"]; cc = info["c"]
            xl = cc * rng.uniform(0.75, 2.5) if kind == "lj" else cc + sc * rng.uniform(-8, 8)
            xr = cc * rng.uniform(0.75, 2.5) if kind == "lj" else xl + rng.choice([-1, 1]) * sc * 10 ** rng.uniform(-3, 0.5)
            if xl == xr: xr = xl + sc
            calls.append(f"-1 fmin {hx(xl)} {hx(xr)} {hx(rng.choice(tols))} {e}"); infos.append(info); continue
        ob = rng.randrange(nobj)
        if rng.random() < 0.2:                                             # a bowl whose values change sign inside the simplex (see signed_bowl_request)
            op, args, e, info, _tags = signed_bowl_request(rng); txt = f"{op} {args} {e}"; signed = True
        else:
            n = dims[k]; e, info = quad_nd(rng, n)
            txt = _nm_request(rng, n, e, info)
            info = dict(info, n=n)
        calls.append(f"{ob} {txt}"); infos.append(dict(info, ftol=ftols[ob])); prev = (txt, info, ob)
    line = f"seq {nobj} {' '.join(hx(t) for t in ftols)} {len(calls)} " + " ".join(calls)
    return Case(line, ("seq", "long-history" if long_run else "short-history", f"objects{nobj}") + (("signed-values-call",) if signed else ()), info={"calls": infos})


def _vsrc_txt(v):
    if v[0] == "g": return f"g {flist(v[1])}"
    if v[0] == "r": return f"r {v[1]} {v[2]} {v[3]}"
    return f"y {v[1]} {v[2]}"


def member_case(rng):
    """arguments that ARE public members of the objects (all three overloads take non-const references; y and current_simplex are public):
    minimize(m.current_simplex, f) - the restart from the reported simplex -, a row of a reported simplex as the starting point (the restart from the
    reported point), m.y or the starting vector itself as the displacements, the members of ANOTHER object, each by reference or as a copy.
    Descent, consistency and the stated initial simplex are judged on the values the members held when the call started (read from the answers of the
    earlier calls); the convergence clause only where the request has an explicit step in the quantifier's range."""
    tols = [1e-3, 1e-4, 1e-6, 1e-8, 1e-10, 1e-12]
    nobj = rng.choice([1, 1, 2, 2, 3]); ftols = [rng.choice(tols) for _ in range(nobj)]
    if nobj > 1 and rng.random() < 0.5: ftols.sort(reverse=True)             # later objects are more demanding: a hand-over continues the run
    ncalls = rng.randint(2, 6)
    n0 = rng.choice([1, 2, 2, 3, 3, 4, 5, 6])
    last = [None] * nobj                                                      # per object: (dim, mpts, objective text, info) of its last returned call
    calls = []; infos = []; kinds = set()

    def bowl(n):
        e, info = quad_nd(rng, n); return e, dict(info, n=n)

    def objective_for(n, k):
        """the objective of a call that starts from members of object k: mostly the one object k minimised last (a restart), else another one"""
        r = rng.random()
        if last[k] is not None and last[k][0] == n and r < 0.6: return last[k][2], last[k][3]
        if r < 0.85: return bowl(n)
        e, _s = multimodal_nd(rng, n); return e, {}

    for c in range(ncalls):
        have = [k for k in range(nobj) if last[k] is not None]
        ob = rng.randrange(nobj)
        r = rng.random()
        if not have or r < 0.15:
            # an ordinary request (arguments of the caller); now and then one dimension lower/higher, so that some y fits as a displacement vector
            n = n0 if rng.random() < 0.6 else max(1, min(6, n0 + rng.choice([-1, 1])))
            e, info = bowl(n)
            m = n + 1
            if rng.random() < 0.25:                                            # the starting vector itself as the displacements (one object for both arguments)
                st = [cj + info["scale"] * rng.uniform(0.2, 3) * rng.choice([-1, 1]) for cj in info["c"]]
                calls.append(f"{ob} nmdR g {flist(st)} s {e}"); infos.append(dict(info, ftol=ftols[ob], mu=None)); kinds.add("deltas=start")
            else:
                calls.append(f"{ob} {_nm_request(rng, n, e, info)}"); infos.append(dict(info, ftol=ftols[ob]))
            last[ob] = (n, m, e, info); continue
        k = ob if rng.random() < 0.6 and ob in have else rng.choice(have)     # whose members: the called object's own (aliasing) or another's
        n, m, _e, kinfo = last[k]
        byref = 1 if rng.random() < 0.75 else 0
        if r < 0.5:
            e, info = objective_for(n, k)
            calls.append(f"{ob} nmS {k} {byref} {e}"); infos.append(dict(info, ftol=ftols[ob], mu=None))
            kinds.add(("own" if k == ob else "other") + ("-simplex" if byref else "-simplex-copy"))
            last[ob] = (n, m, e, info); continue
        # a vector member as the starting point: a row of a reported simplex (row 0 = the reported point), or y (a vector of mpts numbers)
        if rng.random() < 0.85:
            i = 0 if rng.random() < 0.5 else rng.randrange(m)
            st = ("r", k, i, byref); nd = n; kinds.add(("own" if k == ob else "other") + "-row")
        else:
            st = ("y", k, byref); nd = m; kinds.add("y-as-start")
        if nd > 6: nd = None
        if nd is None: continue
        e, info = objective_for(nd, k) if st[0] == "r" else bowl(nd)
        sc = info.get("scale", 1.0)
        q = rng.random()
        if q < 0.45:
            delta = sc * 10 ** rng.uniform(-2, 2) * rng.choice([-1, 1])
            calls.append(f"{ob} nm1R {_vsrc_txt(st)} {hx(delta)} {e}")
            infos.append(dict(info, ftol=ftols[ob]) if st[0] == "r" else dict(info, ftol=ftols[ob], mu=None))
        elif q < 0.7:
            ds = [sc * 10 ** rng.uniform(-2, 2) * rng.choice([-1, 1]) for _ in range(nd)]
            calls.append(f"{ob} nmdR {_vsrc_txt(st)} g {flist(ds)} {e}")
            infos.append(dict(info, ftol=ftols[ob]) if st[0] == "r" else dict(info, ftol=ftols[ob], mu=None))
        elif q < 0.85:
            calls.append(f"{ob} nmdR {_vsrc_txt(st)} s {e}"); infos.append(dict(info, ftol=ftols[ob], mu=None)); kinds.add("deltas=start")
        else:
            fits = [k2 for k2 in have if last[k2][1] == nd]                    # an object whose y has one entry per coordinate
            if fits:
                k2 = rng.choice(fits)
                calls.append(f"{ob} nmdR {_vsrc_txt(st)} y {k2} {1 if rng.random() < 0.75 else 0} {e}"); infos.append(dict(info, ftol=ftols[ob], mu=None)); kinds.add("deltas=y")
            else:
                # y of the wrong length: the size guard must end the process (last call of the run)
                calls.append(f"{ob} nmdR {_vsrc_txt(st)} y {k} 1 {e}"); infos.append({"guard": True}); kinds.add("deltas=y-guard")
                break
        last[ob] = (nd, nd + 1, e, info)
    line = f"seq {nobj} {' '.join(hx(t) for t in ftols)} {len(calls)} " + " ".join(calls)
    return Case(line, ("seq", "member-arguments", f"objects{nobj}") + tuple(sorted(kinds)), info={"calls": infos})


def state_case(rng):
    """what else happens to an object between two calls (each later call is judged by the clauses of a single call and against a fresh object):
    (a) the caller writes the public data members: y (stale values, values 'better' than any the objective takes, other lengths), current_simplex (the very
        simplex of the next request, so that the object looks as if it had just run on it; other shapes), nfunc / mpts / ndim / fmin (counters at and
        beyond NMAX, sizes of another problem);
    (b) a call is abandoned: the objective throws at its n-th evaluation (n on a ladder from the first vertex to tens of evaluations into the iteration),
        the caller catches and uses the object again - the identical request once more (the retry), the same arguments with another objective,
        the restart from the reported simplex after stale values were written, or an unrelated request;
    (c) the same arguments (simplex / starting point / steps) with ANOTHER objective on the same object."""
    tols = [1e-3, 1e-4, 1e-6, 1e-8, 1e-10, 1e-12]
    nobj = rng.choice([1, 1, 1, 2]); ftols = [rng.choice(tols) for _ in range(nobj)]
    calls = []; infos = []; kinds = set()
    known = [None] * nobj       # (n, m, objective text, info) when the members of the object are known (it returned from a call / its simplex was written)
    lastreq = [None] * nobj     # (argument text without objective, n, objective text, info) of the last request made on the object
    n0 = rng.choice([1, 2, 2, 3, 3, 4, 5, 6])

    def bowl(n):
        e, info = quad_nd(rng, n); return e, dict(info, n=n)

    def other_objective(n):
        if rng.random() < 0.75: return bowl(n)
        e, _s = multimodal_nd(rng, n); return e, {}

    def args_for(n, e, info):
        """argument text (without objective) of a fresh request and, for the general interface, its table"""
        sc = info["scale"]
        start = [cj + sc * 10 ** rng.uniform(-1, 1.5) * rng.gauss(0, 1) for cj in info["c"]]
        delta = sc * 10 ** rng.uniform(-2, 2) * rng.choice([-1, 1])
        k = rng.choice(["nm1", "nmd", "nm", "nm"])
        if k == "nm1": return f"nm1 {flist(start)} {hx(delta)}", None
        if k == "nmd": return f"nmd {flist(start)} {flist([delta * 10 ** rng.uniform(-1, 1) * rng.choice([-1, 1]) for _ in range(n)])}", None
        pp = [[x + abs(delta) * rng.gauss(0, 1) for x in start] for _ in range(n + 1)]
        return f"nm {table(pp)}", pp

    def emit(ob, argtxt, n, e, info, nab=0, conv=True):
        pre = f"ab {nab} " if nab else ""
        calls.append(f"{ob} {pre}{argtxt} {e}")
        infos.append(dict(info, ftol=ftols[ob]) if conv else dict(info, ftol=ftols[ob], mu=None))
        lastreq[ob] = (argtxt, n, e, info)
        known[ob] = None if nab else (n, n + 1, e, info)

    def garbage_y(m, ob):
        r = rng.random()
        L = m if r < 0.7 else rng.choice([0, max(0, m - 1), m + 1, m + 3])
        q = rng.random()
        if q < 0.3: return [0.0] * L
        if q < 0.55: return [-10 ** rng.uniform(0, 300)] * L                 # 'better' than any value of the objective
        if q < 0.7: return [-math.inf] * L
        if q < 0.85: return [rng.gauss(0, 1) * 10 ** rng.uniform(-3, 3) for _ in range(L)]
        return [math.inf] * L

    for _step in range(rng.randint(3, 7)):
        ob = rng.randrange(nobj)
        n = n0 if rng.random() < 0.7 else rng.choice([1, 2, 3, 4, 5, 6])
        r = rng.random()
        if lastreq[ob] is None or r < 0.12:
            e, info = bowl(n); a, _pp = args_for(n, e, info); emit(ob, a, n, e, info); continue
        a0, nl, el, il = lastreq[ob]
        if r < 0.40:
            # ---- an abandoned call, then what a caller does next with the object
            if rng.random() < 0.5: e, info = bowl(n); a, _pp = args_for(n, e, info)
            else: a, n, e, info = a0, nl, el, il                                # the request made before, abandoned this time
            m = n + 1
            q = rng.random()
            nab = rng.randint(1, m) if q < 0.45 else m + 1 if q < 0.6 else m + rng.choice([2, 3, 4, 6, 9, 14, 22, 35, 60])
            emit(ob, a, n, e, info, nab=nab); kinds.add("abandoned-in-initial-loop" if nab <= m else "abandoned-in-iteration")
            q = rng.random()
            if q < 0.5: emit(ob, a, n, e, info); kinds.add("retry")             # the identical request once more
            elif q < 0.75:
                e2, info2 = other_objective(n); emit(ob, a, n, e2, dict(info2, n=n) if info2 else {}, conv=False); kinds.add("same-arguments-other-objective")
            continue
        if r < 0.55:
            # ---- the same arguments with another objective
            e2, info2 = other_objective(nl); emit(ob, a0, nl, e2, dict(info2, n=nl) if info2 else {}, conv=False); kinds.add("same-arguments-other-objective"); continue
        # ---- the caller writes members, then calls
        q = rng.random()
        if q < 0.45:
            # the object is made to look as if it had just run on the simplex of the next request
            e, info = bowl(n); sc = info["scale"]
            start = [cj + sc * 10 ** rng.uniform(-1, 1.5) * rng.gauss(0, 1) for cj in info["c"]]
            pp = [[x + sc * 10 ** rng.uniform(-2, 2) * rng.gauss(0, 1) for x in start] for _ in range(n + 1)]
            calls.append(f"{ob} putS {table(pp)}"); infos.append({})
            if rng.random() < 0.8: calls.append(f"{ob} putY {flist(garbage_y(n + 1, ob))}"); infos.append({})
            if rng.random() < 0.4:
                calls.append(f"{ob} putN {rng.choice([0, 4998, 4999, 5000, 5001, 2147483647, -3])} {rng.choice([n + 1, n + 1, 0, 1, 99])} {rng.choice([n, n, 0, 7])} {hx(rng.choice([0.0, -1e300, -math.inf, math.inf]))}"); infos.append({})
            kinds.add("written-simplex")
            if rng.random() < 0.5: emit(ob, f"nm {table(pp)}", n, e, info)                       # the caller's own (equal) table
            else:
                known[ob] = (n, n + 1, e, info); byref = 1 if rng.random() < 0.6 else 0       # ... or the member itself / a copy of it
                calls.append(f"{ob} nmS {ob} {byref} {e}"); infos.append(dict(info, ftol=ftols[ob])); lastreq[ob] = (f"nm {table(pp)}", n, e, info)
            continue
        # writes to y / the scalar members while the object holds the result of a returned call, then the restart idioms or an ordinary request
        if known[ob] is None:
            e, info = bowl(n); a, _pp = args_for(n, e, info); emit(ob, a, n, e, info); continue
        nk, mk, ek, ik = known[ob]
        if rng.random() < 0.85: calls.append(f"{ob} putY {flist(garbage_y(mk, ob))}"); infos.append({}); kinds.add("written-y")
        if rng.random() < 0.5:
            calls.append(f"{ob} putN {rng.choice([0, 4998, 4999, 5000, 5001, 2147483647, -3])} {rng.choice([mk, 0, 1, 99])} {rng.choice([nk, 0, 7])} {hx(rng.choice([0.0, -1e300, -math.inf, math.inf]))}"); infos.append({}); kinds.add("written-counters")
        q = rng.random()
        if q < 0.6:
            e2, info2 = (ek, ik) if rng.random() < 0.5 else other_objective(nk)
            byref = 1 if rng.random() < 0.6 else 0
            calls.append(f"{ob} nmS {ob} {byref} {e2}"); infos.append(dict(info2, ftol=ftols[ob], mu=None)); kinds.add("restart-after-write")
            known[ob] = (nk, mk, e2, info2)      # (lastreq keeps the caller's arguments of the earlier request)
        elif q < 0.8:
            calls.append(f"{ob} nm1R r {ob} 0 {1 if rng.random() < 0.6 else 0} {hx(ik.get('scale', 1.0) * 10 ** rng.uniform(-2, 2) * rng.choice([-1, 1]))} {ek}")
            infos.append(dict(ik, ftol=ftols[ob])); kinds.add("restart-after-write"); known[ob] = (nk, nk + 1, ek, ik)
        else:
            e, info = bowl(n); a, _pp = args_for(n, e, info); emit(ob, a, n, e, info)
    line = f"seq {nobj} {' '.join(hx(t) for t in ftols)} {len(calls)} " + " ".join(calls)
    return Case(line, ("seq", "object-state", f"objects{nobj}") + tuple(sorted(kinds)), info={"calls": infos})


def nest_case(rng):
    """re-entrancy: the objective of the outer minimisation runs a minimisation itself, F(x) = min_z g(x, z);
    g(x, z) = sum_i lam_i (u_i.(x-a))^2 + sum_j m_j (z_j - b_j - w_j.(x-a))^2 + d is jointly strictly convex, so F(x) = q(x - a) + d."""
    outer = rng.choice(["nm1", "nm1", "nmd", "nm", "fmin"])
    inner = rng.choice(["nm1", "nm1", "fmin"])
    n = 1 if outer == "fmin" else rng.choice([1, 2, 2, 3]); k = 1 if inner == "fmin" else rng.choice([1, 2, 3])
    s = 10 ** rng.uniform(-2, 2); sz = 10 ** rng.uniform(-1, 1)
    kappa = 10 ** rng.uniform(0, 2)
    acoef = 10 ** rng.uniform(-1, 1) / s ** 2; nat = acoef * s * s
    lam = [acoef * (kappa ** (i / (n - 1)) if n > 1 else 1.0) for i in range(n)]; rng.shuffle(lam)
    U = []
    while len(U) < n:
        w = [rng.gauss(0, 1) for _ in range(n)]
        for u in U:
            dp = sum(x * y for x, y in zip(w, u)); w = [x - dp * y for x, y in zip(w, u)]
        nr = math.sqrt(sum(x * x for x in w))
        if nr > 1e-3: U.append([x / nr for x in w])
    a = [rng.choice([0.0, s * rng.uniform(-3, 3)]) for _ in range(n)]
    b = [rng.choice([0.0, sz * rng.uniform(-3, 3)]) for _ in range(k)]
    W = [[rng.choice([0.0, (sz / s) * rng.uniform(-1, 1)]) for _ in range(n)] for _ in range(k)]
    mz = [nat / sz ** 2 * 10 ** rng.uniform(-0.5, 0.5) for _ in range(k)]
    d = nat * rng.uniform(0.5, 3)
    terms = []
    for l, u in zip(lam, U):
        terms.append(f"* {C(l)} {sq(add([f'* {C(uj)} - v {j} {C(aj)}' for j, (uj, aj) in enumerate(zip(u, a))]))}")
    for j in range(k):
        shift = add([C(b[j])] + [f"* {C(W[j][i])} - v {i} {C(a[i])}" for i in range(n) if W[j][i] != 0.0])
        terms.append(f"* {C(mz[j])} {sq(f'- v {n + j} {shift}')}")
    g = f"+ {add(terms)} {C(d)}"
    ftol = rng.choice([1e-3, 1e-4, 1e-6, 1e-8])
    if inner == "nm1":
        ftol_in = rng.choice([t for t in (1e-10, 1e-12, 1e-13) if t <= ftol * 1e-4])
        z0 = [bj + sz * rng.uniform(-3, 3) for bj in b]
        itxt = f"nm1 {hx(ftol_in)} {flist(z0)} {hx(sz * 10 ** rng.uniform(-1, 0.5) * rng.choice([-1, 1]))} {rng.choice([0, 1])}"
        inner_rel = 2 * (k + 1) * ftol_in       # the inner run stops when its vertex values agree to ftol_in (same accounting as _nm_converged)
    else:
        tol_in = rng.choice([1e-8, 1e-10])
        zl = b[0] + sz * rng.uniform(-3, 3); zr = zl + rng.choice([-1, 1]) * sz * 10 ** rng.uniform(-1, 0.5)
        itxt = f"fmin {hx(zl)} {hx(zr)} {hx(tol_in)}"
        inner_rel = 64 * EPS + 4e4 * tol_in ** 2  # m (2 tol |z*|)^2 relative to F >= d: m z*^2 / F stays below 1e4 on the sampled region
    start = [aj + s * 10 ** rng.uniform(-0.5, 1) * rng.gauss(0, 1) for aj in a]
    delta = s * 10 ** rng.uniform(-1, 1) * rng.choice([-1, 1])
    info = {"c": a, "d": d, "mu": 2 * min(lam) * 0.98, "lmax": 2 * max(lam) * 1.02, "scale": s, "kappa": kappa, "ftol": ftol, "n": n, "inner_rel": inner_rel}
    if outer == "fmin":
        xl = start[0]; xr = xl + delta
        otxt = f"fmin {hx(xl)} {hx(xr)} {hx(rng.choice([1e-4, 1e-6, 3e-8]))}"
    else:
        otxt = f"{outer} {hx(ftol)} " + _nm_request(rng, n, "", dict(info), kinds=(outer,)).split(" ", 1)[1].rstrip()
    return Case(f"nest {otxt} {itxt} {g}", ("nest", f"outer-{outer}", f"inner-{inner}", f"dim{n}+{k}"), info=info)


def generate(rng, tier):
    cs = []
    big = tier != "quick"
    tols = [1e-3, 1e-4, 1e-6, 3e-8, 1e-8, 1e-10, 1e-12]
    # ---- 1-D bowls
    for _ in range(4000 if big else 500):
        kind = rng.choice(["quadratic", "quadratic", "quartic", "cosh", "morse", "lj"])
        e, info = obj1d(rng, kind)
        s = info["scale"]; c = info["c"]
        tol = rng.choice(tols)
        if kind == "lj":
            xl = c * rng.uniform(0.75, 2.5); xr = c * rng.uniform(0.75, 2.5)
        elif kind in ("cosh", "morse"):
            xl = c + s * rng.uniform(-8, 8); xr = xl + rng.choice([-1, 1]) * s * 10 ** rng.uniform(-3, 0.5)
        else:
            xl = c + rng.choice([-1, 1]) * s * 10 ** rng.uniform(-2, 2); xr = xl + rng.choice([-1, 1]) * s * 10 ** rng.uniform(-3, 3)
        if xl == xr: xr = xl + s
        r = rng.random()
        if r < 0.08:
            cs.append(Case(f"fmin_default {hx(xl)} {hx(xr)} {e}", ("fmin", kind, "default-tol"), info=dict(info, tol=3e-8)))
        elif r < 0.12:
            # Find_Maximum(f, xl, xr) without the tolerance, on the mirrored objective -1.0*f (a unimodal hump with the same maximiser)
            cs.append(Case(f"fmax_default {hx(xl)} {hx(xr)} * {C(-1.0)} {e}", ("fmax", kind, "default-tol"), info=dict(info, tol=3e-8)))
        elif r < 0.3:
            cs.append(Case(f"fpair {hx(xl)} {hx(xr)} {hx(tol)} * {C(-1.0)} {e}", ("fpair", kind), info=dict(info, tol=tol, neg=True)))
        else:
            cs.append(Case(f"fmin {hx(xl)} {hx(xr)} {hx(tol)} {e}", ("fmin", kind), info=dict(info, tol=tol)))
    # ---- 1-D bowls whose values overflow to +inf (or to 1e300-sized numbers whose products overflow) at points the search visits:
    #      starts hundreds of length scales from the minimiser (same side or opposite sides), steep bowls with steps of tens to
    #      hundreds of length scales, the repulsive wall of the Morse / Lennard-Jones wells.  Both starting values are finite.
    for _ in range(3000 if big else 260):
        cs.append(_overflow_case(rng, tols))
    # ---- 1-D multimodal: descent and consistency only
    for _ in range(3000 if big else 400):
        e, s = multimodal1d(rng)
        xl = s * rng.uniform(-10, 10); xr = xl + rng.choice([-1, 1]) * s * 10 ** rng.uniform(-3, 1)
        tol = rng.choice(tols)
        op = rng.choice(["fmin", "fmin", "fmax", "fpair"])
        cs.append(Case(f"{op} {hx(xl)} {hx(xr)} {hx(tol)} {e}", (op, "multimodal")))
    # ---- Nelder-Mead on quadratic bowls
    for _ in range(2500 if big else 350):
        n = rng.choice([1, 2, 2, 3, 3, 4, 5, 6])
        e, info = quad_nd(rng, n)
        s = info["scale"]
        ftol = rng.choice(tols)
        start = [cj + s * 10 ** rng.uniform(-1, 1.5) * rng.gauss(0, 1) for cj in info["c"]]
        delta = s * 10 ** rng.uniform(-3, 3) * rng.choice([-1, 1])
        info = dict(info, ftol=ftol, n=n)
        r = rng.random()
        if r < 0.4:
            cs.append(Case(f"nm1 {hx(ftol)} {flist(start)} {hx(delta)} {e}", ("nm1", "bowl", f"dim{n}"), info=info))
        elif r < 0.75:
            ds = [delta * 10 ** rng.uniform(-1, 1) * rng.choice([-1, 1]) for _ in range(n)]
            cs.append(Case(f"nmd {hx(ftol)} {flist(start)} {flist(ds)} {e}", ("nmd", "bowl", f"dim{n}"), info=info))
        else:
            pp = [[x + abs(delta) * rng.gauss(0, 1) for x in start] for _ in range(n + 1)]
            cs.append(Case(f"nm {hx(ftol)} {table(pp)} {e}", ("nm", "bowl", f"dim{n}"), info=info))
    # ---- Nelder-Mead on bowls whose values change sign inside the simplex (negative minimum value; extreme vertex values of equal magnitude and
    #      opposite sign, exactly and on a ladder of relative distances, at the start or at a later iteration)
    for _ in range(2500 if big else 260): cs.append(signed_bowl_case(rng, tols))
    # ---- Nelder-Mead on multimodal objectives: descent and consistency only
    for _ in range(2000 if big else 300):
        n = rng.choice([1, 2, 3, 4, 6])
        e, s = multimodal_nd(rng, n)
        ftol = rng.choice([1e-2, 1e-3, 1e-4, 1e-6, 1e-8])
        start = [s * rng.uniform(-5, 5) for _ in range(n)]
        r = rng.random()
        if r < 0.35:
            cs.append(Case(f"nm1 {hx(ftol)} {flist(start)} {hx(s * 10 ** rng.uniform(-2, 1))} {e}", ("nm1", "multimodal", f"dim{n}")))
        elif r < 0.65:
            cs.append(Case(f"nmd {hx(ftol)} {flist(start)} {flist([s * 10 ** rng.uniform(-2, 1) * rng.choice([-1, 1]) for _ in range(n)])} {e}", ("nmd", "multimodal", f"dim{n}")))
        else:
            m = n + 1 if rng.random() < 0.8 else n + rng.choice([2, 3])          # the general interface also takes more vertices
            pp = [[x + s * rng.gauss(0, 1) for x in start] for _ in range(m)]
            if rng.random() < 0.15: pp[rng.randrange(m)] = list(pp[0])           # duplicate vertex: ties in the scan
            cs.append(Case(f"nm {hx(ftol)} {table(pp)} {e}", ("nm", "multimodal", f"dim{n}", "extra-vertices" if m != n + 1 else "simplex")))
    # ---- call history: several calls in one process, on one or several objects (short runs; runs whose evaluation counts pass NMAX)
    for _ in range(600 if big else 70): cs.append(seq_case(rng, False))
    for _ in range(60 if big else 6): cs.append(seq_case(rng, True))
    # ---- arguments that are the objects' own public members (restart idioms, aliasing), by reference and by value
    for _ in range(1500 if big else 150): cs.append(member_case(rng))
    # ---- the caller writes the public members between calls; calls abandoned by a throwing objective; same arguments, another objective
    for _ in range(800 if big else 100): cs.append(state_case(rng))
    # ---- re-entrancy: the objective itself runs a minimisation (profiled objective)
    for _ in range(500 if big else 60): cs.append(nest_case(rng))
    # ---- guard of the deltas overload (mismatched lengths must exit)
    for _ in range(60 if big else 20):
        n = rng.choice([1, 2, 3, 5]); k = rng.choice([0, n - 1, n + 1, 2 * n])
        e, s = multimodal_nd(rng, n)
        cs.append(Case(f"nmd {hx(1e-4)} {flist([rng.uniform(-1, 1) for _ in range(n)])} {flist([0.5] * k)} {e}", ("nmd", "guard-mismatch")))
    # ---- equal starting values (the fractional range is 0 before the first iteration)
    cs.append(Case(f"nm1 {hx(1e-6)} {flist([-0.5, -0.5])} {hx(1.0)} + * v 0 v 0 * v 1 v 1", ("nm1", "level-set-start"), info={"c": [0.0, 0.0], "d": 0.0, "mu": 2.0, "lmax": 2.0, "scale": 1.0, "ftol": 1e-6, "n": 2, "kappa": 1.0}))
    return cs


# ------------------------------------------------------------------ output parsing
def _rd_list(v, p):
    k = v[p]; return v[p + 1:p + 1 + k], p + 1 + k


def _rd_table(v, p):
    m = v[p]; p += 1; rows = []
    for _ in range(m):
        r, p = _rd_list(v, p); rows.append(r)
    return rows, p


def _parse_nm_out(io):
    v = parse_vals(io)
    pmin, p = _rd_list(v, 0); fmin = v[p]; p += 1
    y, p = _rd_list(v, p); simplex, p = _rd_table(v, p); nfunc = v[p]; p += 1
    trace, p = _rd_table(v, p)
    return pmin, fmin, y, simplex, nfunc, trace


def _parse_case(c):
    t = c.line.split(); op = t[0]; v = parse_vals(c.line)
    if op in ("fmin", "fmax", "fpair"):
        return {"op": op, "xl": v[1], "xr": v[2], "tol": v[3], "f": parse(t, 4)[0]}
    if op in ("fmin_default", "fmax_default"):
        return {"op": op, "xl": v[1], "xr": v[2], "tol": 3e-8, "f": parse(t, 3)[0]}
    ftol = v[1]
    if op == "nm":
        pp, p = _rd_table(v, 2); return {"op": op, "ftol": ftol, "pp": pp, "f": parse(t, p)[0], "guard": False}
    start, p = _rd_list(v, 2)
    if op == "nmd":
        ds, p = _rd_list(v, p)
    else:
        ds = [v[p]] * len(start); p += 1
    guard = len(ds) != len(start)
    pp = ([list(start)] + [[(x + ds[i]) if j == i else x for j, x in enumerate(start)] for i in range(len(start))]) if not guard else []
    return {"op": op, "ftol": ftol, "pp": pp, "f": parse(t, p)[0], "guard": guard, "start": start, "deltas": ds}


def _read_nm_request(t, v, p, op, ftol, with_f=True):
    """the arguments of one Nelder-Mead request starting at token p (after the operation name and, for single calls, the tolerance)"""
    if op == "nm":
        pp, p = _rd_table(v, p); start = ds = None; guard = False
    else:
        start, p = _rd_list(v, p)
        if op == "nmd": ds, p = _rd_list(v, p)
        else: ds = [v[p]] * len(start); p += 1
        guard = len(ds) != len(start)
        pp = ([list(start)] + [[(x + ds[i]) if j == i else x for j, x in enumerate(start)] for i in range(len(start))]) if not guard else []
    P = {"op": op, "ftol": ftol, "pp": pp, "guard": guard, "start": start, "deltas": ds}
    if with_f: P["f"], p = parse(t, p)
    return P, p


def _rd_vsrc(t, v, p):
    """a vector argument: g <list> | r <k> <i> <byref> | y <k> <byref>"""
    w = t[p]
    if w == "g":
        l, p = _rd_list(v, p + 1); return ("g", l), p
    if w == "r": return ("r", v[p + 1], v[p + 2], v[p + 3]), p + 4
    if w == "y": return ("y", v[p + 1], v[p + 2]), p + 3
    raise ValueError("vector source expected")


def _parse_seq(c):
    t = c.line.split(); v = parse_vals(c.line)
    nobj = v[1]; ftols = v[2:2 + nobj]; p = 2 + nobj
    ncalls = v[p]; p += 1
    calls = []
    for _ in range(ncalls):
        ob = v[p]; kind = t[p + 1]; p += 2
        if kind in ("putY", "putS", "putN"):
            # the caller writes the public members of object ob
            if kind == "putY": val, p = _rd_list(v, p)
            elif kind == "putS": val, p = _rd_table(v, p)
            else: val = tuple(v[p:p + 4]); p += 4
            calls.append({"op": kind, "obj": ob, "val": val}); continue
        nab = 0
        if kind == "ab":                                  # the objective throws at its nab-th evaluation
            nab = v[p]; kind = t[p + 1]; p += 2
        if kind in ("fmin", "fmax"):
            f, q = parse(t, p + 3)
            calls.append({"op": kind, "obj": ob, "xl": v[p], "xr": v[p + 1], "tol": v[p + 2], "f": f}); p = q
        elif kind in ("nmS", "nm1R", "nmdR"):
            # arguments that are members of the objects: resolved against the answers of the earlier calls (_resolve_members)
            P = {"op": kind, "obj": ob, "ftol": ftols[ob], "members": True}
            if kind == "nmS":
                P["ppsrc"] = (v[p], v[p + 1]); p += 2
            else:
                P["st"], p = _rd_vsrc(t, v, p)
                if kind == "nm1R": P["delta"] = v[p]; p += 1
                elif t[p] == "s": P["ds"] = "s"; p += 1
                else: P["ds"], p = _rd_vsrc(t, v, p)
            P["f"], p = parse(t, p)
            P["nab"] = nab
            calls.append(P)
        else:
            P, p = _read_nm_request(t, v, p, kind, ftols[ob]); P["obj"] = ob; P["nab"] = nab; calls.append(P)
    return calls


def _resolve_members(cl, members):
    """fills pp / start / deltas / guard of a request whose arguments are members, from the state the objects reported last
    (members[k] = (simplex, y)); returns False when a referent does not exist"""
    def val(src):
        if src[0] == "g": return list(src[1])
        st = members.get(src[1])
        if st is None: return None
        if src[0] == "y": return list(st[1]) if st[1] is not None else None
        return list(st[0][src[2]]) if st[0] is not None and 0 <= src[2] < len(st[0]) else None
    if cl["op"] == "nmS":
        st = members.get(cl["ppsrc"][0])
        if st is None or st[0] is None: return False
        cl.update(pp=[list(r) for r in st[0]], guard=False, start=None, deltas=None); return True
    start = val(cl["st"])
    if start is None: return False
    if cl["op"] == "nm1R": ds = [cl["delta"]] * len(start)
    elif cl["ds"] == "s": ds = list(start)
    else: ds = val(cl["ds"])
    if ds is None: return False
    guard = len(ds) != len(start)
    pp = ([list(start)] + [[(x + ds[i]) if j == i else x for j, x in enumerate(start)] for i in range(len(start))]) if not guard else []
    cl.update(pp=pp, guard=guard, start=start, deltas=ds); return True


def _parse_seq_out(calls, v):
    outs = []; p = 0
    for cl in calls:
        if p >= len(v): break
        if cl["op"] in ("putY", "putS", "putN"):
            if v[p] != "P": raise ValueError("seq output: write marker expected")
            p += 1; outs.append({"put": True, "trace": []}); continue
        if v[p] == "A" and cl.get("nab"):
            tr, p = _rd_table(v, p + 1); outs.append({"abandoned": True, "trace": tr}); continue
        if v[p] != "C": raise ValueError("seq output: call marker expected")
        p += 1
        if cl["op"] in ("fmin", "fmax"):
            x = v[p]; tr, p = _rd_list(v, p + 1); outs.append({"x": x, "trace": tr, "same": v[p]}); p += 1
        else:
            pmin, p = _rd_list(v, p); fmin = v[p]; p += 1
            y, p = _rd_list(v, p); simplex, p = _rd_table(v, p); nfunc = v[p]; p += 1
            trace, p = _rd_table(v, p); same = v[p]; p += 1
            outs.append({"nm": (pmin, fmin, y, simplex, nfunc, trace), "same": same, "trace": trace})
    return outs


def _parse_nest(c):
    t = c.line.split(); v = parse_vals(c.line)
    outer = t[1]; R = {"outer": outer}
    if outer == "fmin":
        R.update(xl=v[2], xr=v[3], tol=v[4]); p = 5
    else:
        R["P"], p = _read_nm_request(t, v, 3, outer, v[2], with_f=False)
    R["inner"] = t[p]
    if t[p] == "nm1":
        R["ftol_in"] = v[p + 1]; z0, q = _rd_list(v, p + 2); R.update(z0=z0, din=v[q], shared=v[q + 1]); p = q + 2
    else:
        R.update(zl=v[p + 1], zr=v[p + 2], tol_in=v[p + 3]); p += 4
    R["g"], p = parse(t, p)
    if outer != "fmin": R["P"]["f"] = None
    return R


def _parse_nest_out(R, v):
    if R["outer"] == "fmin":
        x = v[0]; tr, p = _rd_list(v, 1); vals, p = _rd_list(v, p)
        return {"x": x, "trace": tr, "vals": vals, "fx": v[p]}
    pmin, p = _rd_list(v, 0); fmin = v[p]; p += 1
    y, p = _rd_list(v, p); simplex, p = _rd_table(v, p); nfunc = v[p]; p += 1
    trace, p = _rd_table(v, p); vals, p = _rd_list(v, p); fy, p = _rd_list(v, p)
    return {"nm": (pmin, fmin, y, simplex, nfunc, trace), "vals": vals, "fy": fy, "trace": trace}


def nontrivial(c, io):
    if io.startswith(("CRASH", "SANITIZER", "TIMEOUT")): return False
    op = c.line.split()[0]
    if op in ("seq", "nest"):
        if io.startswith("EXIT"): return False
        try:
            if op == "seq":
                outs = _parse_seq_out(_parse_seq(c), parse_vals(io))
                return len([o for o in outs if "nm" in o or "x" in o]) >= 2 and sum(len(o["trace"]) for o in outs) >= 24
            R = _parse_nest(c); O = _parse_nest_out(R, parse_vals(io))
            return len(O["trace"]) >= (9 if R["outer"] == "fmin" else len(R["P"]["pp"]) + 12)
        except Exception:
            return False
    if io.startswith("EXIT"): return "guard-mismatch" in c.tags
    v = parse_vals(io)
    if op.startswith("f"):
        ntr = v[1]
        return ntr >= 4 + 1 + 4
    try:
        pmin, fmin, y, simplex, nfunc, trace = _parse_nm_out(io)
    except Exception:
        return False
    m = len(simplex)
    return len(trace) - m >= 12


# ------------------------------------------------------------------ S4
def _pred_1d(c, io, P, x, trace, sense, tag):
    """sense = +1: minimum of f; -1: maximum.  Exact replay: the objective is re-evaluated with the same libm."""
    out = []
    f = P["f"]; g = (lambda t: f([t, 0.0, 0.0])) if sense > 0 else (lambda t: -f([t, 0.0, 0.0]))
    word = "minimum" if sense > 0 else "maximum"
    fx = g(x); fl, fr = g(P["xl"]), g(P["xr"])
    if any(math.isnan(t) for t in (fx, fl, fr)): return out
    if not (fx <= fl and fx <= fr):
        out.append((f"{tag}:not-worse", f"returned {word} x = {x!r} has f = {sense*fx!r}, worse than the start values f({P['xl']!r}) = {sense*fl!r}, f({P['xr']!r}) = {sense*fr!r}"))
    if len(trace) < 4 or trace[0] != P["xl"] or trace[1] != P["xr"]:
        out.append((f"{tag}:trace", "the evaluation trace does not start with the two starting abscissae"))
    else:
        # (the returned point need not be the best of all evaluations: Bracket's early return 'fu > fb: cx = u' drops the lower point cx)
        if x not in trace: out.append((f"{tag}:returned-evaluated", f"the returned point {x!r} was never evaluated"))
    return out


def _flat_in_doubles(f, info, trace, bound):
    """premise of the convergence clause: the objective is unimodal.  In doubles a bowl with a saturating flank (Morse and Lennard-Jones tails,
    1 - exp(-k u) rounding to 1) is exactly constant there; a search that was thrown onto that plateau sees equal values and has nothing to descend on.
    True when two visited points on the same side of the minimiser(s), further apart than the convergence bound, have the same FINITE value
    (equal +inf values on an overflowing flank do not count: an infinite value never beats a finite one, so they cannot mislead a comparison)."""
    pts = sorted(set(t for t in trace if t == t and not math.isinf(t)))
    vals = [f([t, 0.0, 0.0]) for t in pts]
    for i in range(len(pts) - 1):
        j = i + 1
        while j < len(pts) and not any(pts[i] < xs < pts[j] for xs in info["xstar"]):
            if vals[i] == vals[j] and math.isfinite(vals[i]) and pts[j] - pts[i] > bound: return True
            j += 1
    return False


def predicates(c, io):
    """an answer the clauses cannot be evaluated on (wrong shape, missing evaluations, ...) is reported, never skipped silently"""
    try:
        return _predicates(c, io)
    except Exception as e:
        op = c.line.split()[0]
        return [(f"{op}:unreadable-answer", f"the clauses of the property could not be evaluated on the implementation's answer ({e!r}): it does not have the shape a returned call has")]


def _predicates(c, io):
    out = []
    op = c.line.split()[0]
    if io.startswith(("CRASH", "SANITIZER", "TIMEOUT", "HARNESSERR")): return out
    if op == "seq": return _pred_seq(c, io)
    if op == "nest": return _pred_nest(c, io)
    P = _parse_case(c)
    info = c.info
    if op.startswith("f"):
        sense = -1 if op.startswith("fmax") else 1
        if io.startswith("EXIT"):
            if info.get("kind"):
                where = "min-at-zero" if info["xstar"][0] == 0.0 else "generic"
                out.append((f"{op.replace('_default', '')}:exit:{info['kind']}:{where}", f"{op} terminated the process ('Too many iterations') on a unimodal objective ({info['kind']}, minimiser {info['xstar'][0]!r})"))
            return out
        v = parse_vals(io)
        x = v[0]; trace, p = _rd_list(v, 1)
        if op == "fpair":
            # Find_Maximum(f) against Find_Minimum(-1.0*f): identical result and identical evaluation points
            x2 = v[p]; trace2, p = _rd_list(v, p + 1)
            if x != x2 and not (x != x and x2 != x2): out.append(("fpair:max-is-min-of-neg", f"Find_Maximum(f) = {x!r} but Find_Minimum(-1.0*f) = {x2!r}"))
            elif trace != trace2: out.append(("fpair:max-is-min-of-neg", "Find_Maximum(f) and Find_Minimum(-1.0*f) evaluate the objective at different points"))
            out += _pred_1d(c, io, P, x, trace, -1, "fmax")
            sense = -1
        else:
            out += _pred_1d(c, io, P, x, trace, sense, op.replace("_default", ""))
        if info.get("kind"):
            # convergence on unimodal bowls.  Brent returns when the bracket [a,b] around x satisfies max(x-a, b-x) <= 2*tol1,
            # tol1 = tol*|x| + 2^-52; for an exactly unimodal objective the minimiser is inside, so |x - x*| <= 2*tol1.  In doubles the
            # objective is unimodal only down to its resolution res(x) (half-width of the set where f - f* is below 16 roundings of
            # the value's magnitude, plus 4 ulp of the argument shift); the bracket may have been placed anywhere in that set.
            tol = P["tol"]; tol1 = abs(tol) * abs(x) + 2.0 ** -52
            res = info["res"](x)
            dist = min(abs(x - xs) for xs in info["xstar"])
            bound = 2 * tol1 + res
            if not (dist <= bound) and _flat_in_doubles(P["f"], info, trace, bound):
                return out      # premise fails: on the visited points the objective is not strictly unimodal in doubles (see _flat_in_doubles)
            if not (dist <= bound):
                out.append((f"{op.replace('_default','')}:converged", f"{info['kind']} bowl with minimiser {info['xstar'][0]!r}: returned {x!r}, distance {dist:.3g} > 2*tol1 + resolution = {bound:.3g} (tol {tol:g})"))
        return out
    # ---- Nelder-Mead
    if P["guard"]:
        if not io.startswith("EXIT"): out.append(("nmd:size-guard", "deltas of a different length than the starting point were accepted"))
        return out
    if io.startswith("EXIT"):
        if info.get("mu"): out.append((f"{op}:exit", f"{op} terminated the process (NMAX exceeded) on a convex quadratic bowl (dim {info['n']}, condition {info['kappa']:.3g}, ftol {info['ftol']:g})"))
        return out
    return _pred_nm(op, P, info, *_parse_nm_out(io))


def _pred_nm(op, P, info, pmin, fmin, y, simplex, nfunc, trace, vals=None, fy=None):
    """the clauses of the property on one returned Nelder-Mead call.  The objective is re-evaluated in Python (same libm, bit for bit); for a
    profiled objective (nest) the values the implementation's objective returned during the run (vals) and returned again at the reported
    simplex after the run (fy) take that place."""
    out = []
    f = P["f"]; pp = P["pp"]; m = len(pp)
    if fy is None: fy = [f(r) for r in simplex]
    if any(math.isnan(t) for t in fy + y): return out
    if len(simplex) != m or len(y) != m: out.append((f"{op}:shape", "the reported simplex / values do not have one entry per vertex")); return out
    if fy != y:
        k = next(i for i in range(m) if fy[i] != y[i])
        out.append((f"{op}:values-consistent", f"reported y[{k}] = {y[k]!r} but f(simplex[{k}]) = {fy[k]!r} (simplex[{k}] = {simplex[k]!r})"))
    fp = f(pmin) if vals is None else (fy[0] if pmin == simplex[0] else math.nan)
    if not (pmin == simplex[0] and fmin == y[0] and fp == fmin):
        out.append((f"{op}:reported-state", f"returned point / fmin / simplex[0] / y[0] are not the same vertex: f(returned) = {fp!r}, fmin = {fmin!r}, y[0] = {y[0]!r}"))
    if any(y[0] > t for t in y): out.append((f"{op}:best-first", f"y[0] = {y[0]!r} is not the smallest vertex value {min(y)!r}"))
    if trace[:m] != pp:
        # (a call that evaluated fewer than m points has not evaluated the vertices it was given: whatever it reports as y does not come from this call's objective)
        out.append((f"{op}:initial-simplex", "the first evaluations are not the vertices of the stated initial simplex" +
                    (f": the objective was evaluated at {len(trace)} point(s) in this call, the simplex has {m} vertices" if len(trace) < m else "")))
    ft = [f(r) for r in trace] if vals is None else vals
    if len(ft) != len(trace): out.append((f"{op}:shape", "one objective value per evaluation expected")); return out
    if vals is not None and len(ft) < m: return out          # (profiled objective: its values at the stated vertices are not in hand)
    f0 = [f(r) for r in pp] if vals is None else ft[:m]      # the objective at the vertices of the STATED initial simplex
    if not any(math.isnan(t) for t in f0) and not math.isnan(fp) and (fmin > min(f0) or fp > min(f0)):
        k = f0.index(min(f0))
        out.append((f"{op}:not-worse", f"the returned point {pmin!r} has f = {fp!r} (fmin = {fmin!r}), worse than the initial vertex {k}: f({pp[k]!r}) = {f0[k]!r}"))
    if ft and not any(math.isnan(t) for t in ft) and fmin != min(ft):
        k = ft.index(min(ft))
        out.append((f"{op}:best-of-all-evaluations", f"evaluation {k} gave {ft[k]!r}, the reported minimum is {fmin!r}"))
    # every reported vertex is a point at which the objective was evaluated, with the value it returned there
    if not out and not any(math.isnan(t) for t in ft):
        seen = {}
        for r, t in zip(trace, ft): seen[tuple(r)] = t          # the last value at a repeated point (F is a function: they agree)
        for k in range(m):
            if seen.get(tuple(simplex[k])) != y[k]:
                out.append((f"{op}:vertex-was-evaluated", f"simplex[{k}] = {simplex[k]!r} with y = {y[k]!r} is not one of the evaluated points with that value")); break
    n = len(pp[0])
    if m == n + 1 and nfunc != len(trace) - m:
        out.append((f"{op}:nfunc", f"nfunc = {nfunc} but the objective was evaluated {len(trace) - m} times after the initial simplex in this call"))
    if info.get("mu") is not None and not out:
        out += _nm_converged(op, info, pmin, fmin, y, nfunc)
    return out


def _nm_converged(op, info, pmin, fmin, y, nfunc, extra_rel=0.0):
    """convergence on a strictly convex quadratic bowl f = q(x - c) + d, smallest Hessian eigenvalue mu.
    The termination test guarantees spread = y_hi - y_lo < ftol*(|y_hi| + |y_lo| + 1e-10)/2 =: ftol_abs over the final simplex.
    'Implied by the tolerance': the returned (best) vertex has value excess f - d <= K*ftol_abs + resolution with K = 2*(n+1)
    (a non-degenerate simplex around the minimiser of a quadratic has excess at most the spread times the number of vertices; factor 2 for shape),
    hence distance <= sqrt(2*(K*ftol_abs + resolution)/mu); resolution = 16 roundings of the value magnitude."""
    out = []
    n = info["n"]; d = info["d"]; mu = info["mu"]; ftol = info["ftol"]
    yhi, ylo = max(y), min(y)
    ftol_abs = ftol * (abs(yhi) + abs(ylo) + 1e-10) / 2
    if not (yhi - ylo <= ftol_abs * (1 + 1e-12) + 0.0):
        out.append((f"{op}:terminated-within-ftol", f"returned with fractional range above ftol: spread {yhi-ylo!r}, ftol_abs {ftol_abs!r}"))
    K = 2 * (n + 1)
    resol = (16 * EPS + extra_rel) * (abs(d) + abs(fmin))      # extra_rel: relative error of a profiled objective (its inner minimisation)
    excess = fmin - d
    dist = math.sqrt(sum((a - b) ** 2 for a, b in zip(pmin, info["c"])))
    bound = math.sqrt(2 * (K * ftol_abs + resol) / mu) + 8 * EPS * max(abs(t) for t in info["c"] + pmin)
    if not (dist <= bound):
        # (the two known ways of ending far from the minimiser are returns whose vertex values DO agree to the fractional tolerance; a return
        #  whose reported values do not is something else and keeps its own signature)
        how = "returned-above-ftol" if out else "immediate-return" if nfunc == 0 else "stalled"
        out.append((f"{op}:converged:{how}", f"quadratic bowl dim {n} condition {info['kappa']:.3g} ftol {ftol:g}: returned point at distance {dist:.3g} from the minimiser, "
                    f"implied bound {bound:.3g} (value excess {excess:.3g}, ftol_abs {ftol_abs:.3g})"))
    return out


# ------------------------------------------------------------------ call history (seq) and profiled objectives (nest)
def _pred_seq(c, io):
    """several calls in one process.  Every call is judged by the clauses of a single call (the statement does not restrict itself to the first
    call on an object); in addition the answer must be the answer of a fresh object (the harness repeats the call on one and compares bit for bit)."""
    out = []
    calls = _parse_seq(c); infos = c.info.get("calls", [{}] * len(calls))
    if io.startswith("EXIT"):
        if all(i.get("mu") is not None or i.get("kind") for i in infos):
            out.append(("seq:exit", f"a sequence of {len(calls)} calls, each a convex quadratic bowl (or a unimodal 1-D bowl), on {c.line.split()[1]} object(s) terminated the process"))
        return out
    outs = _parse_seq_out(calls, parse_vals(io))
    if len(outs) != len(calls): return [("seq:shape", "one answer per call expected")]
    members = {}                                            # object -> (simplex, y) as reported by its last call
    for k, (cl, info, o) in enumerate(zip(calls, infos, outs)):
        if cl["op"] in ("putY", "putS", "putN"):
            # the caller wrote the public members: later requests that refer to them mean the written values (a never-used object has empty vectors)
            sx, yy = members.get(cl["obj"], ([], []))
            if cl["op"] == "putY": yy = list(cl["val"])
            elif cl["op"] == "putS": sx = [list(r) for r in cl["val"]]
            members[cl["obj"]] = (sx, yy); continue
        if o.get("abandoned"):
            # the objective threw at its nab-th evaluation: the call asked for exactly nab points, the vertices of the stated simplex first, in order
            pv = []
            if cl.get("members") and not _resolve_members(cl, members):
                out.append(("seq:shape", f"call {k + 1}: the request refers to members of an object whose members are not known")); break
            tr = o["trace"]; pp = cl["pp"]; kk = min(cl["nab"], len(pp))
            opn = {"nmS": "nm", "nm1R": "nm1", "nmdR": "nmd"}.get(cl["op"], cl["op"])
            if len(tr) != cl["nab"]: pv.append((f"{opn}:abandoned-evaluations", f"the objective threw at evaluation {cl['nab']} but {len(tr)} evaluations were made"))
            if tr[:kk] != pp[:kk]: pv.append((f"{opn}:initial-simplex", f"the first {kk} evaluations of the abandoned call are not the first vertices of the stated initial simplex"))
            members[cl["obj"]] = (None, None)           # what an abandoned call leaves in the members is not specified
            out += [(sig, f"call {k + 1} of {len(calls)} (object {cl['obj']}, abandoned): {msg}") for sig, msg in pv]
            continue
        if cl["op"] in ("fmin", "fmax"):
            sense = 1 if cl["op"] == "fmin" else -1
            pv = _pred_1d(c, io, cl, o["x"], o["trace"], sense, cl["op"])
            if o["same"] != 1: pv.append(("seq:repeatable", "the identical 1-D request, made again at once, gave a different answer or evaluated other points"))
            if info.get("kind") and not pv:
                x = o["x"]; tol1 = abs(cl["tol"]) * abs(x) + 2.0 ** -52
                dist = min(abs(x - xs) for xs in info["xstar"]); bound = 2 * tol1 + info["res"](x)
                if not (dist <= bound) and not _flat_in_doubles(cl["f"], info, o["trace"], bound):
                    pv.append((f"{cl['op']}:converged", f"{info['kind']} bowl with minimiser {info['xstar'][0]!r}: returned {x!r}, distance {dist:.3g} > 2*tol1 + resolution = {bound:.3g}"))
        else:
            how = ""
            if cl.get("members"):
                if not _resolve_members(cl, members):
                    out.append(("seq:shape", f"call {k + 1}: the request refers to members of an object that has not returned from a call")); break
                how = " [" + _describe_members(cl) + "]"
            if cl["guard"]:
                pv = [("nmd:size-guard", f"displacements of length {len(cl['deltas'])} for a starting point of length {len(cl['start'])} were accepted")]
            else:
                # (signatures carry the overload, not the way its arguments were passed: the clauses and the known findings are about the overload)
                pv = _pred_nm({"nmS": "nm", "nm1R": "nm1", "nmdR": "nmd"}.get(cl["op"], cl["op"]), cl, info, *o["nm"])
                if o["same"] != 1:
                    pv.append(("seq:same-as-fresh", f"the answer differs from the answer of the same request (same argument values) on a fresh object (nfunc reported {o['nm'][4]}, {len(o['trace']) - len(cl['pp'])} evaluations after the initial simplex)"))
            pv = [(sig, msg + how) for sig, msg in pv]
            members[cl["obj"]] = (o["nm"][3], o["nm"][2])
        out += [(sig, f"call {k + 1} of {len(calls)} (object {cl['obj']}): {msg}") for sig, msg in pv]
    return out


def _describe_members(cl):
    def d(src):
        if src == "s": return "the starting vector itself"
        if src[0] == "g": return "a vector of the caller"
        what = f"objs[{src[1]}].current_simplex[{src[2]}]" if src[0] == "r" else f"objs[{src[1]}].y"
        return what + (" by reference" if src[-1] else " (copy)")
    if cl["op"] == "nmS": return f"pp = objs[{cl['ppsrc'][0]}].current_simplex" + (" by reference" if cl["ppsrc"][1] else " (copy)")
    if cl["op"] == "nm1R": return "starting point = " + d(cl["st"])
    return "starting point = " + d(cl["st"]) + ", displacements = " + d(cl["ds"])


def _pred_nest(c, io):
    """F(x) = min_z g(x, z) with g a strictly convex quadratic in (x, z): F(x) = q(x - a) + d exactly.  Consistency and descent are judged on the values
    the implementation's objective returned; convergence of the outer run on the closed form (the inner run's error enters the resolution)."""
    out = []
    R = _parse_nest(c); info = c.info
    if io.startswith("EXIT"):
        return [("nest:exit", f"the {R['outer']} minimisation of a profiled strictly convex quadratic bowl (inner minimisation by {R['inner']}) terminated the process")]
    O = _parse_nest_out(R, parse_vals(io))
    a = info["c"]; d = info["d"]
    if R["outer"] == "fmin":
        x = O["x"]; tr = O["trace"]; vals = O["vals"]
        if len(tr) < 4 or tr[0] != R["xl"] or tr[1] != R["xr"] or len(vals) != len(tr): return [("nest-fmin:trace", "the evaluation trace does not start with the two starting abscissae")]
        if any(math.isnan(t) for t in vals + [O["fx"]]): return out
        if x not in tr: out.append(("nest-fmin:returned-evaluated", f"the returned point {x!r} was never evaluated"))
        elif vals[tr.index(x)] != O["fx"]: out.append(("nest-fmin:objective-is-a-function", f"F({x!r}) was {vals[tr.index(x)]!r} during the run and is {O['fx']!r} after it"))
        if not (O["fx"] <= vals[0] and O["fx"] <= vals[1]):
            out.append(("nest-fmin:not-worse", f"returned x = {x!r} has F = {O['fx']!r}, worse than the start values {vals[0]!r}, {vals[1]!r}"))
        if not out:
            tol1 = abs(R["tol"]) * abs(x) + 2.0 ** -52
            res = math.sqrt(2 * (16 * EPS + info["inner_rel"]) * (abs(d) + abs(O["fx"])) / info["mu"]) + 8 * EPS * max(abs(a[0]), abs(x))
            if not (abs(x - a[0]) <= 2 * tol1 + res):
                out.append(("nest-fmin:converged", f"profiled quadratic with minimiser {a[0]!r}: returned {x!r}, distance {abs(x - a[0]):.3g} > 2*tol1 + resolution = {2 * tol1 + res:.3g}"))
        return out
    P = R["P"]
    pv = _pred_nm("nest-" + R["outer"], P, {}, *O["nm"], vals=O["vals"], fy=O["fy"])
    if not pv and info.get("mu") is not None:
        pmin, fmin, y, simplex, nfunc, trace = O["nm"]
        pv += _nm_converged("nest-" + R["outer"], info, pmin, fmin, y, nfunc, extra_rel=info["inner_rel"])
    return pv
