"""C15 — QR factors and eigenpairs."""
import math
from fractions import Fraction
from vcheck import Case, hx, flist, parse_vals

PID = "C15"
RULE = ("non-trivial = a QR case with condition number > 1e3 or a zero in the first column, or a symmetric eigen-case with some "
        "eigenvalue ratio > 0.5, or with an eigenvector that has a zero component (diagonal / block-diagonal / permuted), or eigenvalues of both signs; "
        "distinct by case text")
LEVEL_TEXT = ("Theorems (Coq, over the reals, every dimension n >= 1): for a non-zero first column x the model of Householder_Matrix returns H = 1 - 2 u u^T with u well defined "
              "(|x - alpha e1|^2 = 2(|x|^2 - alpha x0) >= 2|x|^2 > 0), alpha^2 = |x|^2, H symmetric, H^T H = 1 and H x = alpha e1. "
              "The whole column loop of QR_Decomposition (C15_Proofs_QR.v, induction over the passes with the invariant 'Q orthogonal, Q R = M, R zero below the diagonal in the finished columns, "
              "R_submatrix = trailing block of R, finished diagonal entries non-zero'): for every n x n matrix M, n >= 1, the model returns (never exits), and if M is non-singular (M x = 0 -> x = 0; "
              "implied by a left inverse) then in no pass the remaining pivot column is zero, Q^T Q = Q Q^T = 1, R i j = 0 for j < i with non-zero diagonal, and Q R = M entry by entry; "
              "the same three clauses hold under the weaker, exactly stated pass-by-pass hypothesis qr_pivots_ok (no pass divides by zero); the overwriting R[j][i] = 0.0 changes nothing over the reals. "
              "All sweeps of Eigenvalues: whatever the model returns for a non-singular square M is the diagonal of a matrix A = Q^T M Q with Q orthogonal that passed the code's convergence test, "
              "there are n values, their sum is trace(M) exactly, every iterate is non-singular, and A is symmetric when M is; one sweep is the similarity R Q = Q^T A Q (trace and symmetry kept). "
              "Non-vacuity: concrete non-singular 2 x 2 matrices (one symmetric), and Eigenvalues returns [a] on the 1 x 1 matrix (a), a <> 0. "
              "For x = 0 the code divides by zero (refuted-by-example in the float run: NaN). "
              "Not theorems: convergence of the unshifted QR iteration (that Eigenvalues returns instead of exiting after 200 sweeps, for n >= 2), that the returned diagonal is close to the eigenvalues "
              "(only: diagonal of an orthogonally similar matrix whose sub-diagonal mass is below 1e-12 of the diagonal mass), the clause 'multiplies to the determinant' "
              "(no theorem relates the model's Determinant to the product), termination and accuracy of the inverse iteration, everything about rounding "
              "(in floating point Q^T Q = 1 and Q R = M hold only to rounding, and the zeros below the diagonal of R exist because the code writes them). "
              "Those clauses are covered by the differential run of the extracted model against the library (bit-identical) and by the S4 predicates on the library's output "
              "(Q^T Q = 1, R upper triangular, Q R = M; eigenvalues against an independent Jacobi routine, trace, exact-rational determinant; unit eigenvectors with M v = lambda v; termination within the runner's time bound).")
LEVEL_NOTE = ("Coq 8.16.1 kernel, theorems over R (axioms of the real numbers as printed by Print Assumptions); hand-written model tied by differential correspondence "
              "(extraction with ExtrOcamlBasic only); every loop of the modelled code is bounded by a literal (200 sweeps, 100 inverse iterations)")
TOL = (1e-12, 1e-300)
TRUSTED = ["libm sqrt / fabs are IEEE operations on both sides; the Python references (Jacobi sweeps, Fraction determinant, Gram-Schmidt) are independent of the model"]
ASSUMPTIONS = ["the symmetric test matrices are Q diag(lambda) Q^T formed in floating point and then symmetrised exactly (M[i][j] = M[j][i])",
               "QR_Decomposition of a singular matrix whose remaining first column is exactly zero divides by zero (NaN): outside the quantifier (non-singular matrices)"]

# a call that runs into the runner's time bound is reported by predicates() under "<op>:timeout" (every op)
ALLOW_TIMEOUT = True
EPS = 2.0 ** -53


# ---------------------------------------------------------------- linear-algebra helpers (plain Python, independent of the model)
def _matmul(a, b): return [[math.fsum(a[i][k] * b[k][j] for k in range(len(b))) for j in range(len(b[0]))] for i in range(len(a))]
def _tr(a): return [list(r) for r in zip(*a)]
def _fro(a): return math.sqrt(math.fsum(x * x for r in a for x in r))


def _rand_orth(rng, n):
    """random orthogonal matrix by modified Gram-Schmidt (twice) on a Gaussian matrix; rows orthonormal"""
    while True:
        g = [[rng.gauss(0, 1) for _ in range(n)] for _ in range(n)]
        q = []
        ok = True
        for v in g:
            for _ in range(2):
                for w in q:
                    d = math.fsum(x * y for x, y in zip(v, w)); v = [x - d * y for x, y in zip(v, w)]
            nv = math.sqrt(math.fsum(x * x for x in v))
            if nv < 1e-3: ok = False; break
            q.append([x / nv for x in v])
        if ok: return q


def _block_orth(rng, n, blocks):
    """block-diagonal orthogonal matrix with the given block sizes"""
    q = [[0.0] * n for _ in range(n)]; o = 0
    for b in blocks:
        sub = _rand_orth(rng, b)
        for i in range(b):
            for j in range(b): q[o + i][o + j] = sub[i][j]
        o += b
    return q


def _sym_from(q, lam):
    n = len(lam)
    m = [[math.fsum(q[k][i] * lam[k] * q[k][j] for k in range(n)) for j in range(n)] for i in range(n)]   # rows of q are the eigenvectors
    for i in range(n):
        for j in range(i): m[i][j] = m[j][i]
    return m


def _mline(op, m, extra=""): return f"{op} {len(m)} " + " ".join(flist(r) for r in m) + extra


def _jacobi(m):
    """cyclic Jacobi eigenvalue iteration for a symmetric matrix (reference, accurate to a few n eps |M|)"""
    n = len(m); a = [list(r) for r in m]
    for _ in range(60):
        off = math.sqrt(math.fsum(a[i][j] ** 2 for i in range(n) for j in range(n) if i != j))
        if off <= 1e-18 * max(_fro(a), 1e-300): break
        for p in range(n - 1):
            for q in range(p + 1, n):
                if a[p][q] == 0.0: continue
                th = (a[q][q] - a[p][p]) / (2.0 * a[p][q])
                t = (1.0 if th >= 0 else -1.0) / (abs(th) + math.sqrt(th * th + 1.0))
                c = 1.0 / math.sqrt(t * t + 1.0); s = t * c
                for k in range(n):
                    akp, akq = a[k][p], a[k][q]; a[k][p] = c * akp - s * akq; a[k][q] = s * akp + c * akq
                for k in range(n):
                    apk, aqk = a[p][k], a[q][k]; a[p][k] = c * apk - s * aqk; a[q][k] = s * apk + c * aqk
    return sorted(a[i][i] for i in range(n))


def _det_exact(m):
    """determinant of the double matrix in exact rational arithmetic"""
    n = len(m); a = [[Fraction(x) for x in r] for r in m]; det = Fraction(1)
    for i in range(n):
        p = next((r for r in range(i, n) if a[r][i] != 0), None)
        if p is None: return Fraction(0)
        if p != i: a[i], a[p] = a[p], a[i]; det = -det
        det *= a[i][i]
        for r in range(i + 1, n):
            f = a[r][i] / a[i][i]
            if f != 0:
                for c in range(i, n): a[r][c] -= f * a[i][c]
    return det


# ---------------------------------------------------------------- generators
def _gen_dense(rng, n):
    kappa = 10 ** rng.uniform(0, 6); scale = 10 ** rng.uniform(-3, 3)
    u, v = _rand_orth(rng, n), _rand_orth(rng, n)
    sig = [scale * kappa ** (-(k / (n - 1) if n > 1 else 0.0)) for k in range(n)]
    m = [[math.fsum(u[k][i] * sig[k] * v[k][j] for k in range(n)) for j in range(n)] for i in range(n)]
    return m, kappa


def _gen_spectrum(rng, n):
    lam = [10 ** rng.uniform(-2, 2)]
    for _ in range(n - 1): lam.append(lam[-1] * rng.uniform(0.1, 0.8))
    mode = rng.random()
    if mode < 0.6: lam = [x * rng.choice([1.0, -1.0]) for x in lam]     # either sign
    elif mode < 0.7: lam = [-x for x in lam]
    return lam


def _gen_sym(rng, n):
    lam = _gen_spectrum(rng, n)
    kind = rng.random()
    if n == 1 or kind < 0.15:
        rng.shuffle(lam); q = [[1.0 if i == j else 0.0 for j in range(n)] for i in range(n)]; tag = "diagonal"
    elif kind < 0.35 and n >= 3:
        blocks = []; left = n
        while left > 0:
            b = rng.randint(1, min(3, left)); blocks.append(b); left -= b
        if all(b == 1 for b in blocks): blocks = [2] + [1] * (n - 2)
        rng.shuffle(blocks); rng.shuffle(lam); q = _block_orth(rng, n, blocks)
        tag = "block-diagonal" + ("-with-1x1" if 1 in blocks else "")
    elif kind < 0.45 and n >= 2:
        # plane rotation in one coordinate plane: all other eigenvectors are coordinate vectors
        rng.shuffle(lam); q = _block_orth(rng, n, [2] + [1] * (n - 2)); perm = list(range(n)); rng.shuffle(perm)
        q = [[q[i][perm[j]] for j in range(n)] for i in range(n)]; tag = "block-diagonal-with-1x1"
    else:
        q = _rand_orth(rng, n); tag = "dense"
    return _sym_from(q, lam), lam, tag


def generate(rng, tier):
    cs = []
    big = tier != "quick"
    # ---- QR_Decomposition / Householder_Matrix: dense non-singular, kappa up to 1e6, sizes 1..7
    for _ in range(4000 if big else 350):
        n = rng.randint(1, 7)
        m, kappa = _gen_dense(rng, n)
        k = rng.random()
        tags = ["qr", f"n={n}"]
        if k < 0.08 and n > 1:                      # zero leading entry / zeros in the first column
            z = rng.sample(range(n), rng.randint(1, n - 1))
            for i in z: m[i][0] = 0.0
            if rng.random() < 0.5: m[0][0] = 0.0
            if not any(m[i][0] for i in range(n)): m[n - 1][0] = 1.0
            tags.append("first-column-zeros")
        elif k < 0.14:                              # upper triangular / diagonal input
            for i in range(n):
                for j in range(i): m[i][j] = 0.0
            tags.append("triangular")
        elif k < 0.18:
            p = list(range(n)); rng.shuffle(p); s = 10 ** rng.uniform(-3, 3)
            m = [[s * rng.choice([1.0, -1.0]) if p[i] == j else 0.0 for j in range(n)] for i in range(n)]
            tags.append("permutation")
        if _det_exact(m) == 0: continue
        cs.append(Case(_mline("qr", m), tags, info={"kappa": kappa}))
        if rng.random() < 0.3: cs.append(Case(_mline("householder", m), ["householder", f"n={n}"]))
    for m in ([[1.0]], [[-2.5]], [[1.0, 0.0], [0.0, 1.0]], [[0.0, 1.0], [1.0, 0.0]], [[2.0, 0.0, 0.0], [0.0, 3.0, 0.0], [0.0, 0.0, 5.0]]):
        cs.append(Case(_mline("qr", m), ["qr", "special"]))
        cs.append(Case(_mline("householder", m), ["householder", "special"]))
    cs.append(Case(_mline("qr", [[1.0, 2.0, 3.0], [4.0, 5.0, 6.0]]), ["qr-guard"]))
    # ---- Determinant / Inverse as called by the inverse iteration (ties the model of Matrix::Inverse)
    for _ in range(600 if big else 60):
        n = rng.randint(1, 6); m, _ = _gen_dense(rng, n)
        cs.append(Case(_mline("det", m), ["det"])); cs.append(Case(_mline("inverse", m), ["inverse"], tol=(1e-9, 1e-300)))
    cs.append(Case(_mline("inverse", [[1.0, 2.0], [2.0, 4.0]]), ["inverse", "singular"]))
    cs.append(Case(_mline("inverse", [[0.0, 1.0], [1.0, 0.0]]), ["inverse", "pivot"]))
    # ---- Eigenvalues / Eigensystem / Eigenvectors on symmetric Q diag(lambda) Q^T
    for k in range(3000 if big else 260):
        n = rng.randint(1, 7) if k % 4 else rng.randint(1, 3)
        m, lam, tag = _gen_sym(rng, n)
        tags = [tag, f"n={n}"]
        cs.append(Case(_mline("eigenvalues", m), ["eigenvalues"] + tags, tol=(1e-9, 1e-300), info={"lam": lam}))
        if True: cs.append(Case(_mline("eigensystem", m), ["eigensystem"] + tags, tol=(1e-7, 1e-300), info={"lam": lam}))
        if rng.random() < 0.15: cs.append(Case(_mline("eigenvectors", m), ["eigenvectors"] + tags, tol=(1e-7, 1e-300), info={"lam": lam}))
    for m in ([[2.0, 0.0, 0.0], [0.0, 3.0, 0.0], [0.0, 0.0, 5.0]], [[4.0]], [[2.0, 1.0], [1.0, 2.0]],
              [[2.0, -1.0, 0.0], [-1.0, 2.0, -1.0], [0.0, -1.0, 2.0]], [[4.0, 1.0, 0.0], [1.0, 3.0, 0.0], [0.0, 0.0, 1.0]]):
        cs.append(Case(_mline("eigenvalues", m), ["eigenvalues", "special"], tol=(1e-9, 1e-300)))
        cs.append(Case(_mline("eigensystem", m), ["eigensystem", "special"], tol=(1e-7, 1e-300)))
    return cs


# ---------------------------------------------------------------- parsing
def _case_matrix(c):
    v = parse_vals(c.line); op = v[0]; n = v[1]; k = 2; m = []
    for _ in range(n):
        ln = v[k]; m.append(v[k + 1:k + 1 + ln]); k += 1 + ln
    return op, m, v[k:]


def _read_mat(vals, k):
    r, cdim = vals[k], vals[k + 1]; e = vals[k + 2:k + 2 + r * cdim]
    return [[e[i * cdim + j] for j in range(cdim)] for i in range(r)], k + 2 + r * cdim


def _has_1x1_block(m):
    n = len(m)
    return any(all(m[i][j] == 0.0 and m[j][i] == 0.0 for j in range(n) if j != i) for i in range(n))


def nontrivial(c, io):
    op, m, _ = _case_matrix(c); n = len(m)
    if op == "qr":
        return c.info.get("kappa", 1.0) > 1e3 or any(m[i][0] == 0.0 for i in range(n)) or "guard" in " ".join(c.tags)
    if op in ("eigenvalues", "eigensystem", "eigenvectors"):
        lam = c.info.get("lam")
        if not lam: return True
        srt = sorted((abs(x) for x in lam), reverse=True)
        ratio = max((b / a for a, b in zip(srt, srt[1:])), default=0.0)
        return ratio > 0.5 or any(t.startswith(("diagonal", "block")) for t in c.tags) or (min(lam) < 0 < max(lam))
    return False


def predicates(c, io):
    """S4: the property's own clauses evaluated on the implementation's output."""
    out = []
    op, m, _ = _case_matrix(c); n = len(m)
    if io.startswith(("CRASH", "SANITIZER", "HARNESSERR")): return out
    o = parse_vals(io)
    exited = io.startswith("EXIT"); timeout = io.startswith("TIMEOUT")
    nm = _fro(m)
    if op == "qr":
        if any(len(r) != n for r in m):
            if not exited: out.append(("qr:guard", "QR_Decomposition accepted a non-square matrix"))
            return out
        if exited or timeout: return [("qr:exit", f"QR_Decomposition ended with {io} on a non-singular square matrix")]
        q, k = _read_mat(o, 0); r, _ = _read_mat(o, k)
        if len(q) != n or len(r) != n or any(len(x) != n for x in q + r): return [("qr:shape", "Q or R is not n x n")]
        if any(isinstance(x, float) and math.isnan(x) for row in q + r for x in row): return [("qr:nan", "Q or R contains NaN for a non-singular matrix")]
        # slack: every sweep multiplies by an explicitly formed reflector P (entries off by <= 8 eps), an n-term inner product
        # adds n eps; n sweeps => n (n + 8 sqrt n) eps |M|, taken as 4 n (n + 8) eps
        sl = 4 * n * (n + 8) * EPS
        g = _matmul(_tr(q), q)
        bad = max(abs(g[i][j] - (1.0 if i == j else 0.0)) for i in range(n) for j in range(n))
        if not bad <= sl: out.append(("qr:orthogonal", f"max |Q^T Q - 1| = {bad!r} > {sl!r}"))
        low = [(i, j) for i in range(n) for j in range(i) if r[i][j] != 0.0]
        if low: out.append(("qr:upper-triangular", f"R{low[0]} = {r[low[0][0]][low[0][1]]!r} is not zero"))
        p = _matmul(q, r)
        bad = max(abs(p[i][j] - m[i][j]) for i in range(n) for j in range(n))
        if not bad <= sl * nm: out.append(("qr:product", f"max |Q R - M| = {bad!r} > {sl * nm!r} (|M| = {nm!r})"))
    elif op == "householder":
        if exited or timeout: return [("householder:exit", f"Householder_Matrix ended with {io}")]
        h, _ = _read_mat(o, 0); x = [m[i][0] for i in range(n)]
        if not any(x): return out                 # zero column: division by zero, outside the quantifier
        sl = 16 * n * EPS
        g = _matmul(_tr(h), h)
        if not max(abs(g[i][j] - (1.0 if i == j else 0.0)) for i in range(n) for j in range(n)) <= sl: out.append(("householder:orthogonal", "H^T H differs from 1"))
        if any(abs(h[i][j] - h[j][i]) > sl for i in range(n) for j in range(n)): out.append(("householder:symmetric", "H is not symmetric"))
        hx_ = [math.fsum(h[i][j] * x[j] for j in range(n)) for i in range(n)]; nx = math.sqrt(math.fsum(t * t for t in x))
        if not (abs(abs(hx_[0]) - nx) <= sl * nx and all(abs(t) <= sl * nx for t in hx_[1:])): out.append(("householder:reflects", f"H x = {hx_!r} is not +-|x| e1 (|x| = {nx!r})"))
        if x[0] != 0 and not hx_[0] * x[0] < 0: out.append(("householder:sign", "alpha does not have the sign opposite to x0"))
    elif op in ("eigenvalues", "eigensystem", "eigenvectors"):
        cls = ":exact-eigenvalue-shift" if _has_1x1_block(m) else ""
        pre = "eigenvalues" if op == "eigenvalues" else "eigensystem"       # Eigenvectors(M) is Eigensystem(M).second
        if timeout: return [(f"{pre}:timeout", f"{op} did not terminate within the time bound")]
        if exited:
            if op == "eigenvalues": return [("eigenvalues:exit", "Eigenvalues terminated the process on a symmetric matrix with separated eigenvalues")]
            # ':exact-eigenvalue-shift' marks the input class of the repaired defect (M has a row whose off-diagonal entries are all zero)
            return [("eigensystem:exit" + cls, f"{op} terminated the process on a symmetric matrix with separated eigenvalues")]
        # a priori slack for the eigenvalues: convergence tolerance (sub-diagonal mass < 1e-12 * sum |lambda|) + rounding of <= 200 sweeps
        sl_ev = (1e-12 * n + 200 * 4 * n * (n + 8) * EPS) * nm
        ref = _jacobi(m)
        if op == "eigenvalues":
            ev = o[1:1 + o[0]]
            if len(ev) != n: return [("eigenvalues:count", f"{len(ev)} eigenvalues for a {n} x {n} matrix")]
            if any(math.isnan(x) for x in ev): return [("eigenvalues:nan", "NaN eigenvalue")]
            bad = max(abs(a - b) for a, b in zip(sorted(ev), ref))
            if not bad <= sl_ev: out.append(("eigenvalues:spectrum", f"eigenvalues {sorted(ev)!r} differ from the Jacobi reference {ref!r} by {bad!r} > {sl_ev!r}"))
            tr = math.fsum(m[i][i] for i in range(n))
            if not abs(math.fsum(ev) - tr) <= n * sl_ev: out.append(("eigenvalues:trace", f"sum {math.fsum(ev)!r} differs from the trace {tr!r}"))
            det = _det_exact(m); prod = Fraction(1)
            for x in ev: prod *= Fraction(x)
            rel = math.fsum(sl_ev / abs(x) for x in ref) * 1.01 + 64 * EPS
            if not abs(prod - det) <= abs(det) * Fraction(rel): out.append(("eigenvalues:determinant", f"product {float(prod)!r} differs from the determinant {float(det)!r} (relative slack {rel!r})"))
        else:
            k = 0
            if op == "eigensystem":
                ev = o[1:1 + o[0]]; k = 1 + o[0]
            nv = o[k]; k += 1; vs = []
            for _ in range(nv):
                ln = o[k]; vs.append(o[k + 1:k + 1 + ln]); k += 1 + ln
            if nv != n or any(len(v) != n for v in vs): return [("eigensystem:count", f"{nv} eigenvectors for a {n} x {n} matrix")]
            if any(math.isnan(x) for v in vs for x in v): return [("eigensystem:nan", "NaN in an eigenvector")]
            # residual slack: the loop stops when the component-wise relative change of b is <= 1e-10; with contraction factor
            # delta/gap <= 1/2 the error of the last iterate is <= 1e-10 sqrt(n), the residual <= 2 |M| 1e-10 sqrt(n) <= 6e-10 |M|;
            # 1e-8 |M| leaves room for the explicit inverse of the nearly singular shifted matrix
            sl_res = 1e-8 * nm
            for idx, v in enumerate(vs):
                nv_ = math.sqrt(math.fsum(x * x for x in v))
                if not abs(nv_ - 1.0) <= 8 * n * EPS: out.append(("eigensystem:unit", f"eigenvector {idx} has norm {nv_!r}")); break
                mv = [math.fsum(m[i][j] * v[j] for j in range(n)) for i in range(n)]
                lam = ev[idx] if op == "eigensystem" else math.fsum(v[i] * mv[i] for i in range(n))
                res = math.sqrt(math.fsum((mv[i] - lam * v[i]) ** 2 for i in range(n)))
                if not res <= sl_res: out.append(("eigensystem:residual", f"|M v - lambda v| = {res!r} > {sl_res!r} for eigenpair {idx} (lambda = {lam!r})")); break
            # "for each eigenvalue": the returned pairs cover the whole spectrum (no eigenvalue returned twice, none missed)
            got = sorted(ev) if op == "eigensystem" else sorted(math.fsum(v[i] * math.fsum(m[i][j] * v[j] for j in range(n)) for i in range(n)) for v in vs)
            bad = max(abs(a - b) for a, b in zip(got, ref))
            if not bad <= max(sl_ev, sl_res): out.append(("eigensystem:spectrum", f"eigenvalues of the returned pairs {got!r} differ from the Jacobi reference {ref!r} by {bad!r}"))
    elif op in ("det", "inverse") and timeout:
        out.append((f"{op}:timeout", f"{op} did not terminate within the time bound"))
    elif op == "det":
        if exited: return [("det:exit", "Determinant terminated the process")]
        det = _det_exact(m); sc = nm ** n
        if not abs(Fraction(o[0]) - det) <= Fraction(64 * math.factorial(min(n, 6)) * EPS * sc): out.append(("det:value", f"Determinant = {o[0]!r}, exact value {float(det)!r}"))
    elif op == "inverse":
        det = _det_exact(m)
        if det == 0:
            if not exited: out.append(("inverse:singular", "Inverse returned for an exactly singular matrix"))
        elif exited: out.append(("inverse:exit", "Inverse terminated the process on a non-singular matrix"))
    return out
