"""C15 — QR factors and eigenpairs."""
import math
from fractions import Fraction
from vcheck import Case, hx, flist, parse_vals

PID = "C15"
RULE = ("non-trivial = a QR case with condition number > 1e3, a zero in the first column, a pivot column that is almost reduced already (non-zero part below the diagonal <= 1e-5 of the column) "
        "or an overall scale beyond 2^+-12, or a symmetric eigen-case with some "
        "eigenvalue ratio > 0.5, or with an eigenvector that has a zero component (diagonal / block-diagonal / permuted) or is a coordinate vector turned by a tiny angle (nearly diagonal), "
        "or eigenvalues of both signs, or an overall scale beyond 2^+-12, or a structured spectrum (vanishing / nearly vanishing trace, small integers, all ratios at an end of the range) "
        "or structured eigenvectors (orthogonal to a natural start vector of the inverse iteration, small-integer planes), or a zero / nearly zero diagonal (hollow), "
        "or tuned to need one of the last sweeps the iteration allows (150 .. 200), or tuned so that the entries below the diagonal of the iterate cancel in a signed sum at the first tested sweeps, "
        "or a helper case (Sign / Relative_Difference with a zero, opposite signs or arguments within 1e-6; Trace / Determinant / Invertible / Inverse on a non-square request, a size >= 3 or dependent rows; Householder statement by statement with n >= 2), "
        "or a coupled matrix with a diagonal entry equal (or next) to an eigenvalue, or a session (calls on one or two Matrix objects with in-place modifications between them); distinct by case text")
LEVEL_TEXT = ("Theorems (Coq, over the reals, every dimension n >= 1): for a non-zero first column x the model of Householder_Matrix returns H = 1 - 2 u u^T with u well defined "
              "(|x - alpha e1|^2 = 2(|x|^2 - alpha x0) >= 2|x|^2 > 0), alpha^2 = |x|^2, H symmetric, H^T H = 1 and H x = alpha e1; "
              "the construction is scale-free, Householder_Matrix(c M) = Householder_Matrix(M) for every c > 0 (C15_Proofs_Scale.v). "
              "The whole column loop of QR_Decomposition (C15_Proofs_QR.v, induction over the passes with the invariant 'Q orthogonal, Q R = M, R zero below the diagonal in the finished columns, "
              "R_submatrix = trailing block of R, finished diagonal entries non-zero'): for every n x n matrix M, n >= 1, the model returns (never exits), and if M is non-singular (M x = 0 -> x = 0; "
              "implied by a left inverse) then in no pass the remaining pivot column is zero, Q^T Q = Q Q^T = 1, R i j = 0 for j < i with non-zero diagonal, and Q R = M entry by entry; "
              "the same three clauses hold under the weaker, exactly stated pass-by-pass hypothesis qr_pivots_ok (no pass divides by zero); the overwriting R[j][i] = 0.0 changes nothing over the reals. "
              "All sweeps of Eigenvalues: whatever the model returns for a non-singular square M is the diagonal of a matrix A = Q^T M Q with Q orthogonal that passed the code's convergence test, "
              "there are n values, their sum is trace(M) exactly, every iterate is non-singular, and A is symmetric when M is; one sweep is the similarity R Q = Q^T A Q (trace and symmetry kept). "
              "Convergence, on the diagonal matrices of the quantifier (C15_Proofs_Diag.v): for every n >= 1 and every diagonal M with non-zero diagonal the model of Eigenvalues returns "
              "(does not exit after 200 sweeps) exactly the diagonal of M in its order (C15_eigenvalues_of_diagonal, _of_diagonal_list; each sweep's Q is a diagonal matrix of signs because it is orthogonal and "
              "R = Q^T M is upper triangular, so R Q = M as a list of rows: C15_qr_sweep_fixes_diagonal); S4 checks the library's answer on exactly diagonal inputs for equality (eigenvalues:diagonal-order). "
              "Matrix::Inverse as called by Find_Eigenvector_Rayleigh (C15_Proofs_Inv.v, induction over the Gauss-Jordan steps with partial pivoting, every n): whatever the model returns for A is an n x n B with B A = 1 "
              "and trivial kernel (C15_inverse_is_left_inverse), symmetric and also a right inverse when A is symmetric (C15_inverse_of_symmetric). Hence, with hypotheses on M only: "
              "every vector Find_Eigenvector_Rayleigh returns is a unit vector of the dimension of M, whichever value is passed as eigenvalue (C15_rayleigh_returns_unit_vector; the older C15_inverse_iteration_unit "
              "carries a hypothesis over vectors of every length that no matrix meets and is superseded); when Inverse returns, the shift is no eigenvalue of M and the inverse scales each eigenvector of M by 1 / (lambda - shift) "
              "(C15_inverse_scales_eigenvectors); if the start vector (1, 1/2, .., 1/n) is an eigenvector of M the call returns it with its own eigenvalue whichever eigenvalue was asked for "
              "(C15_rayleigh_start_vector_eigenvector), and for symmetric M the returned vector is orthogonal to every eigenvector the start vector is orthogonal to (C15_rayleigh_keeps_orthogonality): "
              "over the reals the clause 'for each eigenvalue a vector with M v = lambda v' is false of the model on such inputs (C15_rayleigh_each_eigenvalue_refuted, witness [[16,-2],[-2,19]] asked for 20, answered (15, (2,1)/sqrt 5)); "
              "the library answers that witness correctly through rounding noise (replayed) and fails on [[-1,-2],[-2,2]] (known finding K-C15-5). "
              "Non-vacuity: concrete non-singular 2 x 2 matrices (one symmetric), Eigenvalues returns [a] on the 1 x 1 matrix (a), a <> 0, diag(3, -2, 1/2), and Inverse / Find_Eigenvector_Rayleigh return on [[16,-2],[-2,19]] - (20 + 25e-8) 1. "
              "For x = 0 the code divides by zero (refuted-by-example in the float run: NaN). "
              "Not theorems: convergence of the unshifted QR iteration on non-diagonal matrices (that Eigenvalues returns instead of exiting after 200 sweeps), that Inverse returns (its determinant guard and zero-pivot exit are only tested), "
              "that the inverse iteration converges to an eigenvector (M v = lambda v is only tested), that the returned diagonal is close to the eigenvalues "
              "(only: diagonal of an orthogonally similar matrix whose sub-diagonal mass is below 1e-12 of the diagonal mass), the clause 'multiplies to the determinant' "
              "(no theorem relates the model's Determinant to the product), termination and accuracy of the inverse iteration, everything about rounding "
              "(in floating point Q^T Q = 1 and Q R = M hold only to rounding, and the zeros below the diagonal of R exist because the code writes them). "
              "Those clauses are covered by the differential run of the extracted model against the library (bit-identical) and by the S4 predicates on the library's output "
              "(Q^T Q = 1, R upper triangular, Q R = M norm-wise and column by column; eigenvalues against an independent Jacobi routine, trace, exact-rational determinant; unit eigenvectors with M v = lambda v; termination within the runner's time bound). "
              "The predicates are scale-free (evaluated on M / 2^e and the outputs / 2^e) and the generators move every operation along a ladder of overall scales 1e-305 .. 1e305, put pivot columns and eigenvector angles "
              "at relative sizes 1e-16 .. 1e-6, drive several calls on one Matrix object, and produce spectra with linear relations (trace zero, or 1e-16 .. 1e-6 of sum |lambda|; small integers; all ratios 0.8 / 0.1) "
              "and eigenvectors orthogonal to the vectors an inverse iteration may start from ((1, 1/2, .., 1/n), (1, .., 1), e_1, ...: in all coordinates, inside a coordinate block, or turned out of the complement by 1e-16 .. 1e-6); "
              "Matrices with a zero diagonal (hollow: all, some or nearly all diagonal entries vanish, so that every scale taken from the diagonal vanishes) run along the same scale ladder; "
              "matrices are tuned, with a reference run of the sweeps, to pass the convergence test of Eigenvalues for the first time after sweep 200, 199, .. 150 (the iteration cap, last sweep included); "
              "sessions drive several calls on one or two Matrix objects while the caller rewrites the object between the calls (rows and columns exchanged, diagonal entries exchanged, -M, 2^k M, M^T, copy to / switch to a second object: "
              "modifications that keep dimension, trace and norm among them) and check every answer against the value the object has at that call "
              "(theorem C15_session_call_is_fresh: in the model a call is a function of the current value; C15_relabelling_keeps_trace / _norm / _symmetry / _moves_eigenvectors: relabelling keeps trace, norm and spectrum and permutes the eigenvector components). "
              "over the reals the loop of Find_Eigenvector_Rayleigh never leaves the orthogonal complement of an eigenvector of the symmetric M_inv and stops at once at a start vector that is an eigenvector "
              "(theorems C15_inverse_iteration_keeps_orthogonality, C15_inverse_iteration_stays_at_eigen_start), so for these inputs the clause rests on rounding noise and on the S4 predicates alone. "
              "The stopping test (C15_Proofs_Stop.v): a matrix that passes the test of Eigenvalues has EVERY entry below the diagonal under 1e-12 of the diagonal mass "
              "(C15_converged_bounds_every_entry; the test adds absolute values, so entries of opposite sign cannot cancel: C15_cancelling_entries_do_not_pass), hence what Eigenvalues returns "
              "for a non-singular symmetric M is the diagonal of an orthogonally similar matrix all of whose off-diagonal entries are that small (C15_eigenvalues_every_entry_small); "
              "the generator tunes dense matrices, with a reference run of the sweeps and a bisection on a rotation angle, until the entries below the diagonal of the iterate after sweep 12 .. 16 "
              "(1e-3 .. 1e-1 each) cancel to 1e-15 in a linear functional (signed sum, signed sub-diagonal, last row, first column, alternating sum), where only the absolute test keeps the iteration going. "
              "Exact coincidences between entries and eigenvalues: a matrix that commutes with the exchange of two coordinates i, j has the eigenvector e_i - e_j with eigenvalue m_ii - m_ij "
              "(C15_exchange_symmetric_eigenvector), and e_k is an eigenvector of no matrix in which coordinate k is coupled, whatever stands at m_kk (C15_coupled_coordinate_not_eigenvector); "
              "the generator produces such small-integer / dyadic matrices with m_kk equal to that eigenvalue (exactly, at 1 .. 1000 ulp, at 1e-16 .. 1e-6) for Eigensystem, Eigenvectors, Eigenvalues, sessions, "
              "and asks Find_Eigenvector_Rayleigh for exactly that value; S4 checks M v = lambda v on the pair Find_Eigenvector_Rayleigh returns whenever the value asked for is an eigenvalue (rayleigh:residual, rayleigh:eigenvalue). "
              "The shift of the inverse iteration (C15_Proofs_Gap.v, induction over the spectrum as a list): for every spectrum of the quantifier in the order of decreasing magnitude "
              "(any length <= 7, neighbouring ratios in 0.1 .. 0.8, either sign: 'graded') and |M|^2 = sum lambda^2 (Frobenius norm of a symmetric matrix: carried as a premise for general M; a theorem for every diagonal matrix, C15_norm_of_diagonal, which gives C15_rayleigh_shift_selects_on_diagonal with hypotheses on the spectrum only) "
              "any two eigenvalues differ by at least 2e-6 of the largest magnitude and |M| <= |lambda_max| / 0.6, so the model's shift lambda_i + 1e-8 |M| is no eigenvalue and at least 100 times nearer to lambda_i "
              "than to any other eigenvalue (C15_rayleigh_shift_selects_requested_eigenvalue), i.e. the inverse scales every other eigenvector by at most 1/100 of the factor of the requested one "
              "(C15_rayleigh_amplification_ratio, with C15_inverse_scales_eigenvectors); in general an offset c |M| keeps the shift K times nearer whenever c (K + 1) <= 1.2e-6 (C15_shift_offset_selects), "
              "and a bound of that size is needed: for the spectrum 1, 1e-1, .., 1e-5, 8e-6 of the quantifier an offset of 1.5e-6 |M| puts the shift for 8e-6 nearer to 1e-5 (C15_shift_offset_bound_is_needed). "
              "These are statements about the shift only: that the loop then converges to the requested eigenvector remains untested by proof and is covered by S4. "
              "The generator aims at that corner of the ratio box ('corner' cases: every ratio at or near an end 0.1 / 0.8, graded spectra with a close pair at the small end, at the large end, anywhere; same and opposite sign; "
              "sizes 1..7 with 6 and 7 most often; all eigenvector classes; Eigensystem, Eigenvectors, Eigenvalues, sessions and Find_Eigenvector_Rayleigh asked for both members of the closest pair), and S4 evaluates "
              "'the returned pairs cover every eigenvalue' both on the values (eigensystem:spectrum) and on the vectors (eigensystem:orthogonal: |v_i . v_j| <= 2 * residual slack / smallest gap for distinct eigenvalues). "
              "Seventh pass (C15_Model2.v, C15_Proofs_Helpers.v, C15_GenTie.v; table of modelled code: coverage/C15.md): the scalar helpers and the guards are now model terms compared with the library on every run "
              "(ops scalars, trace, detg, invertible, invg, householder_steps; non-square requests among them): Sign(double), Sign(double, double), Relative_Difference, Matrix::Square / Trace / Invertible, the guards of Determinant and Inverse, "
              "Eigenvectors, and Householder_Matrix statement by statement through Outer_Vector_Product, Product(double), Minus, Identity_Matrix. Theorems: Relative_Difference (the anchor's convergence metric) is total over the reals, 0 at (0, 0), inside [0, 2], "
              "symmetric and 0 exactly on equal arguments (C15_relative_difference_total_metric); Sign(x, y) is |x| with the sign of y and squares to x^2 (C15_sign_transfers_sign); a non-square request ends the process in Trace, Determinant, Inverse and is not Invertible, "
              "in every number type (C15_nonsquare_requests_rejected); what the guarded Inverse returns is a left inverse (C15_guarded_inverse_is_left_inverse); Matrix::Trace returns the sum of the diagonal and the values Eigenvalues returns add up to exactly "
              "the value Trace returns (C15_library_trace, C15_eigenvalues_sum_is_library_trace); Eigenvectors = second components of Eigensystem (C15_eigenvectors_are_eigensystem_second). "
              "T-tie: Sign, Sign(x, y), Relative_Difference are regenerated from clang's AST of src/Special_Functions.cpp on every run (Gen_C15_Formulas.v) and proved equal to the hand model, and alpha of Householder_Matrix is the generated Sign(x.Norm(), -x[0]) "
              "(C15_generated_Sign_is_model, _Sign2_is_model, _Relative_Difference_is_model, _Sign2_is_householder_alpha; under LitLaws: the literals 0.0, 1.0 are 0, 1, which holds in the reals, C15_literal_laws_hold_in_R). "
              "Not a theorem: householder_steps = householder (both terms are run against the library and must agree with it bit for bit). "
              "Where the library leaves the property at the ends of the double range, on matrices whose leading coordinate subspaces miss a dominant eigenvector, or when the start vector is an eigenvector, "
              "the failing clause carries the input region in its signature (known_findings.d/C15.json: K-C15-1..5).")
LEVEL_NOTE = ("Coq 8.16.1 kernel, theorems over R (axioms of the real numbers as printed by Print Assumptions); hand-written model tied by differential correspondence "
              "(extraction with ExtrOcamlBasic only); Sign / Sign(x,y) / Relative_Difference additionally tied by translation from clang's AST (tools/cxx2gallina.py) with the literal laws LitLaws as the only premise; coverage/C15.md lists which code is modelled line by line, by specification, or not; every loop of the modelled code is bounded by a literal (200 sweeps, 100 inverse iterations)")
TOL = (1e-12, 1e-300)
TRUSTED = ["libm sqrt / fabs are IEEE operations on both sides; the Python references (Jacobi sweeps, Fraction determinant, Gram-Schmidt) are independent of the model"]
ASSUMPTIONS = ["the symmetric test matrices are Q diag(lambda) Q^T formed in floating point and then symmetrised exactly (M[i][j] = M[j][i])",
               "overall scales are exact powers of two applied to a matrix of moderate scale, so that condition number and eigenvalue ratios are those of the unscaled matrix",
               "QR_Decomposition of a singular matrix whose remaining first column is exactly zero divides by zero (NaN): outside the quantifier (non-singular matrices)"]

def regenerate():
    """T-tie: coq/Gen_C15_Formulas.v (Sign(double), Sign(double, double), Relative_Difference of src/Special_Functions.cpp) is regenerated from
    clang's AST on every run; coq/C15_GenTie.v proves the generated terms equal to the hand model (sign_int, sign_xy, relative_difference of
    C15_Model2.v, and sign2 of Num.v which householder_alpha uses), so a change of these functions breaks a proof obligation before any case is run."""
    import os, vbuild, cxx2gallina as c
    d = "double"
    fns = [c.Fn("Sign", [d], "g_Sign"), c.Fn("Sign", [d, d], "g_Sign2"), c.Fn("Relative_Difference", [d, d], "g_Relative_Difference")]
    try:
        txt = c.translate_all(os.path.join(vbuild.REPO, "src", "Special_Functions.cpp"), fns, [os.path.join(vbuild.REPO, "include")])
    except c.Unsupported as e:
        raise RuntimeError(f"tools/cxx2gallina.py cannot translate src/Special_Functions.cpp: {e}")
    ch = c.write_if_changed(os.path.join(vbuild.VERIF, "coq", "Gen_C15_Formulas.v"), txt)
    return "Gen_C15_Formulas.v regenerated from the current source" if ch else ""


# a call that runs into the runner's time bound is reported by predicates() under "<op>:timeout" (every op)
ALLOW_TIMEOUT = True
EPS = 2.0 ** -53


# ---------------------------------------------------------------- linear-algebra helpers (plain Python, independent of the model)
def _matmul(a, b): return [[math.fsum(a[i][k] * b[k][j] for k in range(len(b))) for j in range(len(b[0]))] for i in range(len(a))]
def _tr(a): return [list(r) for r in zip(*a)]
def _fro(a): return math.sqrt(math.fsum(x * x for r in a for x in r))


def _rand_orth(rng, n):
    """random orthogonal matrix by modified Gram-Schmidt (twice) on a Gaussian matrix; rows orthonormal"""
    while True:
        g = [[rng.gauss(0, 1) for _ in range(n)] for _ in range(n)]
        q = []
        ok = True
        for v in g:
            for _ in range(2):
                for w in q:
                    d = math.fsum(x * y for x, y in zip(v, w)); v = [x - d * y for x, y in zip(v, w)]
            nv = math.sqrt(math.fsum(x * x for x in v))
            if nv < 1e-3: ok = False; break
            q.append([x / nv for x in v])
        if ok: return q


def _block_orth(rng, n, blocks):
    """block-diagonal orthogonal matrix with the given block sizes"""
    q = [[0.0] * n for _ in range(n)]; o = 0
    for b in blocks:
        sub = _rand_orth(rng, b)
        for i in range(b):
            for j in range(b): q[o + i][o + j] = sub[i][j]
        o += b
    return q


def _sym_from(q, lam):
    n = len(lam)
    m = [[math.fsum(q[k][i] * lam[k] * q[k][j] for k in range(n)) for j in range(n)] for i in range(n)]   # rows of q are the eigenvectors
    for i in range(n):
        for j in range(i): m[i][j] = m[j][i]
    return m


def _mline(op, m, extra=""): return f"{op} {len(m)} " + " ".join(flist(r) for r in m) + extra


def _jacobi(m, vectors=False):
    """cyclic Jacobi eigenvalue iteration for a symmetric matrix (reference, accurate to a few n eps |M|); with vectors=True returns
    (values, vectors) unsorted, vectors[k] belonging to values[k]"""
    n = len(m); a = [list(r) for r in m]; v = [[1.0 if i == j else 0.0 for j in range(n)] for i in range(n)]
    for _ in range(60):
        off = math.sqrt(math.fsum(a[i][j] ** 2 for i in range(n) for j in range(n) if i != j))
        if off <= 1e-18 * max(_fro(a), 1e-300): break
        for p in range(n - 1):
            for q in range(p + 1, n):
                if a[p][q] == 0.0: continue
                th = (a[q][q] - a[p][p]) / (2.0 * a[p][q])
                t = (1.0 if th >= 0 else -1.0) / (abs(th) + math.sqrt(th * th + 1.0))
                c = 1.0 / math.sqrt(t * t + 1.0); s = t * c
                for k in range(n):
                    akp, akq = a[k][p], a[k][q]; a[k][p] = c * akp - s * akq; a[k][q] = s * akp + c * akq
                for k in range(n):
                    apk, aqk = a[p][k], a[q][k]; a[p][k] = c * apk - s * aqk; a[q][k] = s * apk + c * aqk
                if vectors:
                    for k in range(n):
                        vkp, vkq = v[k][p], v[k][q]; v[k][p] = c * vkp - s * vkq; v[k][q] = s * vkp + c * vkq
    if vectors: return [a[i][i] for i in range(n)], [[v[k][i] for k in range(n)] for i in range(n)]
    return sorted(a[i][i] for i in range(n))


def _sweeps_estimate(ms, info=None):
    """A priori estimate of the number of sweeps the UNSHIFTED QR iteration needs on the symmetric matrix ms until the mass below the
    diagonal is 1e-12 of the diagonal: it is subspace iteration started from the coordinate subspaces span(e_1..e_p), whose distance to
    the dominant invariant subspace shrinks by |lambda_(p+1) / lambda_p| per sweep from its initial value
    t_p = |W2 W1^-1| (W = eigenvectors, sorted by decreasing |lambda|, restricted to the first p coordinates; W1 its upper p x p part):
    sweeps_p = ln(max(t_p, 1) * 1e12) / ln |lambda_p / lambda_(p+1)|.  t_p is huge (1 / angle) for a nearly diagonal matrix whose
    diagonal is not in the order of decreasing magnitude, and for every matrix in which span(e_1..e_p) contains an eigenvector that does
    not belong to the p dominant ones (W1 singular: e.g. eigenvector (1, -1, 0) of the smallest eigenvalue); index sets that are decoupled
    exactly (zero pattern) are split off first, because there the sweeps keep the pattern and no rounding noise couples them."""
    n = len(ms)
    # exactly decoupled index sets (connected components of the non-zero pattern, contiguous or interleaved) iterate independently
    comp = list(range(n))
    for i in range(n):
        for j in range(i):
            if ms[i][j] != 0.0 or ms[j][i] != 0.0:
                a_, b_ = comp[i], comp[j]
                if a_ != b_: comp = [a_ if x == b_ else x for x in comp]
    if len(set(comp)) > 1:
        return max(_sweeps_estimate([[ms[i][j] for j in range(n) if comp[j] == c] for i in range(n) if comp[i] == c], info) for c in set(comp))
    lam, vec = _jacobi(ms, vectors=True)
    order = sorted(range(n), key=lambda k: -abs(lam[k])); lam = [lam[k] for k in order]; vec = [vec[k] for k in order]
    worst = 0.0
    for p in range(1, n):
        if lam[p] == 0.0 or abs(lam[p]) >= abs(lam[p - 1]): continue
        w1 = [[Fraction(vec[i][j]) for j in range(p)] for i in range(p)]; w2 = [[Fraction(vec[i][j]) for j in range(p)] for i in range(p, n)]
        # X = W2 W1^-1 by exact Gauss-Jordan on the columns (p <= 6)
        a = [r[:] for r in w1]; b = [r[:] for r in w2]; ok = True
        for c in range(p):
            pr = next((r for r in range(c, p) if a[c][r] != 0), None)      # column operations: pivot inside row c
            if pr is None: ok = False; break
            if pr != c:
                for row in a + b: row[c], row[pr] = row[pr], row[c]
            d = a[c][c]
            for row in a + b: row[c] /= d
            for c2 in range(p):
                if c2 != c:
                    f = a[c][c2]
                    if f != 0:
                        for row in a + b: row[c2] -= f * row[c]
        t = math.sqrt(float(sum(x * x for r in b for x in r))) if ok else math.inf
        # W1 singular to working precision (a dominant eigenvector orthogonal to span(e_1..e_p) up to rounding): the coupling the iteration
        # starts from is rounding noise, anything between 2^-57 and 2^-49 that the input does not determine; the estimate takes the smallest
        if t > 2.0 ** 49: t = max(t, 2.0 ** 57) if t < math.inf else 2.0 ** 57
        if t > 2.0 ** 40 and info is not None: info["noise"] = True    # a coupling this small is changed by the rounding of the first sweeps
        worst = max(worst, math.log(max(t, 1.0) * 1e12) / math.log(abs(lam[p - 1]) / abs(lam[p])))
    return worst


def _qr_sweeps_sim(ms, kmax=200):
    """Reference run of the unshifted QR iteration A <- R Q (Householder reflectors applied as rank-one updates, never formed): the relative
    sub-diagonal mass sum_{k>j} |a_kj| / sum_j |a_jj| after sweep 1, 2, .., kmax.  Eigenvalues() tests it against 1e-12 after the sweeps
    12 .. 200 (loop index i > 10, i < 200).  Written independently of the model; it differs from the library in rounding only."""
    n = len(ms); a = [list(r) for r in ms]; out = []
    for _ in range(kmax):
        us = []
        for k in range(n - 1):
            x = [a[i][k] for i in range(k, n)]
            nx = math.sqrt(sum(t * t for t in x))
            if nx == 0.0: us.append(None); continue
            u = list(x); u[0] += math.copysign(nx, x[0])
            nu = math.sqrt(sum(t * t for t in u))
            if nu == 0.0: us.append(None); continue
            u = [t / nu for t in u]; us.append(u)
            for j in range(k, n):
                d = 2.0 * sum(u[i] * a[k + i][j] for i in range(n - k))
                for i in range(n - k): a[k + i][j] -= d * u[i]
            for i in range(k + 1, n): a[i][k] = 0.0
        for k, u in enumerate(us):                  # A' = R H_0 H_1 ..
            if u is None: continue
            for row in a:
                d = 2.0 * sum(row[k + j] * u[j] for j in range(n - k))
                for j in range(n - k): row[k + j] -= d * u[j]
        sm = sum(abs(a[j][j]) for j in range(n)); off = sum(abs(a[k][j]) for j in range(n) for k in range(j + 1, n))
        out.append(off / sm if sm > 0 else math.inf)
    return out


def _first_converged(offs, thr=1e-12):
    """number (1-based) of the first sweep >= 12 after which the convergence test of Eigenvalues() holds with threshold thr; None: never"""
    return next((k + 1 for k, x in enumerate(offs) if k + 1 >= 12 and x < thr), None)


def _slow_reordering(ms):
    """Region of K-C15-4 for a call that ended with 'did not converge in 200 steps': the a priori estimate of the sweep count is >= 195, and
    the count is either not determined by the input (coupling between a leading coordinate subspace and the dominant invariant subspace
    below 2^-40: it is set by rounding noise) or the reference run of the iteration needs more than the 200 sweeps as well.  A matrix whose
    reference run passes the convergence test with a margin of 10 % at some sweep <= 200 is NOT in the region: there the library had the
    sweeps it needs (the iteration cap itself is checked, sweep 200 included)."""
    info = {}
    if not _sweeps_estimate(ms, info) >= 195.0: return False
    if info.get("noise"): return True
    return _first_converged(_qr_sweeps_sim(ms, 200), 0.9e-12) is None


def _det_exact(m):
    """determinant of the double matrix in exact rational arithmetic"""
    n = len(m); a = [[Fraction(x) for x in r] for r in m]; det = Fraction(1)
    for i in range(n):
        p = next((r for r in range(i, n) if a[r][i] != 0), None)
        if p is None: return Fraction(0)
        if p != i: a[i], a[p] = a[p], a[i]; det = -det
        det *= a[i][i]
        for r in range(i + 1, n):
            f = a[r][i] / a[i][i]
            if f != 0:
                for c in range(i, n): a[r][c] -= f * a[i][c]
    return det


# ---------------------------------------------------------------- scale handling (every reference below works on the matrix scaled to max |entry| in [1/2, 1))
def _ldexp(x, k):
    try: return math.ldexp(x, k)
    except OverflowError: return math.copysign(math.inf, x)


def _normalise(m):
    """(m * 2^-e, e) with the largest finite |entry| of the result in [1/2, 1); exact except for entries that become subnormal"""
    mx = max((abs(x) for r in m for x in r if isinstance(x, float) and x == x and not math.isinf(x)), default=0.0)
    if mx == 0.0: return [list(r) for r in m], 0
    e = math.frexp(mx)[1]
    return [[_ldexp(x, -e) for x in r] for r in m], e


def _scale(m, k): return [[_ldexp(x, k) for x in r] for r in m]


def _scale_finite(m, k):
    """(m * 2^k', k') with k' = k lowered as far as needed for every entry to stay finite"""
    mx = max((abs(x) for r in m for x in r), default=0.0)
    if mx > 0.0: k = min(k, 1023 - math.frexp(mx)[1])
    return _scale(m, k), k
def _log2(x): return math.log2(x) if x > 0 else -math.inf


def _ref_pivots(ms):
    """|r_ii| of a Householder QR of the (normalised) matrix = the norms of the pivot columns of the successive passes"""
    n = len(ms); a = [list(r) for r in ms]; piv = []
    for k in range(n):
        x = [a[i][k] for i in range(k, n)]; nx = math.sqrt(math.fsum(t * t for t in x)); piv.append(nx)
        if nx == 0.0: continue
        alpha = -math.copysign(nx, x[0]); u = list(x); u[0] -= alpha; nu = math.sqrt(math.fsum(t * t for t in u))
        if nu == 0.0: continue
        u = [t / nu for t in u]
        for j in range(k, n):
            d = 2.0 * math.fsum(u[i] * a[k + i][j] for i in range(n - k))
            for i in range(n - k): a[k + i][j] -= d * u[i]
    return piv


# Regions of the input space in which the library is known to leave the property (known_findings.d/C15.json); they are computed from the
# INPUT alone and are appended to the signature of a failing clause, so that the same clause stays checked everywhere else.
#   norm-overflow / norm-underflow: Vector::Norm and Matrix::Norm are sqrt(sum of squares) without scaling; the squares of a pivot column
#   leave the double range when its norm is >= 2^511 or lose their bits below 2^-511 sqrt(n) (region taken as >= 2^510, < 2^-505).
#   iterate-norm-overflow (Eigensystem): the same Norm applied to M_inv b, of length 1 / (1e-8 |M|), i.e. |M| <= 1e8 2^-505.
#   slow-reordering (exit of Eigenvalues): a priori estimate of the sweeps of the unshifted iteration (_sweeps_estimate) >= 195 of the 200 allowed, and the
#   reference run of the sweeps (_qr_sweeps_sim) does not pass the convergence test by sweep 200 either, or the count is set by rounding noise (_slow_reordering).
#   det-underflow: Matrix::Inverse refuses a matrix whose Laplace determinant underflows (exact |det| below the underflow allowance).
#   start-vector-eigenvector (Eigensystem): the fixed start vector (1, 1/2, .., 1/n) of the inverse iteration is an eigenvector of M to rounding.
_HI, _LO = 510.0, -505.0


def _norm_region(lo, hi, e):
    """lo, hi: smallest / largest pivot-column norm of the normalised matrix; e its binary exponent"""
    if _log2(hi) + e >= _HI: return ":norm-overflow"
    if _log2(lo) + e < _LO: return ":norm-underflow"
    return ""


def _det_allow(n): return 2 * math.factorial(n) * n          # in units of 2^-1074


def _shifted_det_underflows(ref, nms, e):
    """Inverse(M - shift 1) with shift = lambda_i + 1e-8 |M|: is some |det| = 1e-8 |M| prod_{j != i} |lambda_j - shift| below twice the
    underflow allowance of the Laplace sum?  ref = eigenvalues of the normalised matrix, nms its norm."""
    n = len(ref)
    if n < 2: return False
    for i in range(n):
        sh = ref[i] + 1e-8 * nms
        lg = math.fsum(_log2(abs(ref[j] - sh)) for j in range(n)) + n * e
        if lg < -1074 + math.log2(2 * _det_allow(n)): return True
    return False


def _start_vector_is_eigenvector(ms, nms):
    """Is the start vector b0 = (1, 1/2, .., 1/n) / |..| of the inverse iteration an eigenvector of the (normalised) matrix up to the rounding
    of the matrix entries, |M b0 - (b0 . M b0) b0| <= 64 n eps |M|?  Then M_inv b0 is parallel to b0, the first step changes b by less than
    1e-15 and the loop stops at b0, whichever eigenvalue was asked for (coq: C15_inverse_iteration_stays_at_eigen_start)."""
    n = len(ms)
    if n < 2: return False
    b0 = [1.0 / (1.0 + i) for i in range(n)]; nb = math.sqrt(math.fsum(x * x for x in b0)); b0 = [x / nb for x in b0]
    mb = [math.fsum(ms[i][j] * b0[j] for j in range(n)) for i in range(n)]; rho = math.fsum(x * y for x, y in zip(b0, mb))
    return math.sqrt(math.fsum((x - rho * y) ** 2 for x, y in zip(mb, b0))) <= 64 * n * EPS * nms


# ---------------------------------------------------------------- generators
def _rel(rng):
    """a relative size from the geometric ladder 1e-16 .. 1e-6, with the neighbourhood of sqrt(eps) (where squares vanish against 1) over-weighted"""
    k = rng.random()
    if k < 0.55: return 10 ** rng.uniform(-16.3, -5.7)
    if k < 0.85: return 2.0 ** rng.uniform(-30, -24)
    return rng.choice([2.0 ** -26, 2.0 ** -27, 2.0 ** -26.5, 2.0 ** -25, 1e-8, 1.5e-8, 2e-8, 5e-9, 1e-9, 1e-12, 1e-15, 2.0 ** -52, 2.0 ** -53])


# decimal exponents of the overall scale: a ladder from just off 1 to the ends of the double range
_SCALES = [4, 5, 6, 7, 8, 9, 10, 12, 14, 16, 20, 25, 30, 38, 45, 50, 60, 80, 100, 120, 140, 150, 152, 153, 154, 155, 160, 162, 170, 200, 250, 290, 300, 305]


def _pick_scale(rng, tame=False):
    """(binary exponent, tag); tame: only scales at which every operation is expected to work for n <= 7 (|M| in 1e-38 .. 1e38)"""
    d = rng.choice([x for x in _SCALES if x <= 38] if tame else _SCALES) * rng.choice([1, -1, -1])
    return round(d * math.log2(10)), ("scale-huge" if d > 0 else "scale-tiny") + ("-extreme" if abs(d) >= 140 else "")


def _gen_dense(rng, n, kmax=6.0):
    kappa = 10 ** rng.uniform(0, kmax); scale = 10 ** rng.uniform(-3, 3)
    u, v = _rand_orth(rng, n), _rand_orth(rng, n)
    sig = [scale * kappa ** (-(k / (n - 1) if n > 1 else 0.0)) for k in range(n)]
    m = [[math.fsum(u[k][i] * sig[k] * v[k][j] for k in range(n)) for j in range(n)] for i in range(n)]
    return m, kappa


def _cond_proxy(m):
    ms, _ = _normalise(m); p = _ref_pivots(ms)
    return max(p) / min(p) if min(p) > 0 else math.inf


def _gen_near_reduced(rng, n):
    """non-singular n x n matrices (n >= 2) in which the pivot column of some pass p is ALMOST reduced already: its part below the
    diagonal is non-zero but smaller than the diagonal entry by a factor from the ladder 1e-16 .. 1e-6.  Returns (m, tag, sub) with
    sub = the trailing block whose first column is that pivot column."""
    kind = rng.random()
    if kind < 0.25:
        # nearly upper triangular: every entry below the diagonal is its own small multiple of the diagonal entry above it
        m, _ = _gen_dense(rng, n, 2.0)
        for i in range(n):
            for j in range(i): m[i][j] = 0.0
        for j in range(n):
            if abs(m[j][j]) < 1e-2 * max(abs(x) for x in m[j]): m[j][j] = math.copysign(max(abs(x) for x in m[j]), m[j][j] or 1.0)
        same = rng.random() < 0.5; e0 = _rel(rng)
        for j in range(n - 1):
            for i in range(j + 1, n):
                if rng.random() < 0.8: m[i][j] = m[j][j] * (e0 if same else _rel(rng)) * rng.choice([1.0, -1.0]) * rng.uniform(0.5, 1.0)
        if not any(m[i][0] for i in range(1, n)): m[n - 1][0] = m[0][0] * e0
        return m, "near-triangular", m
    p = rng.randint(0, n - 2); k = n - p
    b, _ = _gen_dense(rng, k, 1.5)
    d = max(abs(x) for r in b for x in r) * rng.choice([1.0, -1.0]) * rng.uniform(0.3, 3.0)
    e0 = _rel(rng); b[0][0] = d
    g = [rng.choice([1.0, -1.0]) * rng.uniform(0.3, 1.0) if rng.random() < 0.7 else 0.0 for _ in range(k - 1)]
    if not any(g): g[rng.randrange(k - 1)] = 1.0
    for i in range(1, k): b[i][0] = d * e0 * g[i - 1]
    if rng.random() < 0.35:                     # the nearly reduced column is short or long compared with the other columns
        cs_ = 10 ** rng.uniform(-3, 3)
        for i in range(k): b[i][0] *= cs_
    m = [[0.0] * n for _ in range(n)]
    for i in range(p):
        for j in range(i, n): m[i][j] = rng.gauss(0, 1) * abs(d)
        m[i][i] = abs(d) * rng.choice([1.0, -1.0]) * rng.uniform(0.5, 2.0)
    for i in range(k):
        for j in range(k): m[p + i][p + j] = b[i][j]
    tag = f"near-reduced-pass{min(p, 2)}{'+' if p > 2 else ''}"
    if p > 0 and rng.random() < 0.4:            # hidden behind a dense first pass: M -> Q0 M
        q0 = _rand_orth(rng, n); m = _matmul(q0, m); tag += "-rotated"
    return m, tag, b


def _gen_spectrum(rng, n):
    lam = [10 ** rng.uniform(-2, 2)]
    for _ in range(n - 1): lam.append(lam[-1] * rng.uniform(0.1, 0.8))
    mode = rng.random()
    if mode < 0.6: lam = [x * rng.choice([1.0, -1.0]) for x in lam]     # either sign
    elif mode < 0.7: lam = [-x for x in lam]
    return lam


def _rotate_rows(q, i, j, th):
    c, s = math.cos(th), math.sin(th)
    qi = [c * a - s * b for a, b in zip(q[i], q[j])]; qj = [s * a + c * b for a, b in zip(q[i], q[j])]
    q[i], q[j] = qi, qj


def _gen_sym(rng, n, lam=None):
    """(matrix, spectrum, tag); lam: prescribed spectrum (default: a random one)"""
    lam = _gen_spectrum(rng, n) if lam is None else list(lam)
    kind = rng.random()
    if n == 1 or kind < 0.12:
        rng.shuffle(lam); q = [[1.0 if i == j else 0.0 for j in range(n)] for i in range(n)]; tag = "diagonal"
    elif kind < 0.30 and n >= 3:
        blocks = []; left = n
        while left > 0:
            b = rng.randint(1, min(3, left)); blocks.append(b); left -= b
        if all(b == 1 for b in blocks): blocks = [2] + [1] * (n - 2)
        rng.shuffle(blocks); rng.shuffle(lam); q = _block_orth(rng, n, blocks)
        tag = "block-diagonal" + ("-with-1x1" if 1 in blocks else "")
        if rng.random() < 0.4:                  # the same block structure on interleaved (non-contiguous) index sets
            perm = list(range(n)); rng.shuffle(perm); q = [[q[i][perm[j]] for j in range(n)] for i in range(n)]; tag += "-permuted"
    elif kind < 0.40 and n >= 2:
        # plane rotation in one coordinate plane: all other eigenvectors are coordinate vectors
        rng.shuffle(lam); q = _block_orth(rng, n, [2] + [1] * (n - 2)); perm = list(range(n)); rng.shuffle(perm)
        q = [[q[i][perm[j]] for j in range(n)] for i in range(n)]; tag = "block-diagonal-with-1x1"
    elif kind < 0.52 and n >= 2:
        # nearly diagonal: the eigenvectors are the coordinate vectors turned by angles from the ladder 1e-16 .. 1e-6
        rng.shuffle(lam); q = [[1.0 if i == j else 0.0 for j in range(n)] for i in range(n)]
        for _ in range(rng.randint(1, n)):
            i, j = rng.sample(range(n), 2); _rotate_rows(q, i, j, _rel(rng) * rng.choice([1.0, -1.0]))
        tag = "near-diagonal"
    else:
        q = _rand_orth(rng, n); tag = "dense"
    return _sym_from(q, lam), lam, tag


# ---- structured spectra: linear relations between the eigenvalues and the ends of the ratio range
def _ratio_list(rng, n, mode):
    """n - 1 neighbouring magnitude ratios |lambda_(k+1) / lambda_k| inside the quantifier's range 0.1 .. 0.8"""
    if mode == "slowest": return [0.8] * (n - 1)
    if mode == "fastest": return [0.1] * (n - 1)
    if mode == "slow": return [rng.uniform(0.7, 0.8) for _ in range(n - 1)]
    if mode == "dyadic": return [rng.choice([0.5, 0.25, 0.125, 0.75, 0.625, 0.375]) for _ in range(n - 1)]
    r = [rng.uniform(0.1, 0.8) for _ in range(n - 1)]
    if mode == "one-slow" and r: r[rng.randrange(n - 1)] = rng.uniform(0.73, 0.8)
    return r


def _mags(ratios):
    m = [1.0]
    for r in ratios: m.append(m[-1] * r)
    return m


def _traceless(rng, n, mode):
    """signed spectrum with neighbouring magnitude ratios in 0.1 .. 0.8 whose sum is zero (to the rounding of the sum): the tail
    lambda_j .. lambda_(n-1) of a random signed spectrum is rescaled by the factor that cancels the head, accepted when the ratio at
    the junction stays inside the range (all other ratios are those of `mode`).  None when n < 3 (two eigenvalues of different magnitude
    cannot cancel) or no attempt was accepted."""
    if n < 3: return None
    for _ in range(200):
        m = _mags(_ratio_list(rng, n, mode)); s = [rng.choice([1.0, -1.0]) for _ in range(n)]
        for j in rng.sample(range(1, n), n - 1):
            a = math.fsum(s[k] * m[k] for k in range(j)); b = math.fsum(s[k] * m[k] for k in range(j, n))
            if a == 0.0 or b == 0.0: continue
            c = -a / b
            if c > 0 and 0.11 <= c * m[j] / m[j - 1] <= 0.8:
                return [s[k] * m[k] * (c if k >= j else 1.0) for k in range(n)]
    return None


def _int_spectrum(rng, n, want_traceless):
    """small-integer spectrum (magnitudes <= 10^4) with ratios in 0.1 .. 0.8, signs of either kind; want_traceless: integer sum 0"""
    for _ in range(400):
        m = [rng.randint(1, 4)]
        ok = True
        for _k in range(n - 1):
            lo = math.ceil(m[-1] / 0.8 - 1e-9); hi = math.floor(m[-1] / 0.1 + 1e-9)
            lo = max(lo, m[-1] + 1); hi = min(hi, max(lo, 3 * m[-1] + 2))
            m.append(rng.randint(lo, hi))
            if m[-1] > 10000: ok = False; break
        if not ok: continue
        m.reverse(); lam = [float(x) * rng.choice([1.0, -1.0]) for x in m]
        if all(0.1 <= abs(b / a) <= 0.8 for a, b in zip(lam, lam[1:])) and (not want_traceless or (n >= 3 and sum(lam) == 0.0)): return lam
    return None


def _gen_structured_spectrum(rng, n):
    """(lam, tag): spectra inside the quantifier (ratios 0.1 .. 0.8, either sign) that carry a relation a random spectrum never has:
    vanishing trace (exactly, or at a relative size from the ladder 1e-16 .. 1e-6), small integers, all ratios at an end of the range"""
    kind = rng.random(); lam = None; tag = ""
    mode = rng.choice(["slow", "slow", "one-slow", "any", "dyadic", "slowest"])
    if kind < 0.40:
        lam = _traceless(rng, n, mode); tag = "traceless"
    elif kind < 0.55:
        lam = _traceless(rng, n, mode); tag = "near-traceless"
        if lam is not None:
            # the largest eigenvalue grows by a relative amount from the ladder: trace / sum |lambda| = 1e-16 .. 1e-6 (the junction ratio only shrinks)
            k0 = max(range(n), key=lambda k: abs(lam[k])); lam[k0] *= 1.0 + _rel(rng)
    elif kind < 0.70:
        lam = _int_spectrum(rng, n, rng.random() < 0.6); tag = "integer-spectrum"
        if lam is not None and n >= 3 and sum(lam) == 0.0: tag = "traceless"
        if lam is not None: return lam, tag + "-integer"
    if lam is None:
        mode = rng.choice(["slowest", "fastest", "slow", "dyadic"])
        lam = [x * rng.choice([1.0, -1.0]) for x in _mags(_ratio_list(rng, n, mode))]; tag = "ratios-" + mode
        if rng.random() < 0.3: lam = [abs(x) * (-1.0) ** k for k, x in enumerate(lam)]; tag += "-alternating"
    sc = 10 ** rng.uniform(-2, 2) if rng.random() < 0.7 else float(rng.choice([1, 2, 3, 5, 12, 60]))
    return [x * sc for x in lam], tag


# ---- structured eigenvectors: directions tied to the vectors an iteration may start from
def _start_candidates(n):
    """natural start vectors of a power / inverse iteration (the library uses the harmonic one); an eigenvector orthogonal to the start
    vector is reached only through rounding errors"""
    return {"harmonic": [1.0 / (1.0 + i) for i in range(n)], "ones": [1.0] * n, "first": [1.0] + [0.0] * (n - 1),
            "linear": [1.0 + i for i in range(n)], "alternating": [(-1.0) ** i for i in range(n)], "last": [0.0] * (n - 1) + [1.0]}


def _pick_start(rng, n):
    name = rng.choice(["harmonic"] * 6 + ["ones", "ones", "first", "linear", "alternating", "last"])
    return name, _start_candidates(n)[name]


def _orth_perp(rng, s, k):
    """orthonormal rows of dimension len(s) whose first k rows (1 <= k <= len(s) - 1) are orthogonal to s; the other rows are a random
    basis of the rest (for k = len(s) - 1 the last row is s / |s| itself)"""
    n = len(s); ns = math.sqrt(math.fsum(x * x for x in s)); sh = [x / ns for x in s]
    while True:
        basis = [sh]; ok = True
        for _ in range(n - 1):
            v = [rng.gauss(0, 1) for _ in range(n)]
            for _r in range(2):
                for w in basis:
                    d = math.fsum(x * y for x, y in zip(v, w)); v = [x - d * y for x, y in zip(v, w)]
            nv = math.sqrt(math.fsum(x * x for x in v))
            if nv < 1e-3: ok = False; break
            basis.append([x / nv for x in v])
        if ok: break
    perp = basis[1:k + 1]; rest = [basis[0]] + basis[k + 1:]
    if len(rest) > 1:
        o = _rand_orth(rng, len(rest))
        rest = [[math.fsum(o[a][b] * rest[b][j] for b in range(len(rest))) for j in range(n)] for a in range(len(rest))]
    return perp + rest


def _gen_structured_vectors(rng, n):
    """(q, tag) for n >= 2, rows of q = eigenvectors: some of them orthogonal to a natural start vector (in all coordinates, or inside
    a coordinate block), exactly or turned out of the orthogonal complement by an angle from the ladder 1e-16 .. 1e-6; or plane rotations
    with small-integer direction ratios (the eigenvectors (a, b, 0, ..), (-b, a, 0, ..) of hand-written matrices)"""
    kind = rng.random()
    if kind < 0.45 or n == 2 and kind < 0.6:
        name, s = _pick_start(rng, n)
        k = rng.randint(1, n - 1) if rng.random() < 0.6 else 1
        q = _orth_perp(rng, s, k); tag = f"perp-start-{name}"
        if k == n - 1: tag += "-start-is-eigenvector"
        if rng.random() < 0.35:                 # turned out of the orthogonal complement by an angle from the ladder
            _rotate_rows(q, rng.randrange(k), rng.randrange(k, n), _rel(rng) * rng.choice([1.0, -1.0])); tag += "-ladder"
        rng.shuffle(q)
        return q, tag
    if kind < 0.70 and n >= 3:
        # the same inside one coordinate block (eigenvectors with zero components that are orthogonal to the start vector)
        name, s = _pick_start(rng, n)
        b = rng.randint(2, n - 1); idx = sorted(rng.sample(range(n), b)) if rng.random() < 0.5 else list(range(b))
        sub = _orth_perp(rng, [s[i] for i in idx] if any(s[i] for i in idx) else [1.0] * b, rng.randint(1, b - 1))
        others = [i for i in range(n) if i not in idx]
        rest = _rand_orth(rng, len(others)) if len(others) > 1 and rng.random() < 0.5 else [[1.0 if i == j else 0.0 for j in range(len(others))] for i in range(len(others))]
        q = []
        for row in sub:
            v = [0.0] * n
            for a, i in enumerate(idx): v[i] = row[a]
            q.append(v)
        for row in rest:
            v = [0.0] * n
            for a, i in enumerate(others): v[i] = row[a]
            q.append(v)
        rng.shuffle(q)
        return q, f"perp-start-{name}-in-block"
    q = [[1.0 if i == j else 0.0 for j in range(n)] for i in range(n)]
    for _ in range(rng.choice([1, 1, 1, 2, 3])):
        i, j = rng.sample(range(n), 2)
        a, b = rng.randint(1, 5), rng.randint(1, 5) * rng.choice([1, -1]); h = math.hypot(a, b)
        c, s_ = a / h, b / h
        qi = [c * x + s_ * y for x, y in zip(q[i], q[j])]; qj = [-s_ * x + c * y for x, y in zip(q[i], q[j])]
        q[i], q[j] = qi, qj
    rng.shuffle(q)
    return q, "integer-planes"


def _gen_structured_sym(rng, n):
    """symmetric matrix with a structured spectrum, structured eigenvectors, or both"""
    k = rng.random()
    if n == 1: k = 0.0
    if k < 0.35:
        lam, t1 = _gen_structured_spectrum(rng, n); m, _, t2 = _gen_sym(rng, n, lam); tags = ["spectrum-" + t1, t2]
    elif k < 0.75:
        lam = _gen_spectrum(rng, n); rng.shuffle(lam); q, t2 = _gen_structured_vectors(rng, n); m = _sym_from(q, lam); tags = ["vectors-" + t2]
    else:
        lam, t1 = _gen_structured_spectrum(rng, n); rng.shuffle(lam); q, t2 = _gen_structured_vectors(rng, n); m = _sym_from(q, lam)
        tags = ["spectrum-" + t1, "vectors-" + t2]
    return m, lam, ["structured"] + tags


# ---- corners of the ratio box: every neighbouring ratio at (or within a few per cent of) an end of the range 0.1 .. 0.8.  The smallest gap between
#      two eigenvalues RELATIVE TO |M| that the quantifier admits sits there: a spectrum graded by 0.1 over n - 2 steps with one ratio of 0.8 at the small
#      end has gap / |M| = 0.2 * 0.1^(n-2) (2e-6 for n = 7), against 0.2 for a random spectrum - the region where the shift offset of the inverse
#      iteration, the stopping tolerance of the QR sweeps and the conditioning of the explicit inverse meet the separation of the spectrum
def _gen_corner_spectrum(rng, n):
    """(lam, tag, (i, j)): lam in the order of decreasing magnitude; (i, j) = indices of the closest pair relative to the largest magnitude"""
    if n == 1: return [10 ** rng.uniform(-2, 2) * rng.choice([1.0, -1.0])], "corner-1x1", (0, 0)
    exact = rng.random() < 0.5
    g = (lambda: 0.1) if exact else (lambda: rng.uniform(0.1, 0.125))
    s = (lambda: 0.8) if exact else (lambda: rng.uniform(0.68, 0.8))
    kind = rng.random()
    if kind < 0.45:
        k = 1 if rng.random() < 0.7 or n < 3 else 2
        r = [g() for _ in range(n - 1 - k)] + [s() for _ in range(k)]; tag = "graded-close-tail"
    elif kind < 0.6:
        k = 1 if rng.random() < 0.7 or n < 3 else 2
        r = [s() for _ in range(k)] + [g() for _ in range(n - 1 - k)]; tag = "close-head-graded"
    elif kind < 0.75:
        j = rng.randrange(n - 1); r = [g() for _ in range(n - 1)]; r[j] = s(); tag = "graded-one-close"
    else:
        r = [s() if rng.random() < 0.5 else g() for _ in range(n - 1)]; tag = "ends-mixed"
    mg = _mags(r)
    j = min(range(1, n), key=lambda k_: mg[k_ - 1] - mg[k_])           # the closest pair of magnitudes
    sk = rng.random()
    if sk < 0.35: sg = [1.0] * n
    elif sk < 0.5: sg = [-1.0] * n
    else:
        sg = [rng.choice([1.0, -1.0]) for _ in range(n)]
        if sk < 0.85: sg[j] = sg[j - 1]                                    # the close pair on the same side of zero (otherwise it is not close at all)
    tag += "-same-sign" if sg[j] == sg[j - 1] else "-opposite-sign"
    sc = 10 ** rng.uniform(-2, 2) if rng.random() < 0.6 else float(rng.choice([1, 2, 3, 5, 12]))
    return [sc * a * b for a, b in zip(sg, mg)], tag + ("-exact-ends" if exact else ""), (j - 1, j)


# ---- the iteration cap of Eigenvalues(): matrices tuned to need a prescribed number of sweeps
def _gen_cap(rng, n, target):
    """(matrix, spectrum, tag) or None: a symmetric matrix inside the quantifier (ratios 0.1 .. 0.8, either sign) on which the unshifted QR
    iteration passes its convergence test for the first time after sweep `target` (12 <= target <= 200; the reference run _qr_sweeps_sim
    is at 0.80 .. 0.90 of the threshold there and above 1.02 of it before, so that rounding differences do not move the count).
    The count is steered by the angle theta between a leading coordinate subspace and the dominant invariant subspace (count ~
    ln(1e12 / theta) / ln(1 / r) for the slow ratio r): nearly diagonal matrices with one neighbouring pair out of order, or dense matrices
    whose dominant eigenvector is orthogonal to e_1 up to theta."""
    r = rng.uniform(max(0.5, 10 ** (-23.0 / target)), 0.8)          # theta = 1e12 r^target stays above 1e-11
    p = rng.randrange(n - 1)
    ratios = [rng.uniform(0.1, 0.55) for _ in range(n - 1)]; ratios[p] = r
    lam = [x * rng.choice([1.0, -1.0]) * 1.0 for x in _mags(ratios)]
    sc = 10 ** rng.uniform(-1, 1); lam = [x * sc for x in lam]
    dense = n >= 3 and rng.random() < 0.5
    if dense:
        p = 0; ratios = [rng.uniform(0.1, 0.55) for _ in range(n - 1)]; ratios[0] = r
        lam = [x * rng.choice([1.0, -1.0]) * sc for x in _mags(ratios)]
        q0 = _orth_perp(rng, [1.0] + [0.0] * (n - 1), 1)           # row 0 (lambda_1) is orthogonal to e_1
        i, j = 0, 1
    else:
        q0 = [[1.0 if a == b else 0.0 for b in range(n)] for a in range(n)]
        lam[p], lam[p + 1] = lam[p + 1], lam[p]                      # diagonal out of order at the slow pair
        i, j = p, p + 1

    def build(theta):
        q = [list(row) for row in q0]; _rotate_rows(q, i, j, theta)
        return _sym_from(q, lam)

    def off_at(theta):
        m = build(theta); ms, _ = _normalise(m); offs = _qr_sweeps_sim(ms, target)
        return m, offs
    goal = 0.85e-12
    th = min(max(1e12 * r ** target, 3e-12), 1e-3) * rng.choice([1.0, -1.0]); slope = -1.0; prev = None
    for _ in range(6):
        m, offs = off_at(th); o = offs[target - 1]
        if not 0.0 < o < math.inf: return None
        if 0.80e-12 < o < 0.90e-12 and all(x >= 1.02e-12 for x in offs[11:target - 1]):
            return m, lam, ("cap-dense" if dense else "cap-near-diagonal")
        if prev is not None and prev[0] != abs(th) and o != prev[1]:
            sl = math.log(o / prev[1]) / math.log(abs(th) / prev[0])
            if -3.0 < sl < -0.3: slope = sl
        prev = (abs(th), o)
        nth = abs(th) * (goal / o) ** (1.0 / slope)
        if not 1e-12 <= nth <= 1e-2: return None
        th = math.copysign(nth, th)
    return None


# ---- hollow matrices: symmetric, every diagonal entry exactly zero (or a tiny fraction of the other entries)
def _hollowed(m, keep=0):
    """orthogonally similar matrix with zero diagonal for a symmetric matrix of vanishing trace: n - 1 plane rotations, the rotation of the
    plane (i, j) with a_ii a_jj < 0 by the angle with a_jj t^2 + 2 a_ij t + a_ii = 0 (t = tan) annihilates a_ii and leaves a_jj' = a_ii + a_jj;
    keep: number of diagonal entries that are left alone (partially hollow)"""
    n = len(m); a = [list(r) for r in m]; todo = list(range(n))
    while len(todo) > 1 + keep:
        pos = [k for k in todo if a[k][k] > 0]; neg = [k for k in todo if a[k][k] < 0]
        if not pos or not neg: break
        i, j = pos[0], neg[0]
        aii, ajj, aij = a[i][i], a[j][j], a[i][j]
        disc = math.sqrt(aij * aij - aii * ajj)
        t = (-aij + disc) / ajj if abs(-aij + disc) <= abs(-aij - disc) else (-aij - disc) / ajj          # the smaller rotation
        c = 1.0 / math.sqrt(1.0 + t * t); sn = t * c
        for k in range(n):
            aki, akj = a[k][i], a[k][j]; a[k][i] = c * aki + sn * akj; a[k][j] = -sn * aki + c * akj
        for k in range(n):
            aik, ajk = a[i][k], a[j][k]; a[i][k] = c * aik + sn * ajk; a[j][k] = -sn * aik + c * ajk
        a[i][i] = 0.0; todo.remove(i)
    for x in range(n):
        for y in range(x): a[x][y] = a[y][x]
    return a, todo


def _gen_hollow(rng, n):
    """(matrix, spectrum, tags) or None, n >= 3: Q diag(lambda) Q^T with a traceless spectrum (ratios 0.1 .. 0.8, both signs), rotated to
    the basis in which its diagonal vanishes: all diagonal entries exactly zero, all but some, or of a relative size from the ladder 1e-16 .. 1e-6"""
    lam = _traceless(rng, n, rng.choice(["slow", "one-slow", "any", "any", "dyadic"]))
    if lam is None: return None
    sc = 10 ** rng.uniform(-2, 2) if rng.random() < 0.7 else float(rng.choice([1, 2, 3, 5, 12]))
    lam = [x * sc for x in lam]
    m = _sym_from(_rand_orth(rng, n), lam)
    k = rng.random()
    keep = 0 if k < 0.75 else rng.randint(1, n - 2)
    a, rest = _hollowed(m, keep)
    if len(rest) != 1 + keep: return None
    tag = "hollow" if keep == 0 else "partially-hollow"
    if keep == 0:
        a[rest[0]][rest[0]] = 0.0
        if rng.random() < 0.3:                     # nearly hollow: diagonal at a relative size from the ladder
            big = max(abs(x) for row in a for x in row)
            for d in range(n):
                if rng.random() < 0.7: a[d][d] = big * _rel(rng) * rng.choice([1.0, -1.0])
            tag = "nearly-hollow"
    if rng.random() < 0.3:                         # small-integer entries: hand-written hollow matrices (adjacency-like); accepted if the spectrum is inside the quantifier
        b = [[0.0] * n for _ in range(n)]
        for x in range(n):
            for y in range(x): b[x][y] = b[y][x] = float(rng.randint(-3, 4))
        ev = sorted(_jacobi(b), key=abs, reverse=True)
        if ev[-1] != 0.0 and all(0.1 <= abs(y / x) <= 0.8 for x, y in zip(ev, ev[1:])): a = b; lam = ev; tag = "hollow-integer"
    return a, lam, ["structured", tag]


# ---- the stopping test of Eigenvalues(): matrices on which a WEAKER test than 'sum of |a_kj| below the diagonal < 1e-12 sum |a_jj|' would stop too early
def _qr_iterate_sim(ms, sweeps):
    """Reference run of the unshifted QR iteration (same scheme as _qr_sweeps_sim): the iterate A after `sweeps` sweeps"""
    n = len(ms); a = [list(r) for r in ms]
    for _ in range(sweeps):
        us = []
        for k in range(n - 1):
            x = [a[i][k] for i in range(k, n)]
            nx = math.sqrt(sum(t * t for t in x))
            if nx == 0.0: us.append(None); continue
            u = list(x); u[0] += math.copysign(nx, x[0])
            nu = math.sqrt(sum(t * t for t in u))
            if nu == 0.0: us.append(None); continue
            u = [t / nu for t in u]; us.append(u)
            for j in range(k, n):
                d = 2.0 * sum(u[i] * a[k + i][j] for i in range(n - k))
                for i in range(n - k): a[k + i][j] -= d * u[i]
            for i in range(k + 1, n): a[i][k] = 0.0
        for k, u in enumerate(us):
            if u is None: continue
            for row in a:
                d = 2.0 * sum(row[k + j] * u[j] for j in range(n - k))
                for j in range(n - k): row[k + j] -= d * u[j]
    return a


# linear functionals of the part below the diagonal that a weakened stopping test could look at instead of the sum of the absolute values
_FUNCTIONALS = {
    "signed-sum": lambda a, n: sum(a[k][j] for j in range(n) for k in range(j + 1, n)),
    "signed-subdiagonal": lambda a, n: sum(a[j + 1][j] for j in range(n - 1)),
    "signed-last-row": lambda a, n: sum(a[n - 1][j] for j in range(n - 1)),
    "signed-first-column": lambda a, n: sum(a[k][0] for k in range(1, n)),
    "alternating-sum": lambda a, n: sum(a[k][j] * (-1.0) ** (k + j) for j in range(n) for k in range(j + 1, n)),
}


def _gen_cancel(rng, n, sweep, fname):
    """(matrix, spectrum, tag) or None, n >= 3: a dense symmetric Q diag(lambda) Q^T inside the quantifier (slow ratios 0.6 .. 0.8, either sign) for
    which, after sweep number `sweep` (>= 12: the first sweeps whose result Eigenvalues() tests), the entries below the diagonal of the
    iterate are still individually large (1e-3 .. 1e-1 of the diagonal) but CANCEL in the linear functional `fname` (signed sum, ...) to
    below 1e-15 of the diagonal mass.  The stopping test of the library (sum of absolute values) does not pass there, so the iteration has to
    go on; a test that accumulates with signs would stop with eigenvalues that are off by ~1e-4.  Found with the reference run of the
    sweeps: one eigenvector plane is turned by an angle t, a sign change of the functional in t is located on a grid and bisected."""
    f = _FUNCTIONALS[fname]
    ratios = [rng.uniform(0.6, 0.8) for _ in range(n - 1)]
    lam = [x * rng.choice([1.0, -1.0]) for x in _mags(ratios)]
    sc = 10 ** rng.uniform(-1.5, 1.5) if rng.random() < 0.7 else 1.0
    lam = [x * sc for x in lam]; rng.shuffle(lam)
    q0 = _rand_orth(rng, n); i, j = rng.sample(range(n), 2)

    def val(t):
        q = [list(row) for row in q0]; _rotate_rows(q, i, j, t)
        m = _sym_from(q, lam); ms, _ = _normalise(m); a = _qr_iterate_sim(ms, sweep)
        dm = sum(abs(a[d][d]) for d in range(n)); off = sum(abs(a[k][c]) for c in range(n) for k in range(c + 1, n))
        return m, f(a, n) / dm, off / dm
    steps = 24; t0 = rng.uniform(0.0, math.pi); grid = [t0 + math.pi * s / steps for s in range(steps + 1)]
    prev = None; cands = []
    for t in grid:
        _, v, off = val(t)
        if prev is not None and prev[1] * v < 0.0: cands.append((prev[0], t, prev[1], v))
        prev = (t, v)
    rng.shuffle(cands)
    for lo, hi, vlo, vhi in cands:
        for _ in range(70):
            mid = 0.5 * (lo + hi)
            if mid == lo or mid == hi: break
            _, vm, _ = val(mid)
            if vm == 0.0: lo = hi = mid; break
            if vlo * vm < 0.0: hi, vhi = mid, vm
            else: lo, vlo = mid, vm
        best = lo if abs(vlo) <= abs(vhi) else hi
        m, v, off = val(best)
        # a genuine zero (not a jump of the functional where a reflector changes its sign), the entries still large, and no earlier tested sweep cancels as well
        if abs(v) < 1e-15 and off > 1e-3:
            ms, _ = _normalise(m)
            if all(abs(f(_qr_iterate_sim(ms, s), n)) > 1e-9 for s in range(12, sweep)): return m, lam, f"cancel-{fname}"
    return None


# ---- exact coincidences between matrix entries and eigenvalues: coupled matrices with a diagonal entry that IS an eigenvalue
def _gen_diag_is_eigenvalue(rng, n):
    """(matrix, spectrum, tags, mu) or None, n >= 3: a symmetric matrix with small-integer (or dyadic) entries that commutes with the exchange
    of two coordinates i, j (m_ii = m_jj, m_ik = m_jk): (e_i - e_j) / sqrt 2 is an eigenvector (zero components) with the exactly
    representable eigenvalue mu = m_ii - m_ij.  A diagonal entry m_kk of a third, COUPLED coordinate is then set to mu (exactly, or next to it
    at 1 .. 1000 ulp / a relative distance from the ladder): an eigenvalue sits on the diagonal although no coordinate is decoupled.
    Accepted when the spectrum is inside the quantifier (ratios 0.1 .. 0.8)."""
    for _ in range(300):
        den = rng.choice([1.0, 1.0, 1.0, 2.0, 4.0, 8.0]); hi = rng.choice([4, 6, 9, 12])
        ent = lambda: float(rng.randint(-hi, hi)) / den
        m = [[0.0] * n for _ in range(n)]
        for a in range(n):
            for b in range(a + 1): m[a][b] = m[b][a] = ent()
        i, j = rng.sample(range(n), 2)
        m[j][j] = m[i][i]
        for k in range(n):
            if k not in (i, j): m[j][k] = m[k][j] = m[i][k]
        mu = m[i][i] - m[i][j]
        if mu == 0.0 or m[i][j] == 0.0: continue
        ks = [k for k in range(n) if k not in (i, j) and any(m[k][c] != 0.0 for c in range(n) if c != k)]
        if not ks: continue
        k = rng.choice(ks); m[k][k] = mu
        if rng.random() < 0.3:                     # a second coupled coordinate carries the same value
            k2 = rng.choice(ks); m[k2][k2] = mu
        if _has_1x1_block(m): continue
        ev = sorted(_jacobi(m), key=abs, reverse=True)
        if ev[-1] == 0.0 or not all(0.1 <= abs(y / x) <= 0.8 for x, y in zip(ev, ev[1:])): continue
        if not any(abs(x - mu) <= 1e-12 * abs(mu) for x in ev): continue
        tags = ["structured", "diag-is-eigenvalue"]; kind = rng.random()
        if kind < 0.25:
            u = rng.choice([1, 1, 2, 3, 10, 100, 1000]) * rng.choice([1, -1]); x = mu
            for _s in range(abs(u)): x = math.nextafter(x, math.copysign(math.inf, u))
            m[k][k] = x; tags[1] = "diag-next-to-eigenvalue-ulps"
        elif kind < 0.35:
            m[k][k] = mu * (1.0 + _rel(rng) * rng.choice([1.0, -1.0])); tags[1] = "diag-next-to-eigenvalue-ladder"
        if tags[1] != "diag-is-eigenvalue": ev = sorted(_jacobi(m), key=abs, reverse=True)
        return m, ev, tags, mu
    return None


# ---- sessions: several calls on one or two Matrix objects with in-place modifications between them
_CALLS =("sys", "vecs", "vals", "qr")


def _apply_step(cur, oth, st):
    """the effect of one modification step on (current object, other object); exact in floating point"""
    n = len(cur); w = st[0]
    if w in ("swap", "dswap"):
        i, j = st[1], st[2]; tr = lambda k: j if k == i else i if k == j else k
        if w == "swap": cur = [[cur[tr(r)][tr(c)] for c in range(n)] for r in range(n)]
        else: cur = [[cur[tr(r)][tr(c)] if r == c else cur[r][c] for c in range(n)] for r in range(n)]
    elif w == "neg": cur = [[-x for x in row] for row in cur]
    elif w == "scale": cur = [[_ldexp(x, st[1]) for x in row] for row in cur]
    elif w == "transp": cur = _tr(cur)
    elif w == "copy": oth = [list(r) for r in cur]
    elif w == "other": cur, oth = oth, cur
    return cur, oth


def _in_quantifier(m):
    ms, _ = _normalise(m); ev = sorted(_jacobi(ms), key=abs, reverse=True)
    return ev[-1] != 0.0 and all(0.1 <= abs(y / x) <= 0.8 for x, y in zip(ev, ev[1:]))


def _gen_session(rng, m):
    """steps of a session on the symmetric matrix m: calls (Eigensystem, Eigenvectors, Eigenvalues, QR_Decomposition) interleaved with
    in-place modifications of the object that keep it inside the quantifier: relabelling of the basis (symmetric exchange of two rows and
    columns), exchange of two diagonal entries, M <- -M, M <- 2^k M, M <- M^T, and a second object (copy; switch).  Relabelling,
    negation of a traceless matrix and transposition keep dimension, trace and norm of the object; every answer has to be the answer
    for the object's current value."""
    n = len(m); steps = []; cur = [list(r) for r in m]; oth = [list(r) for r in m]; e_tot = 0
    steps.append((rng.choice(["sys", "sys", "vecs", "vals"]),))
    for _ in range(rng.randint(1, 3)):
        for _m in range(rng.choice([1, 1, 1, 2])):
            k = rng.random(); st = None
            if n >= 2 and k < 0.40:
                i, j = rng.sample(range(n), 2); st = ("swap", i, j)
            elif n >= 2 and k < 0.55:
                i, j = rng.sample(range(n), 2); st = ("dswap", i, j)
                c2, _ = _apply_step(cur, oth, st)
                if c2 == cur or not _in_quantifier(c2): st = ("swap", i, j)
            elif k < 0.70: st = ("neg",)
            elif k < 0.78:
                d = rng.choice([1, -1, 2, -3, 10, -10, 33, -40])
                if abs(e_tot + d) <= 60: e_tot += d; st = ("scale", d)
            elif k < 0.84: st = ("transp",)
            elif k < 0.92: st = ("copy",)
            else: st = ("other",)
            if st is None: continue
            cur, oth = _apply_step(cur, oth, st); steps.append(st)
        steps.append((rng.choice(["sys", "sys", "sys", "vecs", "vals", "qr"]),))
        if rng.random() < 0.3: steps.append((rng.choice(["sys", "vecs"]),))
    return steps


def _session_line(m, steps):
    return _mline("session", m) + f" {len(steps)} " + " ".join(" ".join(str(x) for x in st) for st in steps)


def generate(rng, tier):
    cs = []
    big = tier != "quick"
    T0 = (1e-12, 0.0)                              # scaled cases: no absolute allowance (it would swallow a tiny matrix whole)
    # ---- QR_Decomposition / Householder_Matrix: dense non-singular, kappa up to 1e6, sizes 1..7
    for _ in range(4000 if big else 300):
        n = rng.randint(1, 7)
        m, kappa = _gen_dense(rng, n)
        k = rng.random()
        tags = ["qr", f"n={n}"]
        if k < 0.08 and n > 1:                      # zero leading entry / zeros in the first column
            z = rng.sample(range(n), rng.randint(1, n - 1))
            for i in z: m[i][0] = 0.0
            if rng.random() < 0.5: m[0][0] = 0.0
            if not any(m[i][0] for i in range(n)): m[n - 1][0] = 1.0
            tags.append("first-column-zeros")
        elif k < 0.14:                              # upper triangular / diagonal input
            for i in range(n):
                for j in range(i): m[i][j] = 0.0
            tags.append("triangular")
        elif k < 0.18:
            p = list(range(n)); rng.shuffle(p); s = 10 ** rng.uniform(-3, 3)
            m = [[s * rng.choice([1.0, -1.0]) if p[i] == j else 0.0 for j in range(n)] for i in range(n)]
            tags.append("permutation")
        elif k < 0.24 and n > 1:                    # leading entry tiny against the rest of the column (cancellation-free branch of alpha)
            m[0][0] = max(abs(m[i][0]) for i in range(1, n)) * _rel(rng) * rng.choice([1.0, -1.0]); tags.append("tiny-leading-entry")
        elif k < 0.30 and n > 1:                    # columns of very different length (column scaling within the condition bound)
            m, kappa = _gen_dense(rng, n, 1.0); g = [10 ** rng.uniform(-2.5, 2.5) for _ in range(n)]
            m = [[m[i][j] * g[j] for j in range(n)] for i in range(n)]; kappa = kappa * max(g) / min(g); tags.append("graded-columns")
        if rng.random() < 0.2:
            e, st = _pick_scale(rng); m, e = _scale_finite(m, e); tags.append(st)
        if _det_exact(m) == 0: continue
        cs.append(Case(_mline("qr", m), tags, tol=T0, info={"kappa": kappa}))
        if rng.random() < 0.3: cs.append(Case(_mline("householder", m), ["householder", f"n={n}"] + tags[2:], tol=T0))
    # ---- QR: pivot columns that are almost reduced already (sub-column at 1e-16 .. 1e-6 of the diagonal entry), in any pass
    for _ in range(3000 if big else 260):
        n = rng.randint(2, 7)
        m, tag, sub = _gen_near_reduced(rng, n)
        if _det_exact(m) == 0 or not _cond_proxy(m) <= 1e6: continue
        tags = ["qr", f"n={n}", "near-reduced", tag]
        if rng.random() < 0.15:
            e, st = _pick_scale(rng); m, e = _scale_finite(m, e); sub = _scale(sub, e); tags.append(st)
        cs.append(Case(_mline("qr", m), tags, tol=T0, info={"kappa": 1.0}))
        if rng.random() < 0.5: cs.append(Case(_mline("householder", sub), ["householder", f"n={len(sub)}", "near-reduced"] + tags[4:], tol=T0))
    for m in ([[1.0]], [[-2.5]], [[1.0, 0.0], [0.0, 1.0]], [[0.0, 1.0], [1.0, 0.0]], [[2.0, 0.0, 0.0], [0.0, 3.0, 0.0], [0.0, 0.0, 5.0]]):
        cs.append(Case(_mline("qr", m), ["qr", "special"]))
        cs.append(Case(_mline("householder", m), ["householder", "special"]))
    cs.append(Case(_mline("qr", [[1.0, 2.0, 3.0], [4.0, 5.0, 6.0]]), ["qr-guard"]))
    # ---- Determinant / Inverse as called by the inverse iteration (ties the model of Matrix::Inverse)
    for _ in range(600 if big else 60):
        n = rng.randint(1, 6); m, _ = _gen_dense(rng, n); tags = []
        if rng.random() < 0.3:
            e, st = _pick_scale(rng); m, e = _scale_finite(m, e); tags.append(st)
        cs.append(Case(_mline("det", m), ["det"] + tags, tol=T0)); cs.append(Case(_mline("inverse", m), ["inverse"] + tags, tol=(1e-9, 0.0)))
    cs.append(Case(_mline("inverse", [[1.0, 2.0], [2.0, 4.0]]), ["inverse", "singular"]))
    cs.append(Case(_mline("inverse", [[0.0, 1.0], [1.0, 0.0]]), ["inverse", "pivot"]))
    # ---- Find_Eigenvector_Rayleigh itself, with ANY value passed as the eigenvalue (theorems C15_rayleigh_returns_unit_vector,
    #      C15_rayleigh_quotient_returned hold whichever value is passed): an eigenvalue, an eigenvalue moved by 1e-12 .. 1e-3 of |M|,
    #      a midpoint of two eigenvalues, a value outside the spectrum; moderate overall scale only
    for k in range(800 if big else 80):
        n = rng.randint(1, 7) if k % 4 else rng.randint(1, 3)
        m, lam, tag = _gen_sym(rng, n)
        srt = sorted(lam); nmf = _fro(m); mode = k % 4
        if mode == 0: ev = rng.choice(lam); mt = "at-eigenvalue"
        elif mode == 1: ev = rng.choice(lam) + rng.choice((-1.0, 1.0)) * nmf * 10 ** rng.uniform(-12, -3); mt = "near-eigenvalue"
        elif mode == 2 and n >= 2: j = rng.randrange(n - 1); ev = 0.5 * (srt[j] + srt[j + 1]); mt = "midpoint"
        else: ev = rng.choice((-1.0, 1.0)) * nmf * rng.uniform(1.0, 3.0); mt = "outside"
        cs.append(Case(_mline("rayleigh", m, " " + hx(ev)), ["rayleigh", mt, tag, f"n={n}"], tol=(1e-7, 1e-300), info={"lam": lam}))
    for d in ([3.0, -2.0, 0.5], [1.0], [-4.0, 1.0], [2.0, 3.0, 5.0, -7.0], [1e-3, 1e3], [0.8 ** j * (-1) ** j for j in range(7)]):
        # theorem C15_eigenvalues_of_diagonal: Eigenvalues(diag(d)) = d, in the order of the diagonal
        cs.append(Case(_mline("eigenvalues", [[d[i] if i == j else 0.0 for j in range(len(d))] for i in range(len(d))]), ["eigenvalues", "diagonal", "diagonal-exact", f"n={len(d)}"], tol=(1e-9, 0.0), info={"lam": list(d)}))
    # ---- Eigenvalues / Eigensystem / Eigenvectors on symmetric Q diag(lambda) Q^T
    for k in range(3000 if big else 300):
        n = rng.randint(1, 7) if k % 4 else rng.randint(1, 3)
        m, lam, tag = _gen_sym(rng, n)
        tags = [tag, f"n={n}"]
        if k % 3 == 0:                              # overall scale: every third matrix is moved along the ladder by an exact power of two
            e, st = _pick_scale(rng, tame=(k % 2 == 0)); m, e = _scale_finite(m, e); lam = [_ldexp(x, e) for x in lam]; tags.append(st)
        ta = 0.0 if len(tags) > 2 else 1e-300
        cs.append(Case(_mline("eigenvalues", m), ["eigenvalues"] + tags, tol=(1e-9, ta), info={"lam": lam}))
        cs.append(Case(_mline("eigensystem", m), ["eigensystem"] + tags, tol=(1e-7, ta), info={"lam": lam}))
        if rng.random() < 0.15: cs.append(Case(_mline("eigenvectors", m), ["eigenvectors"] + tags, tol=(1e-7, ta), info={"lam": lam}))
        if rng.random() < 0.10: cs.append(Case(_mline("history", m), ["history"] + tags, tol=(1e-7, ta), info={"lam": lam}))
    # ---- structured spectra (traceless, nearly traceless, small integers, all ratios at an end of the range) and structured eigenvectors
    #      (orthogonal to a natural start vector of the inverse iteration, exactly / at 1e-16 .. 1e-6 / inside a coordinate block; small-integer planes)
    for k in range(2500 if big else 200):
        n = rng.choice([2, 3, 3, 3, 4, 4, 5, 6, 7])
        m, lam, tags = _gen_structured_sym(rng, n)
        tags = tags + [f"n={n}"]
        if k % 5 == 0:
            e, st = _pick_scale(rng, tame=True); m, e = _scale_finite(m, e); lam = [_ldexp(x, e) for x in lam]; tags.append(st)
        ta = 0.0 if tags[-1].startswith("scale") else 1e-300
        cs.append(Case(_mline("eigensystem", m), ["eigensystem"] + tags, tol=(1e-7, ta), info={"lam": lam}))
        if k % 2 == 0 or any(t.startswith("spectrum-") for t in tags): cs.append(Case(_mline("eigenvalues", m), ["eigenvalues"] + tags, tol=(1e-9, ta), info={"lam": lam}))
        if rng.random() < 0.15: cs.append(Case(_mline("eigenvectors", m), ["eigenvectors"] + tags, tol=(1e-7, ta), info={"lam": lam}))
        if rng.random() < 0.06: cs.append(Case(_mline("history", m), ["history"] + tags, tol=(1e-7, ta), info={"lam": lam}))
    # ---- corners of the ratio box (all ratios at the ends 0.1 / 0.8; the smallest relative gaps the quantifier admits, down to 2e-6 |M| at n = 7): every size,
    #      the largest sizes most often; Eigensystem on all of them, Find_Eigenvector_Rayleigh asked for each member of the closest pair
    for k in range(1500 if big else 84):
        n = rng.choice([7, 7, 7, 6, 6, 5, 5, 4, 3, 2]) if k >= 7 else k + 1
        lam0, ctag, (ci, cj) = _gen_corner_spectrum(rng, n)
        pair = (lam0[ci], lam0[cj])
        if k % 4 == 3 and n >= 2:
            q, t2 = _gen_structured_vectors(rng, n); lam = list(lam0); m = _sym_from(q, lam); tag = "vectors-" + t2
        else: m, lam, tag = _gen_sym(rng, n, lam0)
        tags = ["corner", "spectrum-" + ctag, tag, f"n={n}"]
        if k % 6 == 5:
            e, st = _pick_scale(rng, tame=True); m, e = _scale_finite(m, e); lam = [_ldexp(x, e) for x in lam]; pair = tuple(_ldexp(x, e) for x in pair); tags.append(st)
        ta = 0.0 if tags[-1].startswith("scale") else 1e-300
        cs.append(Case(_mline("eigensystem", m), ["eigensystem"] + tags, tol=(1e-7, ta), info={"lam": lam}))
        if k % 2 == 0: cs.append(Case(_mline("eigenvalues", m), ["eigenvalues"] + tags, tol=(1e-9, ta), info={"lam": lam}))
        if k % 5 == 0: cs.append(Case(_mline("eigenvectors", m), ["eigenvectors"] + tags, tol=(1e-7, ta), info={"lam": lam}))
        if k % 3 == 0 and ta:
            for ev in pair: cs.append(Case(_mline("rayleigh", m, " " + hx(ev)), ["rayleigh", "at-eigenvalue"] + tags, tol=(1e-7, 1e-300), info={"lam": lam}))
        if k % 11 == 0 and ta and n <= 5:
            steps = _gen_session(rng, m)
            cs.append(Case(_session_line(m, steps), ["session"] + tags + sorted({"step-" + st[0] for st in steps if st[0] not in _CALLS}), tol=(1e-7, ta), info={"lam": lam}))
    # ---- the iteration cap: matrices that pass the convergence test of Eigenvalues() for the first time after sweep 200, 199, .. (the last
    #      sweeps the loop allows) and, in the thorough tier, anywhere between sweep 150 and 200
    caps = [200] * 8 + [199, 199, 198, 197, 196, 193, 185, 170] if not big else [200] * 60 + [199] * 20 + [198] * 10 + [197] * 10 + list(range(150, 197))
    for tgt in caps:
        n = rng.choice([2, 3, 3, 4]) if not big else rng.choice([2, 3, 3, 4, 4, 5, 6])
        g = _gen_cap(rng, n, tgt)
        if g is None: continue
        m, lam, tag = g; tags = [tag, f"n={n}", "cap-200" if tgt == 200 else "cap-197..199" if tgt >= 197 else "cap-150..196"]
        cs.append(Case(_mline("eigenvalues", m), ["eigenvalues"] + tags, tol=(1e-9, 1e-300), info={"lam": lam}))
        if rng.random() < 0.5: cs.append(Case(_mline("eigensystem", m), ["eigensystem"] + tags, tol=(1e-7, 1e-300), info={"lam": lam}))
    # ---- the stopping test: dense matrices whose iterate after sweep 12 (13, .. 16: the first sweeps that are tested) still has entries of 1e-3 .. 1e-1 below
    #      the diagonal that cancel in a linear functional (signed sum, signed sub-diagonal, last row, first column, alternating sum) to < 1e-15
    for k in range(400 if big else 22):
        n = rng.choice([3, 3, 3, 4, 4, 5] if not big else [3, 3, 3, 4, 4, 5, 6, 7])
        fname = "signed-sum" if k % 2 == 0 else rng.choice(sorted(_FUNCTIONALS))
        g = _gen_cancel(rng, n, rng.choice([12, 12, 12, 12, 13, 14, 16]), fname)
        if g is None: continue
        m, lam, tag = g; tags = [tag, f"n={n}"]
        if k % 5 == 4:
            e, st = _pick_scale(rng, tame=True); m, e = _scale_finite(m, e); lam = [_ldexp(x, e) for x in lam]; tags.append(st)
        ta = 0.0 if tags[-1].startswith("scale") else 1e-300
        cs.append(Case(_mline("eigenvalues", m), ["eigenvalues"] + tags, tol=(1e-9, ta), info={"lam": lam}))
        if k % 2 == 0: cs.append(Case(_mline("eigensystem", m), ["eigensystem"] + tags, tol=(1e-7, ta), info={"lam": lam}))
    # ---- exact coincidences: coupled matrices (small integers / dyadic entries, symmetric under the exchange of two coordinates) with a diagonal entry
    #      that is exactly an eigenvalue, or next to one at 1 .. 1000 ulp / 1e-16 .. 1e-6; Find_Eigenvector_Rayleigh is asked for exactly that value as well
    for k in range(800 if big else 50):
        n = rng.choice([3, 3, 3, 4, 4, 5] if not big else [3, 3, 3, 4, 4, 5, 6, 7])
        g = _gen_diag_is_eigenvalue(rng, n)
        if g is None: continue
        m, lam, tags, mu = g; tags = tags + [f"n={n}"]
        cs.append(Case(_mline("rayleigh", m, " " + hx(mu)), ["rayleigh", "at-eigenvalue"] + tags, tol=(1e-7, 1e-300), info={"lam": lam}))
        if k % 5 == 0:
            e, st = _pick_scale(rng, tame=True); m, e = _scale_finite(m, e); lam = [_ldexp(x, e) for x in lam]; tags.append(st)
        ta = 0.0 if tags[-1].startswith("scale") else 1e-300
        cs.append(Case(_mline("eigensystem", m), ["eigensystem"] + tags, tol=(1e-7, ta), info={"lam": lam}))
        if k % 3 == 0: cs.append(Case(_mline("eigenvalues", m), ["eigenvalues"] + tags, tol=(1e-9, ta), info={"lam": lam}))
        if k % 4 == 0: cs.append(Case(_mline("eigenvectors", m), ["eigenvectors"] + tags, tol=(1e-7, ta), info={"lam": lam}))
        if k % 6 == 1 and len(tags) == 3:
            steps = _gen_session(rng, m)
            cs.append(Case(_session_line(m, steps), ["session"] + tags + sorted({"step-" + st[0] for st in steps if st[0] not in _CALLS}), tol=(1e-7, ta), info={"lam": lam}))
    # ---- hollow matrices (zero diagonal: every natural scale taken from the diagonal vanishes), all / some / nearly; most of them moved along the scale ladder
    for k in range(1200 if big else 70):
        n = rng.choice([3, 3, 3, 4, 4, 5, 6, 7])
        g = _gen_hollow(rng, n)
        if g is None: continue
        m, lam, tags = g; tags = tags + [f"n={n}"]
        if rng.random() < 0.65:
            e, st = _pick_scale(rng, tame=True); m, e = _scale_finite(m, e); lam = [_ldexp(x, e) for x in lam]; tags.append(st)
        ta = 0.0 if tags[-1].startswith("scale") else 1e-300
        cs.append(Case(_mline("eigensystem", m), ["eigensystem"] + tags, tol=(1e-7, ta), info={"lam": lam}))
        if k % 3 == 0: cs.append(Case(_mline("eigenvalues", m), ["eigenvalues"] + tags, tol=(1e-9, ta), info={"lam": lam}))
        if k % 7 == 0: cs.append(Case(_mline("eigenvectors", m), ["eigenvectors"] + tags, tol=(1e-7, ta), info={"lam": lam}))
    # ---- sessions: calls on one object with in-place modifications between them (relabelled basis, exchanged diagonal entries, -M, 2^k M, M^T, a second object)
    for k in range(1000 if big else 70):
        kind = rng.random(); n = rng.choice([2, 2, 3, 3, 3, 4, 5] if not big else [2, 2, 3, 3, 4, 5, 6, 7])
        if kind < 0.45: m, lam, tag = _gen_sym(rng, n); tags = [tag]
        elif kind < 0.85 or n < 3: m, lam, tags = _gen_structured_sym(rng, n)
        else:
            g = _gen_hollow(rng, n)
            if g is None: continue
            m, lam, tags = g
        tags = list(tags) + [f"n={n}"]
        if k % 6 == 0:
            e, st = _pick_scale(rng, tame=True); m, e = _scale_finite(m, e); lam = [_ldexp(x, e) for x in lam]; tags.append(st)
        ta = 0.0 if tags[-1].startswith("scale") else 1e-300
        steps = _gen_session(rng, m)
        cs.append(Case(_session_line(m, steps), ["session"] + tags + sorted({"step-" + st[0] for st in steps if st[0] not in _CALLS}), tol=(1e-7, ta), info={"lam": lam}))
    for m, steps in (([[3.0, 1.0], [1.0, -1.0]], [("sys",), ("dswap", 0, 1), ("sys",), ("vecs",)]),
                     ([[4.0, 1.0, 0.0], [1.0, 3.0, 0.0], [0.0, 0.0, 1.0]], [("vecs",), ("swap", 0, 2), ("vecs",), ("copy",), ("other",), ("sys",), ("neg",), ("vals",), ("qr",)])):
        cs.append(Case(_session_line(m, steps), ["session", "special"], tol=(1e-7, 1e-300)))
    for m in ([[2.0, 0.0, 0.0], [0.0, 3.0, 0.0], [0.0, 0.0, 5.0]], [[4.0]], [[2.0, 1.0], [1.0, 2.0]],
              [[2.0, -1.0, 0.0], [-1.0, 2.0, -1.0], [0.0, -1.0, 2.0]], [[4.0, 1.0, 0.0], [1.0, 3.0, 0.0], [0.0, 0.0, 1.0]]):
        cs.append(Case(_mline("eigenvalues", m), ["eigenvalues", "special"], tol=(1e-9, 1e-300)))
        cs.append(Case(_mline("eigensystem", m), ["eigensystem", "special"], tol=(1e-7, 1e-300)))
        cs.append(Case(_mline("history", m), ["history", "special"], tol=(1e-7, 1e-300)))
    # ---- seventh pass: the helpers the eigen code rests on, driven directly (coq/C15_Model2.v)
    # Sign(double), Sign(double, double), Relative_Difference on every pair of signs / zeros / magnitudes
    sp = [0.0, -0.0, 1.0, -1.0, 5e-324, -5e-324, 2.2250738585072014e-308, 1e-300, -1e-300, 1e300, -1e300, 1.7976931348623157e308, -1.7976931348623157e308, 0.5, -3.25]
    for x in sp:
        for y in sp: cs.append(Case(_mline("scalars", [[x, y]]), ["scalars", "special"], tol=(1e-15, 0.0)))
    for _ in range(2000 if big else 150):
        x = rng.choice([1.0, -1.0]) * 10 ** rng.uniform(-300, 300); k = rng.random()
        if k < 0.3: y = x * (1.0 + _rel(rng) * rng.choice([1.0, -1.0]))
        elif k < 0.4: y = math.nextafter(x, rng.choice([math.inf, -math.inf]))
        elif k < 0.5: y = -x
        elif k < 0.55: y = x
        else: y = rng.choice([1.0, -1.0]) * 10 ** rng.uniform(-300, 300)
        cs.append(Case(_mline("scalars", [[x, y]]), ["scalars"], tol=(1e-15, 0.0)))
    # Matrix::Trace / Determinant / Invertible / Inverse with their guards (square and non-square requests), Householder_Matrix statement by statement
    for _ in range(1200 if big else 90):
        n = rng.randint(1, 6); m, _ = _gen_dense(rng, n); tags = [f"n={n}"]; k = rng.random()
        if k < 0.2:
            m = [[float(rng.randint(-4, 4)) for _ in range(n)] for _ in range(n)]; tags.append("small-integers")
            if n >= 2 and rng.random() < 0.5: m[n - 1] = [a + b for a, b in zip(m[0], m[n - 2])] if n >= 3 else [2.0 * a for a in m[0]]; tags.append("dependent-rows")
        elif k < 0.3:
            e, st = _pick_scale(rng, tame=True); m, e = _scale_finite(m, e); tags.append(st)
        cs.append(Case(_mline("trace", m), ["trace"] + tags, tol=T0))
        cs.append(Case(_mline("invertible", m), ["invertible"] + tags))
        if rng.random() < 0.5: cs.append(Case(_mline("detg", m), ["detg"] + tags, tol=T0))
        if rng.random() < 0.5: cs.append(Case(_mline("invg", m), ["invg"] + tags, tol=(1e-9, 0.0)))
        if "small-integers" not in tags and rng.random() < 0.5: cs.append(Case(_mline("householder_steps", m), ["householder_steps"] + tags, tol=T0))
    for _ in range(200 if big else 24):
        r_, c_ = rng.randint(1, 5), rng.randint(1, 5)
        if r_ == c_: c_ += 1
        m = [[rng.gauss(0, 1) for _ in range(c_)] for _ in range(r_)]
        for op_ in ("trace", "detg", "invertible", "invg"): cs.append(Case(_mline(op_, m), [op_, "guard", "non-square"]))
    return cs


# ---------------------------------------------------------------- parsing
def _case_matrix(c):
    v = parse_vals(c.line); op = v[0]; n = v[1]; k = 2; m = []
    for _ in range(n):
        ln = v[k]; m.append(v[k + 1:k + 1 + ln]); k += 1 + ln
    return op, m, v[k:]


def _read_mat(vals, k):
    r, cdim = vals[k], vals[k + 1]; e = vals[k + 2:k + 2 + r * cdim]
    return [[e[i * cdim + j] for j in range(cdim)] for i in range(r)], k + 2 + r * cdim


def _read_list(vals, k):
    ln = vals[k]; return vals[k + 1:k + 1 + ln], k + 1 + ln


def _read_vecs(vals, k):
    nv = vals[k]; k += 1; vs = []
    for _ in range(nv):
        v, k = _read_list(vals, k); vs.append(v)
    return vs, k


def _has_1x1_block(m):
    n = len(m)
    return any(all(m[i][j] == 0.0 and m[j][i] == 0.0 for j in range(n) if j != i) for i in range(n))


def _near_reduced(m):
    """some pivot column of a pass has a non-zero part below the diagonal that is at most 1e-5 of the column"""
    n = len(m)
    if n < 2 or any(len(r) != n for r in m): return False
    ms, _ = _normalise(m); a = [list(r) for r in ms]
    for k in range(n - 1):
        x = [a[i][k] for i in range(k, n)]; nx = math.sqrt(math.fsum(t * t for t in x)); lowpart = math.sqrt(math.fsum(t * t for t in x[1:]))
        if nx == 0.0: return False
        if 0.0 < lowpart <= 1e-5 * nx: return True
        alpha = -math.copysign(nx, x[0]); u = list(x); u[0] -= alpha; nu = math.sqrt(math.fsum(t * t for t in u)); u = [t / nu for t in u]
        for j in range(k, n):
            d = 2.0 * math.fsum(u[i] * a[k + i][j] for i in range(n - k))
            for i in range(n - k): a[k + i][j] -= d * u[i]
    return False


def nontrivial(c, io):
    op, m, _ = _case_matrix(c); n = len(m)
    ms, e = _normalise(m)
    if op == "qr":
        return c.info.get("kappa", 1.0) > 1e3 or any(m[i][0] == 0.0 for i in range(n)) or "guard" in " ".join(c.tags) or abs(e) > 12 or _near_reduced(m)
    if op == "session": return True
    if op == "rayleigh": return n >= 2
    if op == "scalars": return m[0][0] == 0.0 or m[0][1] == 0.0 or (m[0][0] > 0) != (m[0][1] > 0) or abs(m[0][0] - m[0][1]) <= 1e-6 * abs(m[0][0])
    if op in ("trace", "detg", "invertible", "invg"): return any(len(r) != n for r in m) or n >= 3 or "dependent-rows" in c.tags
    if op == "householder_steps": return n >= 2
    if op in ("eigenvalues", "eigensystem", "eigenvectors", "history"):
        lam = c.info.get("lam")
        if not lam: return True
        srt = sorted((abs(x) for x in lam), reverse=True)
        ratio = max((b / a for a, b in zip(srt, srt[1:])), default=0.0)
        return ratio > 0.5 or any(t.startswith(("diagonal", "block", "near-diagonal", "structured", "cap-", "cancel-")) for t in c.tags) or (min(lam) < 0 < max(lam)) or abs(e) > 12
    return False


# ---------------------------------------------------------------- S4 predicates (scale-free: every clause is evaluated on M / 2^e and the outputs / 2^e)
def _isnan(x): return isinstance(x, float) and math.isnan(x)


def _pred_qr(m, q, r):
    """clauses of 'Q orthogonal, R upper triangular, Q R = M to rounding' for a non-singular square M"""
    out = []; n = len(m)
    ms, e = _normalise(m); nm = _fro(ms)
    piv = _ref_pivots(ms); reg = _norm_region(min(piv), max(piv), e)
    if len(q) != n or len(r) != n or any(len(x) != n for x in q + r): return [("qr:shape", "Q or R is not n x n")]
    if any(_isnan(x) or (isinstance(x, float) and math.isinf(x)) for row in q + r for x in row): return [("qr:nan" + reg, "Q or R contains NaN or an infinity for a non-singular matrix")]
    rs = _scale(r, -e)
    # slack: every sweep multiplies by an explicitly formed reflector P (entries off by <= 8 eps), an n-term inner product
    # adds n eps; n sweeps => n (n + 8 sqrt n) eps |M|, taken as 4 n (n + 8) eps
    sl = 4 * n * (n + 8) * EPS
    g = _matmul(_tr(q), q)
    bad = max(abs(g[i][j] - (1.0 if i == j else 0.0)) for i in range(n) for j in range(n))
    if not bad <= sl: out.append(("qr:orthogonal" + reg, f"max |Q^T Q - 1| = {bad!r} > {sl!r}"))
    low = [(i, j) for i in range(n) for j in range(i) if r[i][j] != 0.0]
    if low: out.append(("qr:upper-triangular" + reg, f"R{low[0]} = {r[low[0][0]][low[0][1]]!r} is not zero"))
    p = _matmul(q, rs)
    bad = max(abs(p[i][j] - ms[i][j]) for i in range(n) for j in range(n))
    if not bad <= sl * nm: out.append(("qr:product" + reg, f"max |Q R - M| / 2^{e} = {bad!r} > {sl * nm!r} (|M| / 2^{e} = {nm!r})"))
    else:
        # the reflections act on every column of M separately: the same bound holds column by column, relative to the length of that column
        for j in range(n):
            cn = math.sqrt(math.fsum(ms[i][j] ** 2 for i in range(n))); bad = max(abs(p[i][j] - ms[i][j]) for i in range(n))
            if not bad <= sl * cn:
                out.append(("qr:product-columnwise" + reg, f"column {j}: max |Q R - M| / 2^{e} = {bad!r} > {sl * cn!r} (length of the column / 2^{e} = {cn!r})")); break
    return out


def _pred_eigenvalues(m, ev, ref, e, reg):
    out = []; n = len(m); ms, _ = _normalise(m); nm = _fro(ms)
    # a priori slack for the eigenvalues: convergence tolerance (sub-diagonal mass < 1e-12 * sum |lambda|) + rounding of <= 200 sweeps
    sl_ev = (1e-12 * n + 200 * 4 * n * (n + 8) * EPS) * nm
    if len(ev) != n: return [("eigenvalues:count", f"{len(ev)} eigenvalues for a {n} x {n} matrix")]
    if any(_isnan(x) or math.isinf(x) for x in ev): return [("eigenvalues:nan" + reg, "NaN or infinite eigenvalue")]
    evs = [_ldexp(x, -e) for x in ev]
    bad = max(abs(a - b) for a, b in zip(sorted(evs), ref))
    if not bad <= sl_ev: out.append(("eigenvalues:spectrum" + reg, f"eigenvalues / 2^{e} {sorted(evs)!r} differ from the Jacobi reference {ref!r} by {bad!r} > {sl_ev!r}"))
    tr = math.fsum(ms[i][i] for i in range(n))
    if not abs(math.fsum(evs) - tr) <= n * sl_ev: out.append(("eigenvalues:trace" + reg, f"sum / 2^{e} {math.fsum(evs)!r} differs from the trace {tr!r}"))
    det = _det_exact(ms); prod = Fraction(1)
    for x in evs: prod *= Fraction(x)
    rel = math.fsum(sl_ev / abs(x) for x in ref) * 1.01 + 64 * EPS if all(ref) else math.inf
    if rel < math.inf and not abs(prod - det) <= abs(det) * Fraction(rel):
        out.append(("eigenvalues:determinant" + reg, f"product / 2^{n * e} {float(prod)!r} differs from the determinant {float(det)!r} (relative slack {rel!r})"))
    return out


def _pred_eigenpairs(m, ev, vs, ref, e, reg, what):
    """ev = None: Eigenvectors (lambda := Rayleigh quotient of the returned vector)"""
    out = []; n = len(m); ms, _ = _normalise(m); nm = _fro(ms)
    sl_ev = (1e-12 * n + 200 * 4 * n * (n + 8) * EPS) * nm
    if len(vs) != n or any(len(v) != n for v in vs) or (ev is not None and len(ev) != n): return [("eigensystem:count", f"{len(vs)} eigenvectors for a {n} x {n} matrix")]
    if any(_isnan(x) or math.isinf(x) for v in vs for x in v) or (ev is not None and any(_isnan(x) or math.isinf(x) for x in ev)): return [("eigensystem:nan" + reg, f"{what}: NaN in an eigenpair")]
    evs = None if ev is None else [_ldexp(x, -e) for x in ev]
    # residual slack: the loop stops when the change of b is < 1e-15 or after 100 steps; with contraction factor
    # delta/gap <= 1/2 the error of the last iterate is rounding of the explicit inverse; 1e-8 |M| leaves room for the
    # explicit inverse of the nearly singular shifted matrix (condition 1e8)
    sl_res = 1e-8 * nm
    for idx, v in enumerate(vs):
        nv_ = math.sqrt(math.fsum(x * x for x in v))
        if not abs(nv_ - 1.0) <= 8 * n * EPS: out.append(("eigensystem:unit" + reg, f"{what}: eigenvector {idx} has norm {nv_!r}")); break
        mv = [math.fsum(ms[i][j] * v[j] for j in range(n)) for i in range(n)]
        lam = evs[idx] if evs is not None else math.fsum(v[i] * mv[i] for i in range(n))
        res = math.sqrt(math.fsum((mv[i] - lam * v[i]) ** 2 for i in range(n)))
        if not res <= sl_res: out.append(("eigensystem:residual" + reg, f"{what}: |M v - lambda v| / 2^{e} = {res!r} > {sl_res!r} for eigenpair {idx} (lambda / 2^{e} = {lam!r})")); break
    # "for each eigenvalue": the returned pairs cover the whole spectrum (no eigenvalue returned twice, none missed)
    got = sorted(evs) if evs is not None else sorted(math.fsum(v[i] * math.fsum(ms[i][j] * v[j] for j in range(n)) for i in range(n)) for v in vs)
    bad = max(abs(a - b) for a, b in zip(got, ref))
    if not bad <= max(sl_ev, sl_res): out.append(("eigensystem:spectrum" + reg, f"{what}: eigenvalues of the returned pairs / 2^{e} {got!r} differ from the Jacobi reference {ref!r} by {bad!r}"))
    # the same clause on the vectors: eigenvectors of a symmetric matrix for DISTINCT eigenvalues are orthogonal.  For unit vectors with residuals r_i, r_j:
    # (lambda_i - lambda_j) v_i . v_j = v_i . r_j - r_i . v_j, so |v_i . v_j| <= (|r_i| + |r_j|) / gap <= 2 sl_res / gap with gap = the smallest distance of two
    # eigenvalues of the reference; evaluated where that bound says something (< 1/2).  A pair returned twice has |v_i . v_j| = 1.
    gap = min((b - a for a, b in zip(ref, ref[1:])), default=math.inf)
    bound = 2 * sl_res / gap + 8 * n * EPS if gap > 0 else math.inf
    if not out and n >= 2 and bound < 0.5:
        worst = max(((abs(math.fsum(a * b for a, b in zip(vs[i], vs[j]))), i, j) for i in range(n) for j in range(i)), key=lambda t: t[0])
        if not worst[0] <= bound: out.append(("eigensystem:orthogonal" + reg, f"{what}: eigenvectors {worst[2]} and {worst[1]} have |v_i . v_j| = {worst[0]!r} > {bound!r} (smallest gap of the spectrum / 2^{e} = {gap!r})"))
    return out


def _eigen_ctx(m):
    """reference spectrum and input regions of a symmetric eigen-request"""
    ms, e = _normalise(m); ref = _jacobi(ms); nms = _fro(ms)
    reg = _norm_region(min(abs(x) for x in ref), nms, e)
    # Eigensystem only: the inverse-iteration vector M_inv b has length up to 1 / (1e-8 |M|) before it is normalised
    reg_sys = reg or (":iterate-norm-overflow" if _log2(nms) + e <= math.log2(1e8) - 505.0 else "")
    # Eigensystem only: the start vector of the inverse iteration is itself an eigenvector (the loop then never leaves it)
    reg_sys = reg_sys or (":start-vector-eigenvector" if _start_vector_is_eigenvector(ms, nms) else "")
    return {"ms": ms, "e": e, "ref": ref, "nms": nms, "reg": reg, "reg_sys": reg_sys, "cls": ":exact-eigenvalue-shift" if _has_1x1_block(m) else ""}


def _exit_finding(cx, what, values_only):
    """signature and message for a symmetric eigen-request that ended the process"""
    reg = cx["reg"]
    # the 200 sweeps of the unshifted iteration are known not to suffice where the a priori estimate of the sweep count exceeds them and the reference run agrees
    if not reg and _slow_reordering(cx["ms"]): reg = ":slow-reordering"
    if values_only: return ("eigenvalues:exit" + reg, f"{what}: Eigenvalues terminated the process on a symmetric matrix with separated eigenvalues")
    if not reg and _shifted_det_underflows(cx["ref"], cx["nms"], cx["e"]): reg = ":det-underflow"
    # ':exact-eigenvalue-shift' marks the input class of the repaired defect (M has a row whose off-diagonal entries are all zero)
    return ("eigensystem:exit" + cx["cls"] + reg, f"{what} terminated the process on a symmetric matrix with separated eigenvalues")


def _parse_steps(rest):
    """[count, tokens ..] -> list of step tuples"""
    steps = []; k = 1
    while k < len(rest):
        w = rest[k]
        if w in ("swap", "dswap"): steps.append((w, rest[k + 1], rest[k + 2])); k += 3
        elif w == "scale": steps.append((w, rest[k + 1])); k += 2
        else: steps.append((w,)); k += 1
    return steps


def predicates(c, io):
    """S4: the property's own clauses evaluated on the implementation's output."""
    out = []
    op, m, rest = _case_matrix(c); n = len(m)
    if io.startswith(("CRASH", "SANITIZER", "HARNESSERR")): return out
    o = parse_vals(io)
    exited = io.startswith("EXIT"); timeout = io.startswith("TIMEOUT")
    if op in ("trace", "detg", "invertible", "invg", "scalars") and timeout: return [(f"{op}:timeout", f"{op} did not terminate within the time bound")]
    if op == "scalars":
        # Sign(x), Sign(y), Sign(x, y), Sign(y, x), Relative_Difference(x, y) against their definitions
        if exited: return [("scalars:exit", "a scalar helper terminated the process")]
        x, y = m[0][0], m[0][1]; sg = lambda t: 1 if t > 0 else 0 if t == 0 else -1
        if o[0] != sg(x) or o[1] != sg(y): out.append(("scalars:sign", f"Sign({x!r}) = {o[0]}, Sign({y!r}) = {o[1]}"))
        for got, a, b in ((o[2], x, y), (o[3], y, x)):
            want = a if sg(a) == sg(b) else -a
            if not (got == want): out.append(("scalars:sign-transfer", f"Sign({a!r}, {b!r}) = {got!r}, expected {want!r}"))
        rd = o[4]; mx = max(abs(x), abs(y))
        if _isnan(rd): out.append(("scalars:reldiff-nan", f"Relative_Difference({x!r}, {y!r}) is NaN"))
        elif mx == 0.0:
            if rd != 0.0: out.append(("scalars:reldiff-zero", f"Relative_Difference({x!r}, {y!r}) = {rd!r}, not 0"))
        else:
            want = abs(Fraction(x) - Fraction(y)) / Fraction(mx)          # exact; two roundings (difference, quotient) + the overflow of x - y to infinity
            if math.isinf(x - y): pass
            elif not abs(Fraction(rd) - want) <= 4 * Fraction(EPS) * want + Fraction(2) ** -1074 / Fraction(mx) + Fraction(2) ** -1074: out.append(("scalars:reldiff-value", f"Relative_Difference({x!r}, {y!r}) = {rd!r}, exact {float(want)!r}"))
            if not (0.0 <= rd <= 2.0) and not math.isinf(x - y): out.append(("scalars:reldiff-range", f"Relative_Difference({x!r}, {y!r}) = {rd!r} outside [0, 2]"))
        return out
    if op in ("trace", "detg", "invertible", "invg"):
        square = all(len(r) == n for r in m)
        if not square:
            if op == "invertible":
                if exited or o[0] != 0: out.append(("invertible:guard", "Invertible() of a non-square matrix is not false"))
            elif not exited: out.append((f"{op}:guard", f"{op} accepted a non-square matrix"))
            return out
        if op == "trace":
            if exited: return [("trace:exit", "Trace terminated the process on a square matrix")]
            want = math.fsum(m[i][i] for i in range(n)); sc = math.fsum(abs(m[i][i]) for i in range(n))
            if not abs(o[0] - want) <= 2 * n * EPS * sc: out.append(("trace:value", f"Trace = {o[0]!r}, exact {want!r}"))
            return out
        if op == "invertible":
            det = _det_exact(m)
            if exited: return [("invertible:exit", "Invertible terminated the process")]
            exact = all(float(x).is_integer() and abs(x) <= 16 for r in m for x in r)       # small integers: the Laplace sum is exact
            if det == 0 and exact and o[0] != 0: out.append(("invertible:singular", "Invertible() is true for an exactly singular small-integer matrix"))
            if det != 0 and (exact or "small-integers" not in c.tags) and abs(_normalise(m)[1]) * n < 900 and o[0] != 1: out.append(("invertible:regular", "Invertible() is false for a non-singular matrix of moderate scale"))
            return out
        op = "det" if op == "detg" else "inverse"
    if op == "householder_steps": op = "householder"
    if op == "qr":
        if any(len(r) != n for r in m):
            if not exited: out.append(("qr:guard", "QR_Decomposition accepted a non-square matrix"))
            return out
        if exited or timeout:
            ms, e = _normalise(m); piv = _ref_pivots(ms)
            return [("qr:exit" + _norm_region(min(piv), max(piv), e), f"QR_Decomposition ended with {io} on a non-singular square matrix")]
        q, k = _read_mat(o, 0); r, _ = _read_mat(o, k)
        out += _pred_qr(m, q, r)
    elif op == "householder":
        if exited or timeout: return [("householder:exit", f"Householder_Matrix ended with {io}")]
        h, _ = _read_mat(o, 0); x = [m[i][0] for i in range(n)]
        if not any(x): return out                 # zero column: division by zero, outside the quantifier
        mx = max(abs(t) for t in x); e = math.frexp(mx)[1]; x = [_ldexp(t, -e) for t in x]
        nx = math.sqrt(math.fsum(t * t for t in x)); reg = _norm_region(nx, nx, e)
        if any(_isnan(t) or math.isinf(t) for row in h for t in row): return [("householder:nan" + reg, "H contains NaN for a non-zero column")]
        sl = 16 * n * EPS
        g = _matmul(_tr(h), h)
        if not max(abs(g[i][j] - (1.0 if i == j else 0.0)) for i in range(n) for j in range(n)) <= sl: out.append(("householder:orthogonal" + reg, "H^T H differs from 1"))
        if any(abs(h[i][j] - h[j][i]) > sl for i in range(n) for j in range(n)): out.append(("householder:symmetric" + reg, "H is not symmetric"))
        hx_ = [math.fsum(h[i][j] * x[j] for j in range(n)) for i in range(n)]
        if not (abs(abs(hx_[0]) - nx) <= sl * nx and all(abs(t) <= sl * nx for t in hx_[1:])): out.append(("householder:reflects" + reg, f"H x / 2^{e} = {hx_!r} is not +-|x| e1 (|x| / 2^{e} = {nx!r})"))
        if x[0] != 0 and not hx_[0] * x[0] < 0: out.append(("householder:sign" + reg, "alpha does not have the sign opposite to x0"))
    elif op in ("eigenvalues", "eigensystem", "eigenvectors", "history"):
        pre = "eigenvalues" if op == "eigenvalues" else "eigensystem"       # Eigenvectors(M) is Eigensystem(M).second
        cx = _eigen_ctx(m); reg, reg_sys, ref, e = cx["reg"], cx["reg_sys"], cx["ref"], cx["e"]
        if timeout: return [(f"{pre}:timeout" + reg, f"{op} did not terminate within the time bound")]
        if exited: return [_exit_finding(cx, op, op == "eigenvalues")]
        if op == "eigenvalues":
            ev, _ = _read_list(o, 0)
            out += _pred_eigenvalues(m, ev, ref, e, reg)
            # theorem C15_eigenvalues_of_diagonal: on a diagonal matrix with non-zero diagonal every sweep returns the matrix itself (Q is a diagonal
            # matrix of signs), so the answer is the diagonal in its own order; in floating point each step is exact while the squares d * d stay
            # inside the normal range (sqrt(fl(d * d)) = |d|), hence equality and not "to rounding"
            dg = [m[i][i] for i in range(n)]
            if not out and all(m[i][j] == 0.0 for i in range(n) for j in range(n) if i != j) and all(1e-100 < abs(x) < 1e100 for x in dg) and list(ev) != dg:
                out.append(("eigenvalues:diagonal-order" + reg, f"Eigenvalues of the diagonal matrix diag{dg!r} = {list(ev)!r}, not the diagonal in its order"))
        elif op == "eigensystem":
            ev, k = _read_list(o, 0); vs, _ = _read_vecs(o, k)
            out += _pred_eigenpairs(m, ev, vs, ref, e, reg_sys, "Eigensystem")
        elif op == "eigenvectors":
            vs, _ = _read_vecs(o, 0)
            out += _pred_eigenpairs(m, None, vs, ref, e, reg_sys, "Eigenvectors")
        else:
            # one Matrix object through Eigensystem, Eigenvectors, Eigenvalues, QR_Decomposition, Eigensystem: every answer must satisfy
            # its clauses for the ORIGINAL matrix, equal requests must get equal answers, and the argument must come back unchanged
            ev1, k = _read_list(o, 0); vs1, k = _read_vecs(o, k); vs2, k = _read_vecs(o, k); ev3, k = _read_list(o, k)
            q, k = _read_mat(o, k); r, k = _read_mat(o, k); ev4, k = _read_list(o, k); vs4, k = _read_vecs(o, k); same = o[k]
            out += _pred_eigenpairs(m, ev1, vs1, ref, e, reg_sys, "Eigensystem (first call on the object)")
            out += _pred_eigenpairs(m, None, vs2, ref, e, reg_sys, "Eigenvectors (second call on the object)")
            out += _pred_eigenvalues(m, ev3, ref, e, reg)
            out += _pred_qr(m, q, r)
            out += _pred_eigenpairs(m, ev4, vs4, ref, e, reg_sys, "Eigensystem (fifth call on the object)")
            if not (vs2 == vs1 and vs4 == vs1 and ev4 == ev1): out.append(("history:repeatable", "the same request on the same Matrix object was answered differently the second time"))
            if same != 1: out.append(("history:argument-unchanged", "the Matrix passed by reference differs from its copy after the calls"))
    elif op == "session":
        # calls on one or two Matrix objects with in-place modifications between them: every answer must satisfy its clauses for the value the
        # object has AT THAT CALL (computed here by replaying the modifications, which are exact), and the calls must not change the object
        steps = _parse_steps(rest)
        cur = [list(r) for r in m]; oth = [list(r) for r in m]; k = 0; nc = 0; hist = "a fresh object"
        if timeout: return [("eigensystem:timeout" + _eigen_ctx(m)["reg"], "a call of the session did not terminate within the time bound")]
        if exited:
            # the runner does not say which call ended the process: the first call whose argument lies in a region where an exit is known decides the signature
            fs = []
            for st in steps:
                if st[0] in ("sys", "vecs", "vals"): fs.append(_exit_finding(_eigen_ctx(cur), "session call '" + st[0] + "' after " + hist, st[0] == "vals"))
                elif st[0] != "qr": cur, oth = _apply_step(cur, oth, st); hist = "the in-place modifications " + " ".join(" ".join(str(x) for x in t) for t in steps[:steps.index(st) + 1] if t[0] not in _CALLS)
            # (the class marker ':exact-eigenvalue-shift' is not a region: a signature names a region when something follows 'exit' besides it)
            known_ = [f for f in fs if f[0].replace(":exact-eigenvalue-shift", "").count(":") > 1]
            return [known_[0] if known_ else fs[0] if fs else ("qr:exit", "QR_Decomposition of a session ended the process")]
        for idx, st in enumerate(steps):
            if st[0] not in _CALLS:
                cur, oth = _apply_step(cur, oth, st); hist = "the in-place modifications " + " ".join(" ".join(str(x) for x in t) for t in steps[:idx + 1] if t[0] not in _CALLS)
                continue
            nc += 1; what = f"call {nc} of the session ({ {'sys': 'Eigensystem', 'vecs': 'Eigenvectors', 'vals': 'Eigenvalues', 'qr': 'QR_Decomposition'}[st[0]] } after {hist})"
            if st[0] == "qr":
                q, k = _read_mat(o, k); r, k = _read_mat(o, k); out += [(sg, what + ": " + ms_) for sg, ms_ in _pred_qr(cur, q, r)]
                continue
            cx = _eigen_ctx(cur)
            if st[0] == "vals":
                ev, k = _read_list(o, k); out += [(sg, what + ": " + ms_) for sg, ms_ in _pred_eigenvalues(cur, ev, cx["ref"], cx["e"], cx["reg"])]
            elif st[0] == "sys":
                ev, k = _read_list(o, k); vs, k = _read_vecs(o, k); out += _pred_eigenpairs(cur, ev, vs, cx["ref"], cx["e"], cx["reg_sys"], what)
            else:
                vs, k = _read_vecs(o, k); out += _pred_eigenpairs(cur, None, vs, cx["ref"], cx["e"], cx["reg_sys"], what)
        if o[k] != 1: out.append(("history:argument-unchanged", "a Matrix passed by reference differs from the value its caller gave it after the calls of the session"))
    elif op == "rayleigh":
        # Find_Eigenvector_Rayleigh(M, ev) for any ev: (theorem C15_rayleigh_returns_unit_vector) a unit vector of the dimension of M,
        # (theorem C15_rayleigh_quotient_returned) the returned eigenvalue is the Rayleigh quotient of the returned vector
        if timeout: return [("rayleigh:timeout", "Find_Eigenvector_Rayleigh did not terminate within the time bound")]
        if exited: return [("rayleigh:exit", "Find_Eigenvector_Rayleigh terminated the process on a symmetric matrix of moderate scale")]
        lamr = o[0]; v, _ = _read_list(o, 1); nm = _fro(m)
        if len(v) != n: return [("rayleigh:count", f"vector of length {len(v)} for a {n} x {n} matrix")]
        if _isnan(lamr) or math.isinf(lamr) or any(_isnan(x) or math.isinf(x) for x in v): return [("rayleigh:nan", "NaN in the returned pair")]
        nv_ = math.sqrt(math.fsum(x * x for x in v))
        if not abs(nv_ - 1.0) <= 8 * n * EPS: out.append(("rayleigh:unit", f"returned vector has norm {nv_!r}"))
        rq = math.fsum(v[i] * math.fsum(m[i][j] * v[j] for j in range(n)) for i in range(n))
        if not abs(lamr - rq) <= 8 * n * n * EPS * nm: out.append(("rayleigh:quotient", f"returned eigenvalue {lamr!r} is not the Rayleigh quotient {rq!r} of the returned vector"))
        # the clause of the property itself, 'for each eigenvalue a unit vector v and value lambda with M v = lambda v': when the value asked for IS an
        # eigenvalue of the symmetric M (to 1e-9 |M|; the shift sits 1e-8 |M| next to it, every other eigenvalue is farther away by the separation of
        # the spectrum) the inverse iteration has to return that eigenpair, with the residual slack of Eigensystem (explicit inverse of condition 1e8)
        asked = rest[0] if rest else None
        if not out and isinstance(asked, float) and n >= 1 and all(m[i][j] == m[j][i] for i in range(n) for j in range(i)):
            cx = _eigen_ctx(m); ms, e, nms = cx["ms"], cx["e"], cx["nms"]
            near = [x for x in cx["ref"] if abs(x - _ldexp(asked, -e)) <= 1e-9 * nms]
            srt = sorted(abs(x) for x in cx["ref"])
            if len(near) == 1 and srt[0] > 0.0 and all(a <= 0.8001 * b for a, b in zip(srt, srt[1:])):
                reg = ":start-vector-eigenvector" if _start_vector_is_eigenvector(ms, nms) else ""
                mv = [math.fsum(ms[i][j] * v[j] for j in range(n)) for i in range(n)]; ls = _ldexp(lamr, -e)
                res = math.sqrt(math.fsum((mv[i] - ls * v[i]) ** 2 for i in range(n)))
                if not res <= 1e-8 * nms: out.append(("rayleigh:residual" + reg, f"asked for the eigenvalue {asked!r}: |M v - lambda v| / 2^{e} = {res!r} > {1e-8 * nms!r} for the returned pair (lambda = {lamr!r}, v = {v!r})"))
                elif not abs(ls - near[0]) <= 1e-8 * nms: out.append(("rayleigh:eigenvalue" + reg, f"asked for the eigenvalue {asked!r}, the returned pair belongs to {lamr!r}"))
    elif op in ("det", "inverse") and timeout:
        out.append((f"{op}:timeout", f"{op} did not terminate within the time bound"))
    elif op == "det":
        if exited: return [("det:exit", "Determinant terminated the process")]
        ms, e = _normalise(m); det = _det_exact(ms); nm = _fro(ms)
        # scale-free: compare det / 2^(n e); skipped where the determinant or one of its n! products is outside the double range
        if abs(n * e) + 60 < 1000:
            got = Fraction(o[0]) / Fraction(2) ** (n * e) if not (_isnan(o[0]) or math.isinf(o[0])) else None
            allow = Fraction(64 * math.factorial(min(n, 6)) * EPS * nm ** n) + Fraction(_det_allow(n)) * Fraction(2) ** (-1074 - n * e)
            if got is None or not abs(got - det) <= allow: out.append(("det:value", f"Determinant = {o[0]!r}, exact value {float(det)!r} * 2^{n * e}"))
    elif op == "inverse":
        det = _det_exact(m)
        if det == 0:
            if not exited: out.append(("inverse:singular", "Inverse returned for an exactly singular matrix"))
        elif exited:
            reg = ":det-underflow" if n >= 2 and abs(det) < Fraction(2 * _det_allow(n)) * Fraction(2) ** -1074 else ""
            out.append(("inverse:exit" + reg, "Inverse terminated the process on a non-singular matrix"))
    return out
