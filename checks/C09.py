"""C09 — interpolation results do not depend on the history of earlier calls.

Case grammar (one line):
  h1 <ctor> <N> x_1..x_N <N> y_1..y_N <nops> op op ...       one Interpolation object, a history of calls
  h2 <ctor> <Nx> xs <Ny> ys f_11 f_12 .. f_NxNy <nops> op .. one Interpolation_2D object (row-major table)
<ctor> = <overload><argc> dim_1 .. dim_argc: the constructor overload every object of the case (used, fresh, prefactor-free)
  is built with and the unit arguments the call passes explicitly, the others being left to the default arguments:
  v = Interpolation(xs, ys[, x_dim[, f_dim]])            r = Interpolation(rows (x,f)[, x_dim[, f_dim]])
  g = Interpolation_2D(xs, ys, f[, x_dim[, y_dim[, f_dim]]])   t = Interpolation_2D(rows (x,y,f)[, x_dim[, y_dim[, f_dim]]])
  The tables of the case are the RAW ones; all arguments of the history refer to the table after the unit scaling.
ops (1-D) and the tokens each one prints:
  L x        Locate                -> j jf          index on the used object, index on a fresh object
  I x / O x  Interpolate / operator() -> v vf vb    used, fresh with the same prefactor (Set_Prefactor on a new object), new object
  D x k      Derivative(x,k)       -> v vf vb
  d x        Derivative(x) (default argument) -> v vf vb    (vb: Derivative(x, 1) of a new object, written out)
  G a b      Integrate(a,b)        -> v vf vb
  m a b / M a b  Local_Minimum / Local_Maximum -> v vf bmin bmax    (Local_Minimum and Local_Maximum of new objects)
  gm / gM    Global_Minimum / Global_Maximum   -> v vf bmin bmax
  Q          the public member domain          -> d0 d1   (2-D: x0 x1 y0 y1)
  P f / U f  Set_Prefactor / Multiply          -> pf  (the prefactor the calls so far should have left)
  F n        Save_Function(scratch file, n)    -> rows, then per row of the file: t:<x text> t:<v text> x vf vb   (the two fields of the row verbatim;
             the argument the row belongs to = point #k of Linear_Space(domain[0], domain[1], n), computed by the harness itself; Interpolate(x) of a
             fresh object with the same prefactor and of a new object).  The file is an OUTPUT of the object: its rows must follow the prefactor and
             the history exactly as Interpolate does (the model prints `_` for the text fields; S4 compares them with the "%g" text of the values)
  C / A      continue on a copy-constructed / assigned copy (the original is kept)   -> nothing
  R          return to the object the last copy was taken from                       -> nothing
ops (2-D): I x y / O x y -> v vf vb;  gm gM Q P U C A R as above;
  F nx ny / f nx   Save_Function(scratch file, nx, ny) / Save_Function(scratch file, nx) (default y_points = 0 = nx)
             -> rows, then per row: t:<x text> t:<y text> t:<v text> x y vf vb
Sessions (several objects alive in one process, holding possibly different tables; slots 0..7, slot 0 starts as an object of table 0
and is the current one; every query goes to the current object and to fresh objects of the table that object should hold by now):
  s1 <T> {<ctor> <N> x.. <N> y..}*T <nops> op ..        s2 <T> {<ctor> <Nx> xs <Ny> ys f..}*T <nops> op ..
  the member calls above (not C A R), and
  S k      the object in slot k becomes the current one
  N k t    slot k: the old object is destroyed, a new object of table t is constructed
  V k t    *slot k = Interpolation(table t ..)   (assignment from a temporary)
  W k t    { Interpolation tmp(table t ..); *slot k = tmp; }   (copy assignment from a third object that dies at once)
  K a b    slot b = new copy-constructed copy of slot a (an old object in b is destroyed first)
  E a b    *slot b = *slot a   (copy assignment in place; also a == b)
  Z a b    std::swap(*slot a, *slot b)
  X k      the object in slot k is destroyed
A call that ends the process makes the whole line EXIT.
Every token is predicted by the model (the 2-D Global_* values by glob2 of C09_Model.v).
Generator classes: plain tables (integer / logarithmic / random increments, 3..2000 points) with histories of far jumps, short correlated steps
both ways, knots, the ladder of distances beside knots (1..1000 representable steps, 1e-16..1e-6 relative), domain ends and margins,
verbatim repetitions of earlier arguments, copies, chains of Integrate / Local_* ranges that start exactly where the previous range ended (with prefactor calls in between); sessions in which a copy's source (or the copy) is afterwards queried elsewhere,
assigned another table (of the same, a smaller or a larger size: with and without reuse of the storage), swapped, or destroyed before
the other one is asked again, with arguments aimed at the segments that the cached indices of ALL live objects denote in the OTHER
tables (where a look-up that consults state or storage of another object goes wrong); every constructor overload with unit arguments; tables on EXTREME scales (abscissae
scaled by 1e-322..1e295 through the raw table or the unit argument, neighbouring doubles at a large offset, subnormal abscissae): there
1-D histories use every kind of query when the spline coefficients are numbers and the index / prefactor / copy / Global_* calls otherwise
(`index-only`), 2-D histories evaluate the bilinear value throughout; `unit-collapse`: raw tables with neighbouring doubles and a unit
argument x_dim whose rounding multiplication maps them to ONE double: the 1-D constructor (since the repair F45 of the former finding
K-C09-2) and the 2-D constructor convert the units first and test the order on the converted abscissae, so both must end the process;
an object that comes back from such a call, and any history dependence on it, is a violation; `save-function`: Save_Function files written in the
middle of histories rich in Set_Prefactor / Multiply (also at low rate in every other class with numeric values)."""
import bisect, math, struct
from vcheck import Case, hx, flist, tokf

PID = "C09"
RULE = ("a case is one table plus one history; non-trivial = by simulation of the cache (jLast, correlated_calls) along the history, "
        "whose search kinds are cross-checked against the model's own trace in the extra stage, the history made Locate run the "
        "bisection over the whole table, the hunt upwards and the hunt downwards at least once each; distinct by case text")
LEVEL_TEXT = ("Theorems (Coq, unbounded, on an abstract number type with only the laws of a strict total order, hence valid verbatim for doubles "
              "without NaN): for every strictly increasing table with 2 <= N <= 2^30 and every state of the cache with jLast <= N-2, Bisection and Hunt "
              "stay inside the table, never exhaust their loop bounds and return a segment containing x; after the canonicalisation step Locate returns "
              "THE segment xs[j] <= x < xs[j+1] (N-2 at the upper end) for every x in the domain, knots included, and in the extrapolation branch it does "
              "not read the cache at all; jLast <= N-2 is invariant under every operation; for every history of Locate / Interpolate / Derivative / "
              "Integrate / Local_* / Global_* / Set_Prefactor / Multiply / copy operations of any length and every further operation, the output "
              "(located indices and value, as the same term) equals that of a fresh object carrying the prefactor determined by the Set_Prefactor / "
              "Multiply calls alone; Interpolate and Derivative(1..3) return exactly that prefactor times the prefactor-free segment value; the same "
              "for Interpolation_2D with its two helper objects. Sessions of several objects alive in one process and holding different tables (member calls, "
              "constructions, copy constructions / assignments between slots, swaps, destructions, in any order and number): after any session the object in any "
              "slot answers any call as a fresh object of the table and with the prefactor that the bookkeeping of constructions / copies / swaps / prefactor calls "
              "alone assigns to that slot — what happens to the source of a copy after the copy was taken, or to the copy, is invisible on the other (1-D and 2-D). Constructors (every overload: vectors / rows, grid / data table, with the unit arguments x_dim, y_dim, "
              "f_dim): a unit argument > 0 multiplies its table and nothing else, any other value (the default -1 included) leaves it alone, and the object starts "
              "with prefactor 1, jLast 0, correlated_calls false whatever the unit arguments are, so that on an object built with units the prefactor after a "
              "history is still the one of the Set_Prefactor / Multiply calls alone and every query answers as on a fresh object of the scaled table. "
              "From the constructor's checks to the premise `strictly increasing table` (C09_constructor_*): the 1-D constructor converts the units first and runs its strict-increase "
              "test on the converted abscissae, the table the searches run on (repair F45 of the former finding K-C09-2: before it the test ran on the abscissae as given and a rounding "
              "multiplication by x_dim could afterwards produce a repeated abscissa and a history-dependent Locate). C09_constructor_table_increasing (and _rows_ / _default_ for the other "
              "overloads): EVERY object a 1-D constructor call returns holds a strictly increasing table of at least two points, from the order laws alone, whatever the unit arguments are "
              "and whatever the multiplication does (valid for doubles, rounding included; a collapsing unit argument ends the process in the constructor); "
              "C09_constructed_history_free: hence for every constructed object (at most 2^30 points), with no premise on the table, after any history every operation answers as on a fresh "
              "object with the prefactor of the history, and no out-of-bounds read or exhausted loop occurs. These replace the former _partial / _real theorems at full strength. "
              "The former C09_constructed_history_free_refuted is false of the repaired model and is no property theorem any more; its abstract witness is kept in coq/C09_Proofs_Table.v as the "
              "lemma old_order_history_dependent about construct1_old_order (the constructor with the OLD order, explicitly not the model of the code), together with cx_exits: the repaired "
              "constructor exits on that input. Interpolation_2D scales its abscissae first and builds its helper objects from the scaled lists with the default unit arguments, so every object "
              "a 2-D constructor call returns (both overloads, any unit arguments) has strictly increasing axes (C09_constructor_2d_tables_increasing, _rows_) and "
              "C09_constructed_2d_history_free states the 2-D history theorem for constructed objects with no premise on the tables; since the helper constructors now pass through the unit "
              "conversion before their test, these three carry the premise that the default unit argument -1.0 is not > 0.0 (a fact of the literal, true for doubles, reals and integers: "
              "dflt_inactive_examples; the arithmetic of the abstract number type is uninterpreted). The reproducing case of the repaired finding is a regression case "
              "(corpus/C09/regressions.case: the constructor exits, model and implementation agree); the generator class unit-collapse keeps aiming at this region for 1-D and 2-D objects. "
              "Continuations (C09_continuation_history_free, _2d): not only one further query but every sequence of further calls is answered call by call as on a fresh object; "
              "C09_save_function_history_free is the instance for the Interpolate calls Save_Function makes, for every list of arguments. "
              "Save_Function (1-D and 2-D) is treated as an OUTPUT of the object: linear_space / save_ops / save_ops2 of the model are the member calls it makes "
              "(Interpolate at every point of Linear_Space over the domain, in order; 2-D: x outer, y inner, y_points = 0 standing for x_points). "
              "C09_save_function_file_history_free / C09_save_function_2d_file_history_free: the rows written after any history are those a fresh object with the prefactor of the "
              "history writes; C09_save_function_rows_scaled: row k written after ANY history holds exactly the prefactor of the history (Set_Prefactor / Multiply calls alone) times "
              "the prefactor-free value of THE segment of the k-th point, for every point inside the domain; C09_save_function_keeps_prefactor: writing a file leaves that prefactor in place. "
              "Interpolation_2D::Global_Minimum / Global_Maximum are operations of the 2-D model now (covered by the 2-D history, bounds and session theorems): C09_global_extrema_2d_spec "
              "proves that the row-wise min_element / max_element scans end on the least / greatest entry of the whole Nx x Ny table (induction over rows), C09_global_extrema_2d_scaled that, "
              "when the multiplication by the prefactor is monotone or antitone (IEEE and real multiplication are), the result is the least / greatest of the products prefactor * f[i][j] "
              "and one of them, for negative prefactors too. Not theorems: that the C++ code is the model (differential correspondence on every run: "
              "every Locate index on used and fresh objects, prefactors, exits, all 2-D values, the 2-D global extrema included) and the bit-identity of the C++ values themselves "
              "(S4: every value of a used object is compared bit for bit with a fresh object's — built by the same constructor overload with the same unit arguments — "
              "and with the prefactor of the history times the value of a new object: exactly for Interpolate / operator() / Derivative / Local_* / Global_* and "
              "the 2-D value, within the a-priori summation error for Integrate; a new object is anchored to the unit-scaled table at tabulated abscissae, by its "
              "global extrema and by the public member domain). The spline evaluation formulas were parameters of the "
              "model up to the sixth pass (now C09_Model2.v: see the end of this text). Save_Function is RUN by the check (ops F / f: any point count 0, 1, 2, .., fewer / as many / more points than knots, the default argument of the 2-D overload, "
              "between Set_Prefactor / Multiply calls, on copies and in sessions): the harness reads the file back and S4 compares every row AS TEXT (six significant digits, what the library "
              "writes) with the k-th point of Linear_Space over the domain and with the prefactor of the history times the value of a new object at that point, and with a fresh object's value; the model predicts "
              "the row count, the points and the values (the text formatting itself is not modelled: a deviation below the sixth digit of a file entry is invisible in the file). "
              "Integrate and the 2-D value made explicit (coq/C09_Proofs_Integ.v, unbounded over histories, from the order laws alone): C09_integrate_after_history — after ANY history "
              "Integrate(x_1, x_2) with both limits in the domain locates THE segments of the ordered limits and returns sign * (the summation loop's value for those segments, the ordered "
              "limits and the prefactor of the Set_Prefactor / Multiply calls alone), sign = -1 exactly when x_1 > x_2; C09_integrate_reversed_after_history — for a < b, Integrate(a, b) after "
              "any history and Integrate(b, a) after any history with the same prefactor calls (e.g. later on the same object) return 1 * v and (-1) * v for the SAME loop value v and the same "
              "located segments: no value obtained for one order of the limits is handed out for the other (whole-domain ranges included); C09_interpolate_2d_after_history — after any 2-D "
              "history Interpolate(x, y) is the prefactor of the history times the bilinear expression on THE cell of (x, y), never on a remembered cell. The loop value itself (the Steffen "
              "antiderivatives) is a parameter in these three theorems (written out in C09_Model2.v since the seventh pass) and the -1 * v = -(1 * v) step is IEEE arithmetic, not an order law: S4 checks it (Integrate in both orders against fresh objects). "
              "The generator asks, inside histories, one range repeatedly in both orders of its limits (whole domain with limits bit-equal to the domain ends, knot to knot, tolerated zone) and, for "
              "tables built with unit arguments, makes the FIRST query of a fresh object (or of a copy of a never-used object) bit-equal to an entry of the RAW constructor argument (class raw-argument). "
              "NaN arguments: Locate tests std::isnan first and exits; C09_nan_argument_exits proves Exit in every state, and the history theorems "
              "hold for NaN arguments as well (both objects exit). "
              "Seventh pass — the 1-D VALUE computations are inside the C09 model now (coq/C09_Model2.v, line by line after the bodies of Interpolate, Derivative, Integrate, "
              "Local_Minimum / Local_Maximum, Global_Minimum / Global_Maximum: seg_value, deriv_value, stem / integ_loop, ext_scan, glob_value over the tables x_values, function_values and the "
              "coefficient vectors a, b, c, d; step_full is the extracted term the correspondence run compares with the library, indices and values, bit for bit; how a, b, c, d are computed "
              "stays C01's subject, the driver takes them from C01_Model.build). New theorems, from the order laws alone (valid for doubles with rounding), unbounded over histories and loop lengths: "
              "C09_full_model_history_free (the history theorem for step_full); C09_values_no_out_of_bounds (for every index Locate can return no value computation reads outside a vector: "
              "the Integrate loop over any number of segments, the knot scan that reads x_values[i_2+1], the global scans); C09_local_minimum_scan / C09_local_maximum_scan (the knot loop returns "
              "the least / greatest of its candidates f_left, f_right, prefactor * function_values[k] over the tabulated abscissae i_1 <= k <= i_2+1 inside [x_1, x_2], and one of them); "
              "C09_local_extremum_after_history (for every choice of the value computations: after any history Local_* locates THE segments of x_1 and x_2, twice each, and scans from "
              "prefactor * S(x_1), prefactor * S(x_2) with the prefactor of the Set_Prefactor / Multiply calls alone); C09_full_interpolate_after_history (the value is that prefactor times "
              "a[j] dx^3 + b[j] dx^2 + c[j] dx + d[j] on THE segment, down to the table entries); C09_full_integrate_after_history; C09_full_local_minimum_after_history / _maximum_ (the result "
              "after any history is the least / greatest candidate, candidates written out); C09_full_global_extrema_after_history (min / max of prefactor * f_min, prefactor * f_max with f_min / f_max "
              "the least / greatest entry of function_values). Over the reals only: C09_integrate_linear_in_prefactor_real (the Integrate loop with prefactor p is p times the loop with prefactor 1; "
              "in doubles up to the rounding of the loop, which S4 bounds a priori). Still not theorems: that the prefactor scales Local_* / Global_* / Integrate EXACTLY in doubles (it does not: "
              "the candidates are products rounded one by one; S4 compares with a fresh object bit for bit and with prefactor * new-object value), the Steffen coefficient computation (C01), "
              "and the text formatting of Save_Function files. coverage/C09.md lists function by function what is modelled line by line and what by specification.")
LEVEL_NOTE = ("Coq 8.16.1 kernel; all C09 theorems are axiom-free (closed under the global context); premises carried by the theorems: OrdLaws (strict total "
              "order on non-NaN values; nisnan models std::isnan), table strictly increasing (checked by the constructor on the unit-converted abscissae; discharged for constructed objects by "
              "C09_constructor_table_increasing / C09_constructed_history_free since the repair F45 of K-C09-2), for the constructed 2-D objects the default unit argument -1.0 is not > 0.0, "
              "2 <= N <= 2^30 (no int overflow in the index arithmetic); C++ int/unsigned "
              "conversions are modelled as reduction mod 2^32; default copy constructor / assignment are modelled as duplication of (jLast, correlated_calls, prefactor) "
              "and, in sessions, of the table the object holds (no storage is shared between objects in the model; that the C++ objects share none is checked by the "
              "session cases of the correspondence and S4 stages, in the thorough tier also under AddressSanitizer)")
TOL = (1e-12, 1e-300)
MODEL_DEPS = ["C01_Model.v", "C08_Model.v", "C01_Model.vo", "C08_Model.vo"]
TRUSTED = ["the compiler-generated copy constructor, copy / move assignment, std::swap and destructor of Interpolation / Interpolation_2D are modelled as member-wise operations on objects that share no storage",
           "the Steffen coefficient vectors a, b, c, d are inputs of the C09 model (computed by C01_Model.build in the driver; Compute_Steffen_Coefficients is C01's subject); the value computations on them are C09_Model2.v and are compared with the library on every run",
           "std::min_element / std::max_element / std::min / std::max / std::sort / std::unique, Check_For_Error and the int / unsigned conversions are modelled by specification (coverage/C09.md)"]
ASSUMPTIONS = ["OrdLaws: the comparison of non-NaN doubles is a strict total order; NaN arguments are handled separately (nisnan: Locate exits)",
               "signed overflow in the index arithmetic is excluded by N <= 2^30 (tables of the property have 3..2000 points)"]


def regenerate():
    """coq/C09_Evals.v (the evaluation parameters instantiated with the C01/C08 spline) is needed by the extraction only, no
    theorem imports it; bring its .vo up to date with C01_Model / C08_Model before the driver is built."""
    import os, subprocess, vbuild
    coq = os.path.join(vbuild.VERIF, "coq")
    with vbuild.Lock("coq"):
        r = subprocess.run(["make", "-k", "-j8", "C09_Evals.vo"], cwd=coq, stdout=subprocess.PIPE, stderr=subprocess.STDOUT, text=True, timeout=1800)
    if r.returncode != 0: raise RuntimeError("coq/C09_Evals.v does not build against the current C01_Model.v / C08_Model.v:\n" + r.stdout[-2000:])
    return ""


# ---------------------------------------------------------------- reference semantics (independent of the model)
def zone(xs, x):
    """'in' (inside the domain), 'lo' / 'hi' (tolerated extrapolation), 'exit' (also for NaN: Locate tests std::isnan first)"""
    if math.isnan(x): return "exit"
    if x < xs[0] or x > xs[-1]:
        tl = 1e-2 * (xs[1] - xs[0]); tr = 1e-2 * (xs[-1] - xs[-2])
        if abs(x - xs[0]) < tl: return "lo"
        if abs(x - xs[-1]) < tr: return "hi"
        return "exit"
    return "in"


def ref_index(xs, x):
    """THE segment of x: xs[j] <= x < xs[j+1], N-2 at the upper end; 0 / N-2 in the tolerated zones; None = exit"""
    z = zone(xs, x)
    if z == "lo": return 0
    if z == "hi": return len(xs) - 2
    if z == "exit": return None
    return min(bisect.bisect_right(xs, x) - 1, len(xs) - 2)


def locates_of(op, args):
    """arguments of the Locate calls a 1-D operation makes, in order; None = the operation exits before any Locate"""
    if op in ("L", "I", "O", "d"): return [args[0]]
    if op == "D": return [args[0], args[0]] if args[1] == 0 else [args[0]]
    if op == "G": return [args[1], args[0]] if args[0] > args[1] else [args[0], args[1]]
    if op in ("m", "M"): return None if args[1] < args[0] else [args[0], args[1], args[0], args[1]]
    return []


def linspace(mn, mx, steps):
    """Linear_Space(min, max, steps) of Utilities.cpp, written out: the arguments of the Interpolate calls Save_Function makes"""
    if steps < 2 or mn == mx: return [mn]
    step = (mx - mn) / (steps - 1.0)
    return [mn + k * step for k in range(steps)]


def save_args(two, o, a, xs, ys):
    """the arguments of the Interpolate calls of F / f, in order (tuples)"""
    if not two: return [(x,) for x in linspace(xs[0], xs[-1], a[0])]
    ny = a[1] if (o == "F" and a[1] != 0) else a[0]
    py = linspace(ys[0], ys[-1], ny)
    return [(x, y) for x in linspace(xs[0], xs[-1], a[0]) for y in py]


def save_ok(xs, n):
    """no point of Linear_Space(domain, n) lies beyond the tolerated margin (the last one may exceed the upper end by rounding)"""
    return all(zone(xs, x) != "exit" for x in linspace(xs[0], xs[-1], n))


def nout_of(two, o, a):
    """number of output tokens of one operation (F / f: it depends on the arguments)"""
    if o in ("F", "f"):
        c = lambda n: n if n >= 2 else 1
        if not two: return 1 + 5 * c(a[0])
        return 1 + 7 * c(a[0]) * c(a[1] if (o == "F" and a[1] != 0) else a[0])
    return (NOUT2 if two else NOUT)[o]


ARITY = {"F": 1, "L": 1, "I": 1, "O": 1, "D": 2, "d": 1, "G": 2, "m": 2, "M": 2, "gm": 0, "gM": 0, "Q": 0, "P": 1, "U": 1, "C": 0, "A": 0, "R": 0}
NOUT = {"L": 2, "I": 3, "O": 3, "D": 3, "d": 3, "G": 3, "m": 4, "M": 4, "gm": 4, "gM": 4, "Q": 2, "P": 1, "U": 1, "C": 0, "A": 0, "R": 0}
ARITY2 = dict(ARITY); ARITY2["I"] = 2; ARITY2["O"] = 2; ARITY2["F"] = 2; ARITY2["f"] = 1
NOUT2 = dict(NOUT); NOUT2["Q"] = 4


def scaled(dim, l):
    """if(dim > 0.0) for(...) values[i] *= dim;   (one IEEE multiplication per entry, as in the constructor)"""
    return [v * dim for v in l] if dim > 0.0 else list(l)


LIFE = {"S": 1, "X": 1, "N": 2, "V": 2, "W": 2, "K": 2, "E": 2, "Z": 2}     # session operations: integer arguments, no output
for _o, _n in LIFE.items():
    ARITY[_o] = _n; NOUT[_o] = 0; ARITY2[_o] = _n; NOUT2[_o] = 0


class Parsed:
    """kind h1 / t1 / h2 / s1 / s2; tables = [(xs, ys, tab)] after the unit scaling (tab = None for 1-D); ops = [(op, args)]"""
    def __init__(self, kind, tables, ops):
        self.kind = kind; self.tables = tables; self.ops = ops
        self.two = kind in ("h2", "s2"); self.session = kind in ("s1", "s2")


def parse_case(line):
    t = line.split(); kind = t[0]; p = 1
    def fl():
        nonlocal p
        n = int(t[p]); v = [tokf(a) for a in t[p + 1:p + 1 + n]]; p += 1 + n; return v
    two = kind in ("h2", "s2")
    ntab = 1
    if kind in ("s1", "s2"): ntab = int(t[p]); p += 1
    tables = []
    for _ in range(ntab):
        ck = t[p]; p += 1; argc = int(ck[1]); dims = [-1.0] * (3 if two else 2)
        for k in range(argc): dims[k] = tokf(t[p]); p += 1
        xs = fl(); ys = fl(); tab = None
        xs = scaled(dims[0], xs)
        if two:
            tab = [tokf(a) for a in t[p:p + len(xs) * len(ys)]]; p += len(xs) * len(ys)
            ys = scaled(dims[1], ys); tab = scaled(dims[2], tab)
        else: ys = scaled(dims[1], ys)
        tables.append((xs, ys, tab))
    nops = int(t[p]); p += 1
    ar = ARITY2 if two else ARITY
    ops = []
    for _ in range(nops):
        o = t[p]; p += 1; a = []
        for k in range(ar[o]):
            a.append(int(t[p]) if ((o == "D" and k == 1) or o in LIFE or o in ("F", "f")) else tokf(t[p])); p += 1
        ops.append((o, a))
    return Parsed(kind, tables, ops)


class Cache:
    """the look-up cache as the source describes it; kinds: 'B' bisection, 'U' hunt up, 'D' hunt down, 'E' hunt at x == xs[jLast], 'X' extrapolation branch"""
    def __init__(self, xs): self.xs = xs; self.j = 0; self.corr = False
    def copy(self):
        c = Cache(self.xs); c.j = self.j; c.corr = self.corr; return c
    def locate(self, x, kinds):
        j = ref_index(self.xs, x)
        if j is None: return None
        if zone(self.xs, x) != "in": kinds.append("X")
        elif not self.corr: kinds.append("B")
        elif x > self.xs[self.j]: kinds.append("U")
        elif x < self.xs[self.j]: kinds.append("D")
        else: kinds.append("E")
        self.corr = (self.j <= j < self.j + 10)     # unsigned j - jLast < 10
        self.j = j
        return j


class Obj:
    """one object of the process: the number of the table it holds, the prefactor its calls should have left, its cache(s)"""
    def __init__(self, t, tables, two):
        self.t = t; self.pf = 1.0
        self.caches = [Cache(tables[t][0])] + ([Cache(tables[t][1])] if two else [])
    def copy(self):
        c = Obj.__new__(Obj); c.t = self.t; c.pf = self.pf; c.caches = [k.copy() for k in self.caches]; return c


class Machine:
    """the objects of a case as the property describes them: copies are independent objects that start with the members of their source"""
    def __init__(self, two, tables):
        self.two = two; self.tables = tables; self.slots = {0: Obj(0, tables, two)}; self.cur = 0; self.stack = []
    def obj(self): return self.slots[self.cur]
    def table(self): return self.tables[self.obj().t]
    def life(self, o, a):
        """applies C A R and the session operations; False = `o` is a member call"""
        sl = self.slots
        if o in ("C", "A"): self.stack.append(self.obj().copy())
        elif o == "R":
            if self.stack: sl[self.cur] = self.stack.pop()
        elif o == "S": self.cur = a[0]
        elif o == "X": del sl[a[0]]
        elif o in ("N", "V", "W"): sl[a[0]] = Obj(a[1], self.tables, self.two)
        elif o in ("K", "E"):
            if a[0] != a[1]: sl[a[1]] = sl[a[0]].copy()
        elif o == "Z": sl[a[0]], sl[a[1]] = sl[a[1]], sl[a[0]]
        else: return False
        return True
    def query(self, o, a, kinds):
        """the cache effects of a member call; False = the call ends the process"""
        ob = self.obj()
        if o == "P": ob.pf = a[0]; return True
        if o == "U": ob.pf *= a[0]; return True
        if o in ("F", "f"):                               # Save_Function: Interpolate at every point, in order
            xs, ys, _tab = self.table()
            for p in save_args(self.two, o, a, xs, ys):
                for c, x in zip(ob.caches, p):
                    if c.locate(x, kinds) is None: return False
            return True
        if self.two:
            if o in ("I", "O"):
                return ob.caches[0].locate(a[0], kinds) is not None and ob.caches[1].locate(a[1], kinds) is not None
            return True
        ls = locates_of(o, a)
        if ls is None: return False
        for x in ls:
            if ob.caches[0].locate(x, kinds) is None: return False
        return True


def ctor_exits(P, t):
    """the constructor of table t ends the process: 1-D and 2-D constructors (the latter through the helper objects x_int / y_int) test
    the order of the abscissae AFTER the unit conversion and reject a repeated abscissa"""
    xs, ys, tab = P.tables[t]
    return collapsed(xs) or (P.two and collapsed(ys))


def simulate(P, ctor=True):
    """returns (kinds, exits): the search kind of every Locate call of the history, and whether some call exits;
    ctor=False: as if the constructors accepted every table (used to examine an object that should not exist)"""
    kinds = []; m = Machine(P.two, P.tables)
    if ctor and ctor_exits(P, 0): return kinds, True
    for o, a in P.ops:
        if ctor and o in ("N", "V", "W") and ctor_exits(P, a[1]): return kinds, True
        if m.life(o, a): continue
        if not m.query(o, a, kinds): return kinds, True
    return kinds, False


def collapsed(xs):
    """a (unit-scaled) list of abscissae that is not strictly increasing any more"""
    return any(b <= a for a, b in zip(xs, xs[1:]))


def same_bits(a, b):
    return (math.isnan(a) and math.isnan(b)) or struct.pack("<d", a) == struct.pack("<d", b)


# ---------------------------------------------------------------- generator
def make_table(rng, n):
    style = rng.random()
    if style < 0.25:      # integers: every knot exactly representable, uniform grid
        x0 = float(rng.randint(-50, 50)); xs = [x0 + k for k in range(n)]
    elif style < 0.5:     # logarithmic grid over several decades
        lo = rng.uniform(-6, 2); hi = lo + rng.uniform(0.5, 8)
        xs = sorted(set(10 ** (lo + (hi - lo) * k / (n - 1)) for k in range(n)))
    else:                 # random increments over a wide range of sizes
        x = rng.uniform(-100, 100) * rng.choice([1e-3, 1.0, 1e3]); xs = []
        sc = 10 ** rng.uniform(-3, 2)
        for _ in range(n):
            xs.append(x); x = x + sc * rng.choice([1.0, rng.uniform(0.01, 1), rng.uniform(1, 30)])
        xs = sorted(set(xs))
    while len(xs) < 3: xs.append(xs[-1] + 1.0)
    a = rng.uniform(0.1, 3); ph = rng.uniform(0, 6)
    ys = [math.sin(a * k + ph) * (1 + 0.1 * k) + rng.choice([0.0, 0.0, rng.uniform(-1, 1)]) for k in range(len(xs))]
    return xs, ys


_SIGN = 0x8000000000000000


def ulp_step(x, m):
    """the double m representable steps above (m < 0: below) x, clamped to the finite range"""
    b = struct.unpack("<q", struct.pack("<d", x))[0]
    i = b if b >= 0 else -(b & 0x7fffffffffffffff)
    top = 0x7fefffffffffffff
    i = max(-top, min(top, i + m))
    return struct.unpack("<d", struct.pack("<Q", i if i >= 0 else ((-i) | _SIGN)))[0]


ULP_LADDER = [1, 1, 2, 3, 4, 7, 10, 30, 100, 300, 1000]
REL_LADDER = [1e-16, 3e-16, 1e-15, 1e-14, 1e-13, 1e-12, 1e-10, 1e-9, 1e-8, 1e-7, 1e-6]


def ladder_point(rng, xs, k):
    """an argument beside a knot of segment k, on either side, at a geometric ladder of distances: 1 .. 1000 representable
    steps, or 1e-16 .. 1e-6 of the knot's magnitude / of the adjacent interval"""
    e = xs[k] if rng.random() < 0.5 else xs[k + 1]
    s = rng.choice([-1, 1])
    r = rng.random()
    if r < 0.5: return ulp_step(e, s * rng.choice(ULP_LADDER))
    d = rng.choice(REL_LADDER)
    if r < 0.75: return e + s * d * (xs[k + 1] - xs[k])
    return e + s * d * abs(e)


def point_in(rng, xs, k):
    """an argument aimed at segment k: interior, at its knots, one ulp beside them, on the ladder of distances beside them"""
    n = len(xs); k = max(0, min(n - 2, k))
    r = rng.random()
    if r < 0.50: x = xs[k] + (xs[k + 1] - xs[k]) * rng.random()
    elif r < 0.62: x = xs[k]
    elif r < 0.70: x = xs[k + 1]
    elif r < 0.74: x = math.nextafter(xs[k], math.inf)
    elif r < 0.78: x = math.nextafter(xs[k + 1], -math.inf)
    elif r < 0.81: x = math.nextafter(xs[k], -math.inf)
    elif r < 0.84: x = math.nextafter(xs[k + 1], math.inf)
    else: x = ladder_point(rng, xs, k)
    if not math.isfinite(x) or zone(xs, x) == "exit": x = xs[k]      # one ulp beyond an end is tolerated unless the end interval is below an ulp's percent
    return x


def edge_point(rng, xs, allow_exit=False):
    """domain ends, the tolerated one-per-cent zone and (only when allowed) just beyond it"""
    lo = rng.random() < 0.5
    h = (xs[1] - xs[0]) if lo else (xs[-1] - xs[-2]); e = xs[0] if lo else xs[-1]; s = -1.0 if lo else 1.0
    t = rng.choice([0.0, rng.uniform(0, 0.0099), 0.005, 0.0099, 0.00999999, 0.01, 0.010001, rng.uniform(0.0101, 0.5), 3.0,
                    0.01 * (1 - rng.choice(REL_LADDER)), 0.01 * (1 + rng.choice(REL_LADDER)), rng.choice(REL_LADDER), 1e-300])
    x = e + s * t * h
    z = zone(xs, x)
    if z == "exit" and not allow_exit: x = e + s * 0.004 * h
    if zone(xs, x) == "exit" and not allow_exit: x = e
    return x


PF_SET = [2.0, -1.5, 0.5, 1e3, -1.0, 1.0, 2.0, 3.0, 0.25, -4.0, 1e-20, 1e20, 7.0, 0.1, -0.3, 1.0, 1.0, 1.5, 0.0, 1e-3]
PF_MUL = [2.0, -1.0, 0.5, 3.0, 1.0, 10.0, -0.1, 1e-6, 1e6, 4.0]


def prefactor_op(rng):
    if rng.random() < 0.5: return ("P", [rng.choice(PF_SET + [rng.uniform(-3, 3)] * 4)])
    return ("U", [rng.choice(PF_MUL + [rng.uniform(0.1, 2)] * 3)])


SAVE_COUNTS = [0, 1, 2, 2, 3, 3, 4, 5, 7, 10, 17, 33, 37, 64]


def save_count(rng, n):
    """the `points` argument of Save_Function: none / one / two points, fewer than, as many as and more than the table has knots"""
    return min(150, rng.choice(SAVE_COUNTS + [n, n, n + 1, max(2, n - 1), 2 * n - 1, 2 * n - 1, rng.randint(2, 60)]))


def raw_pool(xs, raw):
    """the values of the RAW constructor argument (before the unit scaling) that are legitimate arguments of the scaled table, its first and
    last entries first"""
    if not raw: return []
    out = []
    for v in [raw[0], raw[-1]] + list(raw[1:-1][:40]):
        if zone(xs, v) == "in" and v not in out: out.append(v)
    return out


def gen_history(rng, xs, nops, with_exit, extra_pu=0.0, index_only=False, save=0.02, raw=None):
    """xs: the table AFTER the unit scaling.  raw: the constructor argument BEFORE it (those of its entries that lie in the scaled domain are
    asked verbatim: as the very first query on the fresh object, and now and then later).  extra_pu: additional rate of Set_Prefactor / Multiply calls.
    index_only: only the calls whose answers do not involve the spline coefficients (Locate, Global_*, domain, prefactor calls, copies):
    for tables on scales where the Steffen coefficients leave the double range"""
    n = len(xs); ops = []; cur = rng.randrange(n - 1)
    pool = []                      # arguments issued so far: repeated verbatim later in the history
    rawp = raw_pool(xs, raw) if raw is not None and list(raw) != list(xs) else []
    def raw_value(): return rawp[0] if rng.random() < 0.5 else (rawp[min(1, len(rawp) - 1)] if rng.random() < 0.5 else rng.choice(rawp))
    def arg(k):
        x = raw_value() if rawp and rng.random() < 0.03 else point_in(rng, xs, k)
        if len(pool) < 64: pool.append(x)
        else: pool[rng.randrange(64)] = x
        return x
    if rawp and rng.random() < 0.7:
        # the first query on the fresh object (possibly after copies of the never-used object) is bit-equal to an entry of the raw argument
        if rng.random() < 0.25: ops.append((rng.choice(["C", "A"]), []))
        x = raw_value(); cur = ref_index(xs, x)
        ops.append((rng.choice(["I", "I", "L", "O"]) if not index_only else "L", [x]))
    while len(ops) < nops:
        if extra_pu and rng.random() < extra_pu: ops.append(prefactor_op(rng)); continue
        if not index_only and rng.random() < 0.04:
            # one range asked repeatedly, in both orders of its limits, with other calls in between: the whole domain (limits bit-equal to the
            # domain ends), knot to knot, an end to an interior point, the tolerated zone, any pair
            r = rng.random(); whole = n <= 300           # the model's spline evaluation is quadratic in the span
            if r < 0.45 and whole: a, b = xs[0], xs[-1]
            elif r < 0.60:
                k1 = rng.randrange(n); k2 = min(n - 1, max(0, k1 + rng.choice([1, 1, 2, 5, -1, -3, 40, -40]))); a, b = xs[k1], xs[k2]
            elif r < 0.75: k2 = rng.randrange(n - 1) if n <= 300 else rng.choice([rng.randint(0, 40), n - 2 - rng.randint(0, 40)]); a, b = (xs[0] if k2 < n // 2 or n <= 300 and rng.random() < 0.5 else xs[-1]), arg(k2)
            elif r < 0.85 and whole: a, b = edge_point(rng, xs), edge_point(rng, xs)
            else:
                k1 = cur; a, b = arg(k1), arg(min(n - 2, max(0, k1 + rng.randint(-6, 6))))
            if rng.random() < 0.5: a, b = b, a
            for i in range(rng.randint(2, 4)):
                ops.append(("G", [a, b]))
                rr = rng.random()
                if rr < 0.20: ops.append(prefactor_op(rng))
                elif rr < 0.40: ops.append((rng.choice(["I", "L", "d", "O"]), [arg(rng.randrange(n - 1))]))
                elif rr < 0.50: x2 = arg(rng.randrange(n - 1) if n <= 300 else cur); ops.append(("G", [a, x2] if rng.random() < 0.5 else [x2, b]))
                elif rr < 0.57: ops.append((rng.choice(["C", "A", "R"]), []))
                elif rr < 0.62: ops.append((rng.choice(["gm", "gM"]), []))
                if rng.random() < 0.7: a, b = b, a
            j = ref_index(xs, a if a > b else b); cur = j if j is not None else cur
            continue
        if save and not index_only and rng.random() < save:                               # Save_Function: the file is an output; it leaves the cache at the upper end
            k = save_count(rng, n)
            if save_ok(xs, k):
                ops.append(("F", [k])); cur = n - 2 if k >= 2 else 0
            continue
        if pool and rng.random() < 0.07:                                                    # identical arguments again: the last one, or earlier ones
            last = next((a[0] for o, a in reversed(ops) if o in ("L", "I", "O", "D", "d")), pool[-1])
            for x in ([last] * rng.randint(1, 3) if rng.random() < 0.5 else [rng.choice(pool) for _ in range(rng.randint(1, 3))]):
                j = ref_index(xs, x); cur = j if j is not None else cur
                if index_only or rng.random() < 0.6: ops.append(("L", [x]))
                else: ops.append((rng.choice(["I", "O", "d"]), [x]))
            continue
        if not index_only and rng.random() < 0.05:
            # chained ranges: each Integrate / Local_* range starts exactly where the previous one ended (at its upper end, its lower end or its second
            # argument), or repeats it verbatim / reversed, with Set_Prefactor / Multiply calls or point queries at the shared argument in between
            k = cur; x = arg(k)
            for _ in range(rng.randint(2, 4)):
                k2 = min(n - 2, max(0, k + rng.choice([0, 0, 1, 1, 2, 3, 6, -1, -2, -5])))
                x2 = arg(k2)
                o = rng.choice(["G", "G", "G", "G", "m", "M"])
                if o == "G": ops.append(("G", [x, x2] if rng.random() < 0.8 else [x2, x]))
                else: ops.append((o, [min(x, x2), max(x, x2)]))
                r = rng.random()
                if r < 0.5: ops.append(prefactor_op(rng))
                elif r < 0.65: ops.append((rng.choice(["I", "L", "d"]), [rng.choice([x, x2])]))
                elif r < 0.72: ops.append((rng.choice(["C", "A"]), []))
                r = rng.random()
                if r < 0.15: pass                                                         # the same range again
                elif r < 0.55: x, k = x2, k2
                elif r < 0.85: x, k = (x2, k2) if x2 >= x else (x, k)                      # from the upper end
                else: x, k = (x2, k2) if x2 <= x else (x, k)                               # from the lower end
            j = ref_index(xs, x); cur = j if j is not None else cur
            continue
        mode = rng.random()
        if mode < 0.22: targets = [rng.randrange(n - 1)]                                   # far jump
        elif mode < 0.50:                                                                   # short steps upwards / same segment
            targets = []; k = cur
            for _ in range(rng.randint(2, 12)):
                k = min(n - 2, k + rng.choice([0, 0, 1, 1, 2, 3, 5, 9, 10])); targets.append(k)
        elif mode < 0.70:                                                                   # up then down (the hunt downwards)
            k1 = min(n - 2, cur + rng.randint(0, 9)); targets = [k1, max(0, k1 - rng.choice([1, 1, 2, 3, 7, 20, n]))]
            if rng.random() < 0.5: targets = [cur] + targets
        elif mode < 0.82:                                                                   # correlated pair, then a long hunt
            k1 = min(n - 2, cur + rng.randint(0, 3)); targets = [k1, rng.choice([0, n - 2, rng.randrange(n - 1)])]
        elif mode < 0.90: targets = [None]                                                  # domain ends / tolerated zone
        elif mode < 0.94: ops.append(prefactor_op(rng)); continue
        elif mode < 0.98: ops.append((rng.choice(["C", "A", "C", "R"]), [])); continue
        else: ops.append((rng.choice(["gm", "gM", "gm", "gM", "Q"]), [])); continue
        for k in targets:
            x = edge_point(rng, xs) if k is None else arg(k)
            j = ref_index(xs, x); cur = j if j is not None else cur
            r = rng.random()
            if r < 0.60 or index_only: ops.append(("L", [x]))
            elif r < 0.75: ops.append((rng.choice(["I", "I", "I", "O"]), [x]))
            elif r < 0.85:
                if rng.random() < 0.2: ops.append(("d", [x]))
                else: ops.append(("D", [x, rng.choice([0, 1, 1, 2, 3, 4])]))
            else:
                # ranges over many segments only on moderate tables (the model's list-based spline evaluation is quadratic in the span)
                far = rng.randrange(n - 1) if n <= 300 else min(n - 2, max(0, cur + rng.randint(-40, 40)))
                k2 = rng.choice([cur, min(n - 2, cur + rng.randint(0, 4)), far])
                x2 = arg(k2) if rng.random() < 0.9 else edge_point(rng, xs)
                if r < 0.93: ops.append(("G", [x, x2]))
                else:
                    a, b = (x, x2) if x <= x2 else (x2, x)
                    ops.append((rng.choice(["m", "M"]), [a, b]))
                j2 = ref_index(xs, x2); cur = j2 if j2 is not None else cur
    ops = ops[:nops]
    if with_exit:
        r = rng.random()
        if r < 0.7:
            x = edge_point(rng, xs, allow_exit=True)
            while zone(xs, x) != "exit": x = edge_point(rng, xs, allow_exit=True)
            ops.append((rng.choice(["L", "I", "L", "O", "d"]) if not index_only else "L", [x]))
        elif index_only: ops.append(("L", [math.nan]))
        else:
            a = point_in(rng, xs, rng.randrange(n - 1)); b = point_in(rng, xs, rng.randrange(n - 1))
            if a == b: b = math.nextafter(a, math.inf)
            ops.append((rng.choice(["m", "M"]), [max(a, b), min(a, b)]))          # faulty order of arguments
    return ops


def op_text(o, a):
    if o == "D": return f"D {hx(a[0])} {a[1]}"
    if o in LIFE or o in ("F", "f"): return " ".join([o] + [str(k) for k in a])
    return " ".join([o] + [hx(v) for v in a])


# ---- constructors: overload, number of explicit unit arguments, unit arguments
# unit conversion factors of the kind the library's callers pass (natural units <-> cm, g, s, K, ...) and plain scales
UNITS_PHYS = [1.973269804e-14, 5.067730716e13, 1.782661921e-27, 5.609588604e23, 1.160451812e13, 8.617333262e-5,
              2.99792458e10, 6.582119569e-25, 1e-36, 1e3, 1e-9, 1e6, 3.893793721e-28]


def unit_arg(rng, wide):
    """one unit argument: inactive values (<= 0: the default -1.0, zeros, negatives), 1.0, exact and inexact factors over many decades"""
    r = rng.random()
    if r < 0.10: return -1.0
    if r < 0.18: return rng.choice([0.0, -0.0, -2.5, -1e-300, -1e300])
    if r < 0.26: return 1.0
    if r < 0.40: return rng.choice([2.0, 0.5, 1024.0, 2.0 ** -30, 3.0, 10.0, 0.1])
    if r < 0.65: return 10 ** rng.uniform(-3, 3)
    if r < 0.85: return rng.choice(UNITS_PHYS)
    return 10 ** rng.uniform(-wide, wide)


def grid_ok(xs):
    """the scaled abscissae are still a table of the property: finite, strictly increasing, end intervals whose one per cent is a normal number"""
    if not all(math.isfinite(v) for v in xs): return False
    if any(b <= a for a, b in zip(xs, xs[1:])): return False
    return 1e-2 * (xs[1] - xs[0]) > 1e-290 and 1e-2 * (xs[-1] - xs[-2]) > 1e-290 and max(abs(xs[0]), abs(xs[-1])) < 1e200


def values_ok(xs, ys):
    """keeps the Steffen coefficients and antiderivatives inside the double range (a ~ y/h^3, stem ~ y*x), so that values are numbers"""
    ym = max(abs(v) for v in ys)
    if not math.isfinite(ym) or ym > 1e150: return False
    hmin = min(b - a for a, b in zip(xs, xs[1:])); xm = max(abs(xs[0]), abs(xs[-1]))
    h3 = hmin * hmin * hmin
    if not (h3 > 1e-300 and math.isfinite(h3)): return False
    if max(b - a for a, b in zip(xs, xs[1:])) > 1e70: return False          # pow(x - x_j, 4.0) stays finite
    return ym / h3 < 1e250 and ym * xm < 1e250 and (ym == 0.0 or ym * hmin > 1e-250)


# ---- tables on extreme scales (the property quantifies over all strictly increasing tables of doubles)
def grid_ok_ext(xs):
    """finite, strictly increasing, far enough from the overflow threshold that differences and the one-per-cent margins are finite"""
    return len(xs) >= 3 and all(math.isfinite(v) for v in xs) and all(a < b for a, b in zip(xs, xs[1:])) and max(abs(xs[0]), abs(xs[-1])) < 1e300


def scale_exponent(rng):
    """decimal exponent of a scale on a ladder from moderate to the ends of the double range, both directions"""
    e = rng.choice([rng.uniform(20, 80), rng.uniform(80, 160), rng.uniform(160, 240), rng.uniform(240, 300), rng.uniform(300, 322)])
    return -e if rng.random() < 0.6 else min(e, 295.0)


def make_table_ext(rng, n):
    """returns (raw abscissae, x_dim or None, style): a table whose SCALED abscissae are tiny / huge (the scale either in the raw table
    or in the unit argument), lie at |x| >> spacing (neighbouring doubles), or are subnormal numbers"""
    for _ in range(20):
        xs0, _ys = make_table(rng, n)
        r = rng.random()
        if r < 0.62:
            sc = 10.0 ** scale_exponent(rng)
            if rng.random() < 0.5: xs = [v * sc for v in xs0]; cand = (xs, None, "scale-raw")
            else: xs = scaled(sc, xs0); cand = (xs0, sc, "scale-unit")
        elif r < 0.84:      # knots a few representable steps apart at a large offset
            x0 = rng.choice([-1.0, 1.0]) * rng.choice([1.0, 2.0 ** rng.randint(-40, 60), 10.0 ** rng.uniform(-5, 18), 10.0 ** scale_exponent(rng)])
            if not math.isfinite(x0) or x0 == 0.0 or abs(x0) > 1e290: continue
            xs = [x0]
            for _k in range(n - 1): xs.append(ulp_step(xs[-1], rng.choice([1, 1, 1, 2, 3, 5, 16, 1000])))
            cand = (xs, None, "neighbours")
        else:               # subnormal abscissae (multiples of 2^-1074), possibly on both sides of zero
            k = rng.choice([0, -rng.randint(0, 2 * n), -rng.randint(0, 10 ** 6), rng.randint(1, 10 ** 9)]); xs = []
            for _k in range(n):
                xs.append(k * 5e-324); k += rng.choice([1, 1, 1, 2, 3, 10, 100, 10 ** 4, 10 ** 7])
            cand = (xs, None, "subnormal")
        if len(xs) == n and grid_ok_ext(xs) and len(set(xs)) == len(xs): return cand
    return ([float(k) * 1e-200 for k in range(n)], None, "scale-raw")


def ext_values(rng, xs):
    """function values for a table on an extreme scale: of order one, of the order of the spacing, or on their own extreme scale"""
    n = len(xs); a = rng.uniform(0.1, 3); ph = rng.uniform(0, 6)
    ys = [math.sin(a * k + ph) * (1 + 0.1 * k) + rng.choice([0.0, 0.0, rng.uniform(-1, 1)]) for k in range(n)]
    r = rng.random()
    if r < 0.4: return ys
    sc = (xs[-1] - xs[0]) / n if r < 0.7 else 10.0 ** rng.uniform(-300, 140)
    ys2 = [v * sc for v in ys]
    return ys2 if all(math.isfinite(v) for v in ys2) and max(abs(v) for v in ys2) < 1e150 else ys


def case_1d_ext(rng, n, nops, with_exit=False, tags=()):
    xs0, xdim, style = make_table_ext(rng, n)
    xs = scaled(xdim, xs0) if xdim is not None else xs0
    ys0 = ext_values(rng, xs)
    kind = rng.choice(["v", "v", "r"])
    if xdim is None:
        if rng.random() < 0.7: ctor, dims = f"{kind}0", [-1.0, -1.0]
        else:
            fd = rng.choice([-1.0, 1.0, 0.0, 2.0, 1e-3])
            ctor, dims = f"{kind}2 {hx(rng.choice([-1.0, 1.0, 0.0, -3.0]))} {hx(fd)}", [-1.0, fd]
    elif rng.random() < 0.5: ctor, dims = f"{kind}1 {hx(xdim)}", [xdim, -1.0]
    else:
        fd = rng.choice([-1.0, 1.0, 2.0, 1e-3, xdim if abs(math.log10(xdim)) < 140 else 1.0])
        ctor, dims = f"{kind}2 {hx(xdim)} {hx(fd)}", [xdim, fd]
    ys = scaled(dims[1], ys0)
    full = grid_ok(xs) and values_ok(xs, ys)          # the spline coefficients and antiderivatives are numbers: every kind of query
    ops = gen_history(rng, xs, nops, with_exit, extra_pu=0.05, index_only=not full)
    line = f"h1 {ctor} {flist(xs0)} {flist(ys0)} {len(ops)} " + " ".join(op_text(o, a) for o, a in ops)
    tg = ("1d", "extreme-scale", style) + (("values",) if full else ("index-only",)) + tuple(tags) + (("exit-last",) if with_exit else ())
    return Case(line, tg)


def case_2d_ext(rng, nx, ny, nops, with_exit=False):
    """Interpolation_2D with one or both axes on an extreme scale (the bilinear value only involves ratios of differences)"""
    which = rng.choice(["x", "y", "xy", "xy"])
    def axis(n, ext):
        if ext: return make_table_ext(rng, n)
        return (make_table(rng, n)[0], None, "plain")
    xs0, xdim, sx = axis(nx, "x" in which); ys0, ydim, sy = axis(ny, "y" in which)
    xs = scaled(xdim, xs0) if xdim is not None else xs0; ys = scaled(ydim, ys0) if ydim is not None else ys0
    fs = rng.choice([1.0, 1.0, 1.0, 10.0 ** rng.uniform(-300, 140)])
    tab = [(math.sin(0.3 * i) * math.cos(0.2 * j) + 0.01 * i * j + rng.uniform(-0.1, 0.1)) * fs for i in range(len(xs0)) for j in range(len(ys0))]
    kind = rng.choice(["g", "g", "t"]) if len(xs0) * len(ys0) <= 900 else "g"
    fd = rng.choice([-1.0, -1.0, 1.0, 0.0, 2.0, 1e-3])
    if xdim is None and ydim is None and rng.random() < 0.7: ctor, dims = f"{kind}0", [-1.0, -1.0, -1.0]
    else:
        dx = xdim if xdim is not None else rng.choice([-1.0, 1.0, 0.0]); dy = ydim if ydim is not None else rng.choice([-1.0, 1.0, -0.0])
        if ydim is None and rng.random() < 0.3: ctor, dims = f"{kind}1 {hx(dx)}", [dx, -1.0, -1.0]
        elif rng.random() < 0.5: ctor, dims = f"{kind}2 {hx(dx)} {hx(dy)}", [dx, dy, -1.0]
        else: ctor, dims = f"{kind}3 {hx(dx)} {hx(dy)} {hx(fd)}", [dx, dy, fd]
    assert scaled(dims[0], xs0) == xs and scaled(dims[1], ys0) == ys
    hx_ = gen_history(rng, xs, nops, False, index_only=True); hy_ = gen_history(rng, ys, nops, False, index_only=True)
    ax = [a[0] for o, a in hx_ if o == "L"]; ay = [a[0] for o, a in hy_ if o == "L"]
    ops = []
    for k in range(min(len(ax), len(ay))):
        r = rng.random()
        if r < 0.03: ops.append(prefactor_op(rng))
        elif r < 0.07: ops.append((rng.choice(["C", "A", "R"]), []))
        elif r < 0.09: ops.append((rng.choice(["gm", "gM", "Q"]), []))
        ops.append((rng.choice(["I", "I", "I", "O"]), [ax[k], ay[k]]))
    if with_exit:
        x = edge_point(rng, xs, allow_exit=True)
        while zone(xs, x) != "exit": x = edge_point(rng, xs, allow_exit=True)
        ops.append(("I", [x, ys[0]]))
    line = f"h2 {ctor} {flist(xs0)} {flist(ys0)} " + " ".join(hx(v) for v in tab) + f" {len(ops)} " + " ".join(op_text(o, a) for o, a in ops)
    return Case(line, ("2d", "extreme-scale", "x:" + sx, "y:" + sy) + (("exit-last",) if with_exit else ()))


# ---- unit arguments that collapse neighbouring abscissae (the region of the repaired finding K-C09-2 / F45)
def collapse_table(rng, n):
    """(raw abscissae, x_dim, k): the raw list is strictly increasing and holds xs[k] and its next one or two doubles; the rounding
    multiplication by x_dim > 0 maps at least two of them to the same double (and collapses nothing else); None if no such pair is found"""
    for _ in range(300):
        xs0, _ys = make_table(rng, n)
        if len(xs0) < 4: continue
        k = rng.randrange(1, len(xs0) - 2)
        a = xs0[k]
        if a == 0.0: continue
        m = rng.choice([1, 1, 2])
        cl = [a]
        for _i in range(m): cl.append(math.nextafter(cl[-1], math.inf))
        if cl[-1] >= xs0[k + 1]: continue
        raw = xs0[:k] + cl + xs0[k + 1:]
        d = rng.choice([0.6, 0.3, 0.7, 1.0 / 3.0, 0.1, 10 ** rng.uniform(-3, 3), 10 ** rng.uniform(-3, 3), rng.choice(UNITS_PHYS)])
        sc = scaled(d, raw)
        if not all(math.isfinite(v) for v in sc) or max(abs(v) for v in sc) > 1e200 or min(abs(v) for v in sc if v != 0.0) < 1e-200: continue
        bad = [i for i, (u, v) in enumerate(zip(sc, sc[1:])) if v <= u]
        if not bad or any(i < k or i >= k + m for i in bad): continue
        return raw, d, k
    return None


def case_1d_collapse(rng, n, nops):
    """the 1-D constructor must end the process: the unit argument collapses neighbouring abscissae.  The index-only history behind it
    (it ends with two calls in the segment left of the repeated abscissa — the second one makes the look-up hunt — and a call AT the
    repeated abscissa) is what exposes the history dependence of an object that comes back all the same"""
    t = collapse_table(rng, n)
    if t is None: return None
    raw, d, k = t
    sc = scaled(d, raw)
    ys = rand_values(rng, len(raw))
    ops = [(o, a) for o, a in gen_history(rng, sc, nops, False, extra_pu=0.05, index_only=True)]
    i = next(i for i, (u, v) in enumerate(zip(sc, sc[1:])) if v <= u)       # sc[i] == sc[i+1]
    x1 = sc[i - 1] + (sc[i] - sc[i - 1]) * rng.choice([0.0, 0.5, rng.random()])
    ops += [("L", [x1]), ("L", [x1]), ("L", [sc[i]])]
    kind = rng.choice(["v", "v", "r"])
    line = f"h1 {kind}1 {hx(d)} {flist(raw)} {flist(ys)} {len(ops)} " + " ".join(op_text(o, a) for o, a in ops)
    return Case(line, ("1d", "unit-collapse", "exit-in-constructor", "index-only"))


def case_2d_collapse(rng, n, ny):
    """the same raw abscissae and unit argument on an axis of Interpolation_2D: its constructor scales first and must end the process"""
    t = collapse_table(rng, n)
    if t is None: return None
    raw, d, k = t
    other, _ = make_table(rng, ny)
    on_x = rng.random() < 0.5
    xs0, ys0 = (raw, other) if on_x else (other, raw)
    tab = [math.sin(0.3 * i) * math.cos(0.2 * j) + 0.01 * i * j for i in range(len(xs0)) for j in range(len(ys0))]
    kind = rng.choice(["g", "g", "t"])
    ctor = f"{kind}1 {hx(d)}" if on_x else f"{kind}2 {hx(-1.0)} {hx(d)}"
    ops = [("I", [scaled(d, xs0)[0] if on_x else xs0[0], ys0[0] if on_x else scaled(d, ys0)[0]])]
    line = f"h2 {ctor} {flist(xs0)} {flist(ys0)} " + " ".join(hx(v) for v in tab) + f" {len(ops)} " + " ".join(op_text(o, a) for o, a in ops)
    return Case(line, ("2d", "unit-collapse", "exit-in-constructor"))


def aimed_unit(rng, raw):
    """a unit argument != 1 under which entries of the raw argument are again legitimate arguments of the scaled table (the scaled domain
    overlaps the raw one): the ratio of two entries (a raw entry then coincides with a scaled knot, up to rounding), or a moderate factor"""
    r = rng.random()
    if r < 0.5:
        for _ in range(4):
            a, b = rng.choice(raw), rng.choice(raw)
            if a != b and a != 0.0 and b != 0.0 and a / b > 0 and math.isfinite(a / b): return a / b * rng.choice([1.0, 1.0, rng.uniform(0.7, 1.4)])
    if r < 0.8: return rng.choice([0.3, 0.5, 2.0, 3.0, 0.1, 0.75, 1.25, 10.0])
    return rng.uniform(0.05, 1.0) if rng.random() < 0.5 else rng.uniform(1.0, 20.0)


def pick_ctor(rng, kinds, ndims, ok, units=None, aim=None):
    """returns (ctor text, dims): overload from `kinds`, argc explicit unit arguments; ok(dims) validates the scaled tables.
    units: None = mostly the plain call; 'all' = every unit argument given; 'aimed' = as 'all'/'some', with the unit arguments of the axes
    in `aim` (list of raw arguments or None per dimension) chosen by aimed_unit"""
    for attempt in range(8):
        kind = rng.choice(kinds)
        if units == "all": argc = ndims
        elif units == "some": argc = rng.randint(1, ndims)
        elif units == "aimed": argc = rng.randint(max(1, max(i + 1 for i, a in enumerate(aim) if a is not None) - (1 if rng.random() < 0.2 else 0)), ndims)
        else: argc = rng.choice([0] * 5 + list(range(1, ndims + 1)))
        wide = 60 if attempt < 3 else 6
        given = [aimed_unit(rng, aim[i]) if units == "aimed" and aim[i] is not None and rng.random() < 0.9 else unit_arg(rng, wide) for i in range(argc)]
        dims = given + [-1.0] * (ndims - argc)
        if ok(dims): return f"{kind}{argc}" + "".join(" " + hx(v) for v in given), dims
    return f"{kinds[0]}0", [-1.0] * ndims


def case_1d(rng, n, nops, with_exit=False, tags=(), units=None, extra_pu=0.0, save=0.02):
    xs0, ys0 = make_table(rng, n)
    ctor, dims = pick_ctor(rng, ["v", "v", "r"], 2, lambda d: grid_ok(scaled(d[0], xs0)) and values_ok(scaled(d[0], xs0), scaled(d[1], ys0)), units, aim=[xs0, None])
    xs = scaled(dims[0], xs0)
    ops = gen_history(rng, xs, nops, with_exit, extra_pu, save=save, raw=xs0)
    line = f"h1 {ctor} {flist(xs0)} {flist(ys0)} {len(ops)} " + " ".join(op_text(o, a) for o, a in ops)
    tg = ("1d",) + tuple(tags) + (("exit-last",) if with_exit else ())
    if dims[0] > 0 or dims[1] > 0: tg += ("units",)
    return Case(line, tg)


def save_op_2d(rng, xs, ys):
    """F nx ny / f nx for Interpolation_2D (at most 200 rows), or None when a point of a grid would leave the tolerated margin"""
    for _ in range(4):
        kx = min(40, save_count(rng, len(xs)))
        if rng.random() < 0.35: o, a, ky = "f", [kx], kx
        else:
            ky = min(40, rng.choice([0, 0, save_count(rng, len(ys))])); o, a = "F", [kx, ky]
            if ky == 0: ky = kx
        if max(kx, 1) * max(ky, 1) <= 200 and save_ok(xs, kx) and save_ok(ys, ky): return (o, a)
    return None


def case_2d(rng, nx, ny, nops, with_exit=False, units=None, extra_pu=0.04, save=0.02):
    xs0, _ = make_table(rng, nx); ys0, _ = make_table(rng, ny)
    tab = [math.sin(0.3 * i) * math.cos(0.2 * j) + 0.01 * i * j + rng.uniform(-0.1, 0.1) for i in range(len(xs0)) for j in range(len(ys0))]
    kinds = ["g", "g", "t"] if len(xs0) * len(ys0) <= 900 else ["g"]       # the model sorts the rows of the data table by insertion
    def ok(d):
        fm = max(abs(v) for v in scaled(d[2], tab))
        return grid_ok(scaled(d[0], xs0)) and grid_ok(scaled(d[1], ys0)) and math.isfinite(fm) and fm < 1e150
    ctor, dims = pick_ctor(rng, kinds, 3, ok, units, aim=[xs0, ys0, None])
    xs = scaled(dims[0], xs0); ys = scaled(dims[1], ys0)
    hx_ = gen_history(rng, xs, nops, False, raw=xs0); hy_ = gen_history(rng, ys, nops, False, raw=ys0)
    ax = [a[0] for o, a in hx_ if o in ("L", "I", "O", "D", "d", "G", "m", "M")]; ay = [a[0] for o, a in hy_ if o in ("L", "I", "O", "D", "d", "G", "m", "M")]
    ops = []
    for k in range(min(len(ax), len(ay))):
        r = rng.random()
        if r < extra_pu + 0.01: ops.append(prefactor_op(rng))
        elif r < extra_pu + 0.05: ops.append((rng.choice(["C", "A", "R"]), []))
        elif r < extra_pu + 0.07:
            g = rng.choice(["gm", "gM", "gm", "gM", "Q"])
            # the model scans the whole table as lists (several seconds on 400 000 entries): a few Global_* calls per history on the largest tables
            sz = len(xs) * len(ys)
            if g == "Q" or sz <= 20000 or sum(1 for o, _a in ops if o in ("gm", "gM")) < (4 if sz <= 100000 else 1): ops.append((g, []))
        elif r < extra_pu + 0.07 + save and len(xs) * len(ys) <= 6000:
            sv = save_op_2d(rng, xs, ys)
            if sv is not None: ops.append(sv)
        ops.append((rng.choice(["I", "I", "I", "O"]), [ax[k], ay[k]]))
    if with_exit:
        x = edge_point(rng, xs, allow_exit=True)
        while zone(xs, x) != "exit": x = edge_point(rng, xs, allow_exit=True)
        ops.append(("I", [x, ys[0]] if rng.random() < 0.5 else [xs[0], ys[-1] + 3 * (ys[-1] - ys[-2])]))
    line = f"h2 {ctor} {flist(xs0)} {flist(ys0)} " + " ".join(hx(v) for v in tab) + f" {len(ops)} " + " ".join(op_text(o, a) for o, a in ops)
    tg = ("2d",) + (("exit-last",) if with_exit else ())
    if any(d > 0 for d in dims): tg += ("units",)
    if units == "aimed": tg += ("raw-argument",)
    return Case(line, tg)


# ---- sessions: several objects / tables in one process
def related_abscissae(rng, xs0):
    """abscissae of a further table whose domain overlaps that of xs0 (an argument can then be legitimate for both, while the segment
    numbers differ): the same grid, another grid on the same range, a coarsened / refined grid, a shifted / stretched one, an unrelated one"""
    n0 = len(xs0); lo, hi = xs0[0], xs0[-1]; r = rng.random()
    if r < 0.12: xs = list(xs0)
    elif r < 0.45:
        n1 = rng.choice([n0, n0, max(3, n0 - 1), n0 + 1, rng.randint(3, 2 * n0 + 2)])
        e0 = lo + (hi - lo) * rng.choice([0.0, 0.0, rng.uniform(-0.3, 0.3)]); e1 = hi + (hi - lo) * rng.choice([0.0, 0.0, rng.uniform(-0.3, 0.3)])
        xs = sorted(set([e0, e1] + [e0 + (e1 - e0) * rng.random() for _ in range(n1 - 2)]))
    elif r < 0.58: xs = [xs0[0]] + [v for v in xs0[1:-1] if rng.random() < 0.5] + [xs0[-1]]
    elif r < 0.72:
        xs = []
        for u, v in zip(xs0, xs0[1:]):
            xs.append(u)
            if rng.random() < 0.4: xs.append(u + (v - u) * rng.uniform(0.2, 0.8))
        xs.append(xs0[-1]); xs = sorted(set(xs))
    elif r < 0.90:
        sc = rng.choice([1.0, 0.5, 2.0, rng.uniform(0.5, 2.0)]); d = (hi - lo) * rng.choice([0.0, rng.uniform(-0.5, 0.5), 1.0 / max(2, n0 - 1)])
        xs = sorted(set(lo + d + sc * (v - lo) for v in xs0))
    else: xs = make_table(rng, rng.choice([3, 5, n0, 2 * n0]))[0]
    while len(xs) < 3: xs.append(xs[-1] + (hi - lo) * rng.uniform(0.05, 0.5))
    return xs


def rand_values(rng, n):
    a = rng.uniform(0.1, 3); ph = rng.uniform(0, 6)
    return [math.sin(a * k + ph) * (1 + 0.1 * k) + rng.choice([0.0, 0.0, rng.uniform(-1, 1)]) for k in range(n)]


def aimed_argument(rng, m, axis=0):
    """an argument for the current object aimed at cross-talk between objects: inside the segment that the cached index of some live
    object (the current one included) denotes in ANOTHER table, or beside one of that segment's ends; None if no such point is legitimate"""
    xs = m.table()[axis]; cand = []
    for ob in m.slots.values():
        j = ob.caches[axis].j
        for t, tb in enumerate(m.tables):
            ys = tb[axis]
            if ys is xs or j > len(ys) - 2: continue
            lo, hi = max(ys[j], xs[0]), min(ys[j + 1], xs[-1])
            if lo < hi and ref_index(xs, 0.5 * (lo + hi)) != j: cand.append((lo, hi))
    if not cand: return None
    lo, hi = rng.choice(cand); r = rng.random()
    if r < 0.6: x = lo + (hi - lo) * rng.uniform(0.02, 0.98)
    elif r < 0.8: x = 0.5 * (lo + hi)
    else: x = math.nextafter(lo, math.inf) if rng.random() < 0.5 else math.nextafter(hi, -math.inf)
    return x if zone(xs, x) == "in" else None


def random_life(rng, m, ntab, nslots=4):
    """one valid session operation for the state m"""
    live = sorted(m.slots); others = [k for k in live if k != m.cur]
    for _ in range(20):
        o = rng.choice(["S", "S", "K", "K", "E", "E", "N", "V", "W", "W", "Z", "X"])
        if o == "S" and others: return (o, [rng.choice(others)])
        if o == "X" and others: return (o, [rng.choice(others)])
        if o == "Z" and others: return (o, [m.cur, rng.choice(others)] if rng.random() < 0.7 else [rng.choice(others), m.cur])
        if o == "K":
            a = rng.choice(live); b = rng.choice([k for k in range(nslots) if k != a]); return (o, [a, b])
        if o == "E": return (o, [rng.choice(live), rng.randrange(nslots)])
        if o == "N": return (o, [rng.randrange(nslots), rng.randrange(ntab)])
        if o in ("V", "W"): return (o, [rng.choice(live + [rng.randrange(nslots)]), rng.randrange(ntab)])
    return ("E", [m.cur, m.cur])


def gen_session(rng, tables, nblocks, two, burst):
    """tables: as in Parsed.  burst(m, n, aimed) -> list of member calls on the current object of m (it does not apply them).
    Blocks: an aliasing scenario (a copy is taken; then ONE of the two is changed behind the other's back — queried elsewhere, rescaled,
    assigned another table in place, rebuilt, swapped, destroyed — and the other one is asked, first at an aimed argument), or a few random
    operations followed by calls."""
    ntab = len(tables); m = Machine(two, tables); ops = []; nslots = 4
    def emit(o, a):
        ops.append((o, a))
        if not m.life(o, a): m.query(o, a, [])
    def calls(n, aimed=False):
        for o, a in burst(m, n, aimed): emit(o, a)
    calls(rng.randint(1, 6))
    for _ in range(nblocks):
        if rng.random() < 0.6:
            src = m.cur; dst = rng.choice([k for k in range(nslots) if k != src])
            calls(rng.randint(0, 4))
            emit(rng.choice(["K", "E"]), [src, dst])
            a, b = (src, dst) if rng.random() < 0.6 else (dst, src)        # a is changed, b is asked afterwards
            if m.cur != a: emit("S", [a])
            for _k in range(rng.randint(1, 2)):
                r = rng.random(); t2 = rng.randrange(ntab)
                others = [k for k in m.slots if k not in (a, b)]
                if r < 0.30: emit("W", [a, t2])
                elif r < 0.42: emit("V", [a, t2])
                elif r < 0.52: emit("N", [a, t2])
                elif r < 0.64:
                    if not others: emit("N", [[k for k in range(nslots) if k not in (a, b)][0], t2]); others = [k for k in m.slots if k not in (a, b)]
                    emit("E", [rng.choice(others), a])
                elif r < 0.72 and others: emit("Z", [a, rng.choice(others)])
                elif r < 0.84: calls(rng.randint(1, 5)); emit(*prefactor_op(rng))
                else:
                    emit("S", [b]); emit("X", [a])
                    if rng.random() < 0.7: emit("N", [rng.choice([a, a, [k for k in range(nslots) if k not in m.slots][0]]), t2])   # a new object may take over the freed storage
                    break
            if m.cur != b: emit("S", [b])
            calls(rng.randint(1, 6), aimed=True)
        else:
            for _k in range(rng.randint(1, 3)): emit(*random_life(rng, m, ntab, nslots))
            calls(rng.randint(1, 8), aimed=rng.random() < 0.5)
    return ops


def _member_calls(rng, xs, n, index_only=False):
    return [(o, a) for o, a in gen_history(rng, xs, n + 2, False, extra_pu=0.05, index_only=index_only) if o not in ("C", "A", "R")][:n]


def case_session_1d(rng, n, nblocks, ntab=None):
    xs0, ys0 = make_table(rng, n)
    tables = [(xs0, ys0, None)]
    for _ in range((ntab or rng.choice([2, 2, 3])) - 1):
        for _try in range(6):
            xs = related_abscissae(rng, xs0); ys = rand_values(rng, len(xs))
            if grid_ok(xs) and values_ok(xs, ys): break
        else: xs, ys = list(xs0), rand_values(rng, len(xs0))
        tables.append((xs, ys, None))
    def burst(m, k, aimed):
        xs = m.table()[0]; out = []
        if aimed:
            x = aimed_argument(rng, m)
            if x is not None:
                r = rng.random()
                if r < 0.5: out.append(("L", [x]))
                elif r < 0.75: out.append((rng.choice(["I", "O", "d"]), [x]))
                elif r < 0.9: out.append(("D", [x, rng.choice([0, 1, 2, 3])]))
                else: out.append(("G", [x, point_in(rng, xs, ref_index(xs, x))]))
        return out + _member_calls(rng, xs, max(0, k - len(out)))
    ops = gen_session(rng, tables, nblocks, False, burst)
    kinds = [rng.choice(["v", "v", "r"]) for _ in tables]
    line = f"s1 {len(tables)} " + " ".join(f"{kd}0 {flist(xs)} {flist(ys)}" for kd, (xs, ys, _t) in zip(kinds, tables)) + f" {len(ops)} " + " ".join(op_text(o, a) for o, a in ops)
    return Case(line, ("1d", "session"))


def case_session_2d(rng, nx, ny, nblocks):
    xs0, _ = make_table(rng, nx); ys0, _ = make_table(rng, ny)
    def values(xs, ys): return [math.sin(0.3 * i + rng.uniform(0, 1)) * math.cos(0.2 * j) + 0.01 * i * j + rng.uniform(-0.1, 0.1) for i in range(len(xs)) for j in range(len(ys))]
    tables = [(xs0, ys0, values(xs0, ys0))]
    for _ in range(rng.choice([1, 1, 2])):
        for _try in range(6):
            xs = related_abscissae(rng, xs0) if rng.random() < 0.8 else list(xs0)
            ys = related_abscissae(rng, ys0) if rng.random() < 0.8 else list(ys0)
            if grid_ok(xs) and grid_ok(ys) and len(xs) * len(ys) <= 900: break
        else: xs, ys = list(xs0), list(ys0)
        tables.append((xs, ys, values(xs, ys)))
    def burst(m, k, aimed):
        xs, ys, _t = m.table(); out = []
        ax = [a[0] for o, a in _member_calls(rng, xs, k + 2, index_only=True) if o == "L"]; ay = [a[0] for o, a in _member_calls(rng, ys, k + 2, index_only=True) if o == "L"]
        if aimed:
            x = aimed_argument(rng, m, 0); y = aimed_argument(rng, m, 1)
            if x is not None or y is not None:
                x = x if x is not None and rng.random() < 0.8 else point_in(rng, xs, rng.randrange(len(xs) - 1))
                y = y if y is not None and rng.random() < 0.8 else point_in(rng, ys, rng.randrange(len(ys) - 1))
                out.append((rng.choice(["I", "O"]), [x, y]))
        for x, y in zip(ax, ay):
            r = rng.random()
            if r < 0.05: out.append(prefactor_op(rng))
            elif r < 0.08: out.append((rng.choice(["gm", "gM", "Q"]), []))
            elif r < 0.10:
                sv = save_op_2d(rng, xs, ys)
                if sv is not None: out.append(sv)
            out.append((rng.choice(["I", "I", "I", "O"]), [x, y]))
        return out[:max(k, 1)]
    ops = gen_session(rng, tables, nblocks, True, burst)
    kinds = [rng.choice(["g", "g", "t"]) for _ in tables]
    line = f"s2 {len(tables)} " + " ".join(f"{kd}0 {flist(xs)} {flist(ys)} " + " ".join(hx(v) for v in tab) for kd, (xs, ys, tab) in zip(kinds, tables)) \
           + f" {len(ops)} " + " ".join(op_text(o, a) for o, a in ops)
    return Case(line, ("2d", "session"))


def generate(rng, tier):
    big = tier != "quick"
    cs = []
    # a fixed regression: the history that returned the left segment at a knot before the canonicalisation fix
    xs = [float(i) for i in range(30)]; ys = [i * math.sin(0.7 * i) for i in range(30)]
    ops = [("L", [10.2]), ("L", [10.5]), ("L", [11.1]), ("L", [11.6]), ("L", [12.0]), ("D", [12.0, 2]), ("D", [12.0, 3]), ("I", [12.0]), ("G", [3.0, 12.0])]
    cs.append(Case(f"h1 v0 {flist(xs)} {flist(ys)} {len(ops)} " + " ".join(op_text(o, a) for o, a in ops), ("1d", "regression-knot")))
    # arguments that are NaN (outside the property's quantifier): Locate exits first thing, on used and fresh objects alike
    # (K-C09-1, fixed: it used to return the cached index after correlated calls). The NaN call comes after two correlated calls.
    for _ in range(12 if big else 4):
        n = rng.choice([4, 10, 50]); xs, ys = make_table(rng, n)
        ops = gen_history(rng, xs, rng.choice([10, 30]), False)
        k = rng.randrange(n - 1); k2 = min(n - 2, k + rng.randint(0, 3))
        nan_op = rng.choice([("L", [math.nan]), ("D", [math.nan, 3]), ("I", [math.nan]), ("G", [math.nan, xs[1]]), ("m", [xs[0], math.nan])])
        ops += [("L", [point_in(rng, xs, k)]), ("L", [point_in(rng, xs, k2)]), nan_op]
        cs.append(Case(f"h1 v0 {flist(xs)} {flist(ys)} {len(ops)} " + " ".join(op_text(o, a) for o, a in ops), ("1d", "nan-argument")))
    # every constructor overload with unit arguments, histories rich in Set_Prefactor / Multiply and value queries of every kind
    sizes_small = [3, 3, 4, 5, 6, 8, 11, 12, 16, 23, 40, 64]
    for _ in range(400 if big else 60):
        cs.append(case_1d(rng, rng.choice(sizes_small), rng.choice([8, 15, 25, 40]), units=rng.choice(["all", "all", "some"]), extra_pu=0.12, tags=("ctor-units",)))
    for _ in range(150 if big else 24):
        cs.append(case_2d(rng, rng.choice([3, 4, 7, 20]), rng.choice([3, 5, 9, 25]), rng.choice([10, 30, 60]), units=rng.choice(["all", "some"]), extra_pu=0.12))
    # unit arguments under which the RAW constructor arguments are again legitimate arguments: first queries on fresh objects (and on copies of
    # never-used objects) at x_val[0], x_val.back(), y_val[0], ... taken verbatim from the constructor arguments
    for _ in range(300 if big else 40):
        cs.append(case_1d(rng, rng.choice(sizes_small), rng.choice([6, 12, 25]), units="aimed", extra_pu=0.05, tags=("raw-argument",)))
    for _ in range(300 if big else 50):
        cs.append(case_2d(rng, rng.choice([3, 4, 7, 8, 20]), rng.choice([3, 5, 9, 25]), rng.choice([6, 10, 30]), units="aimed", extra_pu=0.03))
    # Save_Function: the file written is an output of the object; histories rich in Set_Prefactor / Multiply with files written in between
    for _ in range(300 if big else 36):
        cs.append(case_1d(rng, rng.choice(sizes_small), rng.choice([8, 15, 25]), units=rng.choice([None, None, "all", "some"]), extra_pu=0.15, save=0.12, tags=("save-function",)))
    for _ in range(120 if big else 14):
        cs.append(case_2d(rng, rng.choice([3, 4, 7, 20]), rng.choice([3, 5, 9, 25]), rng.choice([10, 30]), units=rng.choice([None, "all", "some"]), extra_pu=0.15, save=0.12))
    # tables on extreme scales (tiny / huge, through the raw table or the unit argument), neighbouring doubles at a large offset, subnormal abscissae
    for _ in range(700 if big else 70):
        cs.append(case_1d_ext(rng, rng.choice(sizes_small + [100, 257]), rng.choice([15, 25, 40, 80, 150]), with_exit=rng.random() < 0.06))
    for _ in range(400 if big else 40):
        cs.append(case_2d_ext(rng, rng.choice([3, 4, 7, 20, 40]), rng.choice([3, 5, 9, 25]), rng.choice([10, 30, 100]), with_exit=rng.random() < 0.05))
    # the same on a fixed ladder of scales, so that every run visits every band of the double range whatever the seed
    for e in (-305, -280, -240, -200, -165, -130, -90, -50, 50, 110, 170, 230, 290):
        sc = 10.0 ** e; n = rng.choice([12, 40, 90])
        xs = [(k + 0.4 * (k % 2) - 0.2 * (k % 5)) * sc for k in range(-n // 3, n - n // 3)]
        if not grid_ok_ext(xs): continue
        ys = [math.cos(0.37 * k) for k in range(len(xs))]
        ops = gen_history(rng, xs, 40, False, index_only=True)
        cs.append(Case(f"h1 v0 {flist(xs)} {flist(ys)} {len(ops)} " + " ".join(op_text(o, a) for o, a in ops), ("1d", "extreme-scale", "scale-ladder", "index-only")))
        m = 6; ys2 = [float(k * k) for k in range(m)]; tab = [math.sin(0.5 * i) + 0.3 * j * j for i in range(len(xs)) for j in range(m)]
        hx_ = [a[0] for o, a in gen_history(rng, xs, 40, False, index_only=True) if o == "L"]
        hy_ = [a[0] for o, a in gen_history(rng, ys2, 40, False, index_only=True) if o == "L"]
        ops = [("I", [a, b]) for a, b in zip(hx_, hy_)]
        cs.append(Case(f"h2 g0 {flist(xs)} {flist(ys2)} " + " ".join(hx(v) for v in tab) + f" {len(ops)} " + " ".join(op_text(o, a) for o, a in ops), ("2d", "extreme-scale", "scale-ladder")))
    # unit arguments that collapse neighbouring abscissae: the 1-D and the 2-D constructors must exit
    for _ in range(60 if big else 8):
        c = case_1d_collapse(rng, rng.choice([4, 5, 8, 12, 23, 64]), rng.choice([5, 15, 40]))
        if c is not None: cs.append(c)
    for _ in range(40 if big else 6):
        c = case_2d_collapse(rng, rng.choice([4, 5, 8, 12]), rng.choice([3, 5, 9]))
        if c is not None: cs.append(c)
    # sessions: several objects holding several tables; copies whose source (or which themselves) change afterwards
    for _ in range(600 if big else 70):
        cs.append(case_session_1d(rng, rng.choice(sizes_small + [5, 8, 100]), rng.choice([4, 8, 12, 20])))
    for _ in range(250 if big else 30):
        cs.append(case_session_2d(rng, rng.choice([3, 4, 7, 12, 20]), rng.choice([3, 5, 9, 16]), rng.choice([4, 8, 12])))
    for _ in range(1200 if big else 230):
        n = rng.choice(sizes_small + [100, 257, rng.randint(3, 300)])
        nops = rng.choice([10, 15, 25, 40, 80, rng.randint(10, 200)])
        cs.append(case_1d(rng, n, nops, with_exit=rng.random() < 0.08))
    for _ in range(120 if big else 14):
        n = rng.choice([500, 1000, 2000, rng.randint(300, 2000)])
        nops = rng.choice([200, 500, 1000, rng.randint(100, 1500)])
        cs.append(case_1d(rng, n, nops, tags=("large",)))
    for _ in range(30 if big else 3):
        cs.append(case_1d(rng, rng.choice([3, 50, 2000]), rng.choice([3000, 5000]), tags=("long",)))
    for _ in range(400 if big else 60):
        cs.append(case_2d(rng, rng.choice([3, 4, 7, 20, 60]), rng.choice([3, 5, 9, 33, 80]), rng.choice([10, 30, 100, 300]), with_exit=rng.random() < 0.06))
    for _ in range(20 if big else 2):
        cs.append(case_2d(rng, rng.choice([200, 1000]), rng.choice([150, 400]), rng.choice([500, 2000])))
    return cs


# ---------------------------------------------------------------- comparison, non-triviality, predicates
def compare(c, io, mo, tol):
    """token-wise; `_` on the model side = not modelled (1-D values), not compared"""
    if io == mo: return True, True, ""
    a, b = io.split(), mo.split()
    if len(a) != len(b): return False, False, f"shape: impl has {len(a)} tokens, model {len(b)}"
    rel, ab = tol; bit = True
    for k, (x, y) in enumerate(zip(a, b)):
        if y == "_" or x == y: continue
        fx, fy = tokf(x), tokf(y)
        if fx is None or fy is None: return False, False, f"token {k}: impl {x} model {y}"
        if math.isnan(fx) and math.isnan(fy): continue
        bit = False
        if math.isnan(fx) or math.isnan(fy) or math.isinf(fx) or math.isinf(fy):
            if fx == fy: continue
            return False, False, f"token {k}: impl {fx!r} model {fy!r}"
        if abs(fx - fy) <= rel * max(abs(fx), abs(fy)) + ab: continue
        return False, False, f"token {k}: impl {fx!r} model {fy!r}"
    return True, bit, ""


_sim_cache = {}
def _sim(c):
    k = c.line
    if k not in _sim_cache:
        if len(_sim_cache) > 4: _sim_cache.clear()
        P = parse_case(c.line)
        _sim_cache[k] = (P,) + simulate(P)
    return _sim_cache[k]


def tolerance(c):
    """relative 1e-12 (g++ evaluates pow(x,2.0) as x*x etc.: a few ulp) plus, for sums with cancellation (Integrate: differences of
    antiderivative values |pf|*|y|*|x|; bilinear form), the a-priori absolute slack 64*eps*(magnitude of the summed terms), DESIGN 5.3"""
    P = _sim(c)[0]
    pfmax = 1.0; m = Machine(P.two, P.tables)
    for o, a in P.ops:
        if m.life(o, a): continue
        if o in ("P", "U"):
            m.query(o, a, []); pfmax = max(pfmax, abs(m.obj().pf))
    eps = 2.0 ** -53
    mag = 0.0
    for xs, ys, tab in P.tables:
        if P.two: mag = max(mag, pfmax * max(abs(v) for v in tab))
        else: mag = max(mag, pfmax * max(abs(v) for v in ys) * 4 * (max(abs(xs[0]), abs(xs[-1])) + (xs[-1] - xs[0])))
    return (1e-12, 64 * eps * mag)


def nontrivial(c, io):
    if io.split()[:1] and io.split()[0] in ("CRASH", "SANITIZER", "TIMEOUT", "HARNESSERR"): return False
    kinds = _sim(c)[1]
    return "B" in kinds and "U" in kinds and "D" in kinds


EPS = 2.0 ** -53


def _scaled_extreme(pf, lo, hi, want_max):
    """the extremum of {fl(pf * s)} over a set of values s with minimum lo and maximum hi: rounding is monotone, so it is
    fl(pf * lo) or fl(pf * hi), whichever is smaller (larger) — exactly what "all outputs change by the factor" means for an extremum"""
    a, b = pf * lo, pf * hi
    return max(a, b) if want_max else min(a, b)


def predicates(c, io):
    """S4: the clauses of the property evaluated on the implementation's output alone"""
    out = []
    head = io.split()[0] if io.split() else ""
    if head in ("CRASH", "SANITIZER", "TIMEOUT", "HARNESSERR", "EXIT0", "EXIT_NODIAG"): return out   # reported generically
    P, kinds, exits = _sim(c)
    kind = P.kind; ops = P.ops
    if head == "EXIT":
        if not exits: out.append((f"{kind}:exit", "the history ends the process although every argument lies in the domain or its tolerated margin and every range is ordered"))
        return out
    if exits:
        bad_ctor = [i for i in range(len(P.tables)) if ctor_exits(P, i)]
        if not bad_ctor or simulate(P, ctor=False)[1]:
            return [(f"{kind}:no-exit", "a call with an argument outside the tolerated margin (or a reversed range), or a constructor call with abscissae that are not strictly increasing after the unit conversion, returned instead of ending the process")]
        # an object that should not exist: report it, then examine its answers like any other object's
        out.append((f"{kind}:constructor-accepts-repeated-abscissa", f"the constructor returned an object for table {bad_ctor[0]} although its abscissae are not strictly increasing after the unit conversion (the unit argument maps neighbouring abscissae to one double): " + " ".join(hx(v) for v in P.tables[bad_ctor[0]][0][:12])))
    t = io.split(); two = P.two
    need = sum(nout_of(two, o, a) for o, a in ops)
    if len(t) != need: return [(f"{kind}:shape", f"{len(t)} output tokens, expected {need}")]
    sfx = "2" if two else ""
    m = Machine(two, P.tables); p = 0
    stats = []
    for xs, ys, tab in P.tables:
        fvals = tab if two else ys                       # the function values after the unit scaling
        stats.append((min(fvals), max(fvals), max(abs(w) for w in fvals)))
    for n_op, (o, a) in enumerate(ops):
        if m.life(o, a): continue
        xs, ys, tab = m.table()
        where = f"op #{n_op} {op_text(o, a)}" + (f" on the object in slot {m.cur} (table {m.obj().t})" if P.session else "")
        m.query(o, a, [])
        v = t[p:p + nout_of(two, o, a)]; p += nout_of(two, o, a)
        _check_call(out, kind, two, sfx, o, a, v, where, xs, ys, tab, m.obj().pf, stats[m.obj().t])
        if len(out) > 4: break
    return out


def _check_call(out, kind, two, sfx, o, a, v, where, xs, ys, tab, pf, stat):
    """one member call: xs, ys, tab = the (unit-scaled) table its object should hold, pf = the prefactor its calls should have left
    (after this call), stat = (minimum, maximum, largest magnitude) of the function values of that table"""
    fmin, fmax, ymax = stat
    ny = len(ys)
    n_before = len(out)
    region = collapsed(xs) or (two and collapsed(ys))     # the object holds a repeated abscissa: it should not exist (note in the message)
    # |antiderivative value on a segment| <= ymax * (|x| + 5.5 * 2 * h) (Steffen: |a h^3| <= 6|dy|, |b h^2| <= 9|dy|, |c h| <= 2|dy|), 1 % beyond the ends included
    stem = 0.0 if two else ymax * (max(abs(xs[0]), abs(xs[-1])) + 13.0 * (xs[-1] - xs[0]))
    for _once in (0,):
        if o in ("P", "U"):
            if not same_bits(tokf(v[0]), pf): out.append((f"{kind}:harness-prefactor", f"{where}: harness tracks {v[0]}, expected {pf!r}"))
        elif o == "Q":
            d = [tokf(w) for w in v]; exp = [xs[0], xs[-1]] + ([ys[0], ys[-1]] if two else [])
            if any(not same_bits(x, y) for x, y in zip(d, exp)):
                out.append((f"Q{sfx}:domain", f"{where}: domain is {d!r}, the ends of the (unit-scaled) abscissae are {exp!r}"))
        elif o in ("F", "f"):
            _check_save(out, two, sfx, o, a, v, where, xs, ys, pf)
        elif not two and o == "L":
            j, jf = int(v[0]), int(v[1]); jr = ref_index(xs, a[0])
            if j != jf: out.append(("L:history", f"{where}: Locate returns {j} on the used object and {jf} on a fresh one"))
            if jf != jr: out.append(("L:canonical", f"{where}: a fresh object locates segment {jf}, the segment of x is {jr}"))
            elif j != jr: out.append(("L:canonical-used", f"{where}: the used object locates segment {j}, the segment of x is {jr}"))
        else:
            f = [tokf(w) for w in v]
            if any(x is None for x in f):
                out.append((f"{o}{sfx}:shape", f"{where}: output {v} is not numeric")); break
            x, xf = f[0], f[1]
            if not same_bits(x, xf):
                out.append((f"{o}{sfx}:history", f"{where}: the used object returns {v[0]}, a fresh object with the same prefactor {v[1]}"))
            if o in ("I", "O", "D", "d"):
                # one multiplication by the prefactor: bit-exact
                xb = f[2]
                exp = pf * xb if not (o == "D" and a[1] > 3) else 0.0
                if not (x == exp or (math.isnan(x) and math.isnan(exp))):
                    out.append((f"{o}{sfx}:prefactor", f"{where}: value {x!r} is not prefactor {pf!r} times the value {xb!r} of a new object"))
                # at a tabulated abscissa (not the last) a new object returns the tabulated value itself (all other terms are zeros)
                if not math.isnan(xb) and (o in ("I", "O") or (o == "D" and a[1] == 0)):
                    if not two:
                        k = bisect.bisect_left(xs, a[0])
                        if k < len(xs) - 1 and xs[k] == a[0] and xb != ys[k]:
                            out.append((f"{o}:knot-value", f"{where}: a new object returns {xb!r} at the tabulated abscissa #{k}, the (unit-scaled) tabulated value is {ys[k]!r}"))
                    else:
                        k = bisect.bisect_left(xs, a[0]); l = bisect.bisect_left(ys, a[1])
                        if k < len(xs) - 1 and l < ny - 1 and xs[k] == a[0] and ys[l] == a[1]:
                            cell = [tab[k * ny + l], tab[(k + 1) * ny + l], tab[(k + 1) * ny + l + 1], tab[k * ny + l + 1]]
                            if all(math.isfinite(w) for w in cell) and xb != cell[0]:
                                out.append((f"{o}2:knot-value", f"{where}: a new object returns {xb!r} at the grid point ({k},{l}), the (unit-scaled) tabulated value is {cell[0]!r}"))
            elif o == "G":
                xb = f[2]
                n = abs(ref_index(xs, a[1]) - ref_index(xs, a[0])) + 1
                # both sums: n terms fl(fl(pf R) - fl(pf L)) resp. pf * fl(R - L), partial sums <= 2 n |pf| stem; plus the product pf * xb
                slack = EPS * abs(pf) * stem * (2.0 * n * n + 10.0 * n) + 1e-300
                if not (math.isnan(x) or math.isnan(xb)) and x != pf * xb and not abs(x - pf * xb) <= slack:
                    out.append(("G:prefactor", f"{where}: integral {x!r} is not prefactor {pf!r} times the integral {xb!r} of a new object (difference {abs(x - pf * xb):.3g}, rounding allows {slack:.3g})"))
            elif o in ("m", "M", "gm", "gM"):
                bmin, bmax = f[2], f[3]
                if not any(math.isnan(w) for w in (x, bmin, bmax)):
                    exp = _scaled_extreme(pf, bmin, bmax, o in ("M", "gM"))
                    if x != exp:
                        out.append((f"{o}{sfx}:prefactor", f"{where}: {x!r} is not the extremum {exp!r} of prefactor {pf!r} times the values of a new object (minimum {bmin!r}, maximum {bmax!r})"))
                    if o in ("gm", "gM") and (bmin != fmin or bmax != fmax):
                        out.append((f"{o}{sfx}:table", f"{where}: a new object has global extrema {bmin!r}, {bmax!r}; the (unit-scaled) table has {fmin!r}, {fmax!r}"))
    if region: out[n_before:] = [(sg, msg + " [the unit argument collapsed neighbouring abscissae: the table holds a repeated abscissa]") for sg, msg in out[n_before:]]


def text_of(x):
    """what `stream << x` writes for a double (default flags: precision 6, %g)"""
    return "%g" % x


def _text_is(text, x):
    if math.isnan(x): return text in ("nan", "-nan")
    return text == text_of(x)


def _check_save(out, two, sfx, o, a, v, where, xs, ys, pf):
    """Save_Function: the file has one row per point of Linear_Space(domain, points) (2-D: per pair, x outer), and a row holds the text of its
    argument(s) and the text of what Interpolate returns there: prefactor times the value of a new object (= what a fresh object with the same
    prefactor returns), whatever the history was.  Compared as TEXT (six significant digits, as the library writes them)."""
    args = save_args(two, o, a, xs, ys); na = 2 if two else 1; W = 2 * na + 3
    try: rows = int(v[0])
    except ValueError: out.append((f"F{sfx}:shape", f"{where}: row count {v[0]}")); return
    if rows != len(args):
        out.append((f"F{sfx}:rows", f"{where}: the file has {rows} rows, Linear_Space of the domain has {len(args)} points")); return
    for k, arg in enumerate(args):
        r = v[1 + k * W:1 + (k + 1) * W]
        texts = r[:na + 1]; nums = [tokf(w) for w in r[na + 1:]]
        if len(r) != W or any(not w.startswith("t:") for w in texts) or any(x is None for x in nums):
            out.append((f"F{sfx}:shape", f"{where}: row {k}: output {r}")); return
        texts = [w[2:] for w in texts]
        if "!malformed-row" in texts:
            out.append((f"F{sfx}:row-format", f"{where}: row {k} of the file does not have {na + 1} tab-separated fields")); return
        for i, xa in enumerate(arg):
            if not same_bits(nums[i], xa):
                out.append((f"F{sfx}:domain", f"{where}: row {k}: the harness computes the point {nums[i]!r} from the member domain, the ends of the (unit-scaled) abscissae give {xa!r}")); return
            if not _text_is(texts[i], xa):
                out.append((f"F{sfx}:abscissa", f"{where}: row {k} of the file holds the argument {texts[i]}, point #{k} of Linear_Space(domain) is {xa!r} (written {text_of(xa)})")); return
        vf, vb = nums[-2], nums[-1]
        if math.isnan(vb) or math.isnan(vf): continue
        exp = pf * vb
        if not _text_is(texts[-1], exp):
            out.append((f"F{sfx}:prefactor", f"{where}: row {k} of the file (argument {' '.join(repr(w) for w in arg)}) holds the value {texts[-1]}; prefactor {pf!r} times the value {vb!r} of a new object is {exp!r} (written {text_of(exp)})")); return
        if not _text_is(texts[-1], vf):
            out.append((f"F{sfx}:history", f"{where}: row {k} of the file (argument {' '.join(repr(w) for w in arg)}) holds the value {texts[-1]}; a fresh object with the same prefactor returns {vf!r} (written {text_of(vf)})")); return


# ---------------------------------------------------------------- extra stage: the model's own trace of search kinds
def extra(ctx, rng):
    """Runs the model in trace mode (t1: prints which search every internal Locate call runs) on fresh histories and checks
    the simulation used for non-triviality and exit prediction against it."""
    import vcheck
    cs = [case_1d(rng, rng.choice([3, 5, 12, 40, 300, 2000]), rng.choice([20, 60, 200, 800])) for _ in range(60 if ctx["tier"] == "quick" else 400)]
    cs += [case_1d_ext(rng, rng.choice([3, 5, 12, 40, 300]), rng.choice([20, 60, 200])) for _ in range(20 if ctx["tier"] == "quick" else 150)]
    lines = ["t1" + c.line[2:] for c in cs]
    outs = vcheck.run_exe(ctx["driver"], lines, ctx["work"], "trace")
    code = {"X": "0", "B": "1", "U": "2", "D": "3", "E": "4"}
    hist = {}; bad = []; calls = 0
    for c, mo in zip(cs, outs):
        kinds, ex = simulate(parse_case(c.line))
        exp = " ".join(code[k] for k in kinds)
        for k in kinds: hist[k] = hist.get(k, 0) + 1
        calls += len(kinds)
        if mo.strip() != exp: bad.append({"case": c.line[:300], "model": mo[:200], "simulation": exp[:200]})
    res = {"model_trace_histories": len(cs), "model_trace_locate_calls": calls,
           "search_kinds": {"bisection": hist.get("B", 0), "hunt_up": hist.get("U", 0), "hunt_down": hist.get("D", 0), "hunt_equal": hist.get("E", 0), "extrapolation_branch": hist.get("X", 0)}}
    if bad: res["broken"] = [{"kind": "trace", "what": f"the cache simulation of checks/C09.py disagrees with the model's trace on {len(bad)} histories", "first": bad[:3]}]
    return res
