"""C07 — every distribution's density, CDF, quantile and likelihood are mutually coherent.

Case grammar (one line per case; doubles as C99 hex floats):
  uniform a b  P | gauss mu sigma  P | expo mean  P | mb a  P | chi2 dof  P [O] | chibar nw w1..wnw  P [O]
      P = np (lo hi flag)*   : the pair's two abscissae; flag 1 = "the CDF difference over [lo,hi] is compared with the
                               8-point Gauss-Legendre integral of the library's density" (interval chosen short and smooth)
      output: per pair  pdf(lo) cdf(lo) pdf(hi) cdf(hi)   | per flagged pair the density at the 8 GL nodes
  gauss2d x y mx my sx sy          -> pdf | PDF_Gauss(x) PDF_Gauss(y)
  binomial trials p k0 m [O]       -> per k in k0..k0+m-1: pmf cdf
  poisson mu k0 m [O]              -> per k: pmf cdf
  invpoisson n c [O]               -> Inv_CDF_Poisson | CDF_Poisson(result, n)
  quantile p mu sigma [O]          -> Quantile_Gauss | CDF_Gauss(result)
  lik s n b                        -> loglik lik | PMF_Poisson(s+b, n)
  lik0 s n                         -> the same through the two-argument calls (default background argument)
  likseq m (s n b)*                -> per call, in this order in one process: loglik lik | per call PMF_Poisson(s+b, n)
  liksess m (L s n b | L0 s n | B S N Bg | B0 S N)*
                                   -> per request, in this order in one process: loglik lik.  A session mixes single-bin and binned
                                      requests, through the calls with and without the background argument, and may contain requests
                                      outside the property's ranges that the library answers without terminating (total expectation
                                      0, negative, 1e-300, 1e300, inf, NaN; counts beyond 500; empty histograms): signal-strength scans
                                      that start at strength 0, scans down to 0 and up again, such a request right before a request
                                      with the same / another count.  Clauses are evaluated on the in-range requests of the session.
  binned S N B (lists)             -> loglik lik | per bin: loglik lik
  binned0 S N                      -> the same through the overloads without a background argument
  kde n (v w)* xmin xmax bw        -> 150 ordinates at the tabulation abscissae | 149 mid-segment ordinates, Interpolation::Integrate,
                                      then per segment the ordinates at 1/4 and 3/4 of it
  kde0 n (v w)* xmin xmax          -> the same through the call without a bandwidth argument (default: automatic bandwidth)
  Sizes: besides the short lists of the streams per function, every container argument and every run of calls is driven on a ladder
  2^k-1, 2^k, 2^k+1 / round decimal / random sizes: 31..4200 bins (20000 thorough), 63..520 KDE samples (2100), 31..401 chi-bar weights,
  33..1100 likelihood calls in one process (5000), the Poisson and binomial masses over their whole ranges of counts in one run.
  O = "@ n (name k args value)*"   : the oracle table = the values the C++ functions of Special_Functions.cpp return for the
                                     calls the model makes (computed by a first pass through the harness, ops d_<name>)."""
import math, os
from fractions import Fraction
from vcheck import Case, hx, flist, ilist, parse_vals, compare_lines, run_exe, tokf
import vbuild

PID = "C07"
COQ = os.path.join(os.path.dirname(os.path.dirname(os.path.abspath(__file__))), "coq")


def gen_functions():
    """T-tie: the functions of src/Statistics.cpp sections 1 and 2 that are regenerated from clang's AST on every run
    (coq/Gen_C07_Formulas.v) and proved equal to the hand model in coq/C07_GenTie.v: the 14 straight-line ones through the
    shared translator's subset, and (tools/cxx2gallina_C07.py: counted for-loops as the fold combinators g_for / g_forp,
    std::vector / std::pair parameters) PDF_Gauss_2D, CDF_Binomial, PMF_Poisson, PDF/CDF_Chi_Bar_Square and the four likelihoods"""
    import cxx2gallina as c
    F, E, d = c.Fn, c.Ext, "double"
    fns = [F("PDF_Uniform", [d] * 3, "g_PDF_Uniform"), F("CDF_Uniform", [d] * 3, "g_CDF_Uniform"),
           F("PDF_Gauss", [d] * 3, "g_PDF_Gauss"), F("CDF_Gauss", [d] * 3, "g_CDF_Gauss"), F("Quantile_Gauss", [d] * 3, "g_Quantile_Gauss"),
           F("PMF_Binomial", ["uint", d, "uint"], "g_PMF_Binomial"),
           F("CDF_Poisson", [d, "uint"], "g_CDF_Poisson"), F("Inv_CDF_Poisson", ["uint", d], "g_Inv_CDF_Poisson"),
           F("PDF_Chi_Square", [d] * 2, "g_PDF_Chi_Square"), F("CDF_Chi_Square", [d] * 2, "g_CDF_Chi_Square"),
           F("PDF_Exponential", [d] * 2, "g_PDF_Exponential"), F("CDF_Exponential", [d] * 2, "g_CDF_Exponential"),
           F("PDF_Maxwell_Boltzmann", [d] * 2, "g_PDF_Maxwell_Boltzmann"), F("CDF_Maxwell_Boltzmann", [d] * 2, "g_CDF_Maxwell_Boltzmann"),
           # loops, vectors, pairs (tools/cxx2gallina_C07.py)
           F("PDF_Gauss_2D", [d, d, "paird", "paird"], "g_PDF_Gauss_2D"),
           F("CDF_Binomial", ["uint", d, "uint"], "g_CDF_Binomial"), F("PMF_Poisson", [d, "uint"], "g_PMF_Poisson"),
           F("PDF_Chi_Bar_Square", [d, "vecd"], "g_PDF_Chi_Bar_Square"), F("CDF_Chi_Bar_Square", [d, "vecd"], "g_CDF_Chi_Bar_Square"),
           F("Log_Likelihood_Poisson", [d, "uint", d], "g_Log_Likelihood_Poisson"), F("Likelihood_Poisson", [d, "uint", d], "g_Likelihood_Poisson"),
           F("Log_Likelihood_Poisson_Binned", ["vecd", "vecu", "vecd"], "g_Log_Likelihood_Poisson_Binned"),
           F("Likelihood_Poisson_Binned", ["vecd", "vecu", "vecd"], "g_Likelihood_Poisson_Binned")]
    exts = [E("GammaQ", [d, d], "gammaQ"), E("GammaP", [d, d], "gammaP"), E("Inv_GammaQ", [d, d], "inv_gammaQ"),
            E("GammaLn", [d], "gammaLn"), E("Inv_Erf", [d], "inv_erf"), E("Binomial_Coefficient", ["int", "int"], "binom")]
    return fns, exts


def regenerate():
    import cxx2gallina as c, cxx2gallina_C07 as c7
    fns, exts = gen_functions()
    try:
        txt = c7.translate_all(os.path.join(vbuild.REPO, "src", "Statistics.cpp"), fns, [os.path.join(vbuild.REPO, "include")], exts, True)
    except c.Unsupported as e:
        raise RuntimeError(f"tools/cxx2gallina_C07.py cannot translate src/Statistics.cpp: {e}")
    ch = c.write_if_changed(os.path.join(COQ, "Gen_C07_Formulas.v"), txt)
    return "Gen_C07_Formulas.v regenerated from the current source" if ch else ""
EPS = 2.0 ** -53
RULE = ("a case counts as non-trivial if one of its arguments lies on a support boundary (x = x_min, x_max, 0, k = trials, mean 0) or in a tail "
        "(CDF < 1e-6 or > 1-1e-6), or the degrees of freedom / Poisson mean / trials are in the top decade of the property's range "
        "(dof >= 40, mean >= 100, trials >= 17, counts >= 50), or it is a malformed request that must terminate the process, or a KDE with "
        "pseudo-data (>= 3 samples), a likelihood with signal exactly 0, a sequence / session of >= 2 likelihood requests in one process, a binned likelihood with >= 2 bins; "
        "distinct by case text")
LEVEL_TEXT = (
    "Theorems (Coq, all real arguments, over the same Gallina terms that are extracted and run): uniform, exponential, normal and Maxwell-Boltzmann: density >= 0, "
    "CDF' = density inside every support piece, CDF non-decreasing, CDF(b) - CDF(a) = RInt density a b for all a, b (Chasles across the support boundaries), "
    "range [0,1] and limits for all four: uniform/exponential by the closed forms, normal and Maxwell-Boltzmann from -1 < erf x < 1 at every real x, "
    "1 - e^(-x^2) <= erf x for x >= 0 and erf -> +-1 at +-infinity, which are theorems about the erf defined by its integral (proved from "
    "(RInt e^(-t^2) 0 x)^2 = PI/4 - RInt (e^(-x^2 (1+t^2)) / (1+t^2)) 0 1, differentiation under the integral sign on [0,1], no axiom): normal CDF strictly "
    "inside (0,1), -> 1 / -> 0, median 1/2, point symmetry; Maxwell-Boltzmann CDF in [0,1), 0 below the support, -> 1; binomial: CDF is the partial sum, the masses sum to one, mass >= 0, 0 beyond the trials (given that the "
    "Binomial_Coefficient parameter returns C(n,k)); Poisson: the log-sum equals e^-mu mu^k / k!, the mean-0 conventions, the partial sum of the masses equals "
    "1 - (1/n!) RInt t^n e^-t 0 mu (the regularised upper incomplete gamma function at integer a), hence CDF_Poisson is the partial sum whenever GammaQ returns "
    "that function; likelihood = mass at s+b, log = logarithm, binned = sum/product, size mismatch exits, empty background = zeros, the binned value of a histogram cut into consecutive blocks of any sizes is the sum (product) of the blocks' values, a bin without observed events contributes -(s+b) whatever the split (so -b without predicted signal), in a session of single-bin and binned requests answered one after the other in one process every answer is the answer the request gets alone whatever was asked before it (also requests outside the ranges, e.g. total expectation 0) and single-bin requests never end the session; chi-square: the log-space "
    "density equals x^(k/2-1) e^(-x/2) / (2^(k/2) Gamma(k/2)) given GammaLn = ln Gamma, CDF = GammaP(x/2,k/2), CDF' = density given the defining derivative of P, "
    "dof-0 conventions, chi-bar mixture linearity and clamp; Quantile_Gauss: exact inverse given the exact inverse error function and error <= sqrt2 sigma delta "
    "for an Inv_Erf accurate to delta; Inv_CDF_Poisson(0,c) is the exact inverse; KDE: the tabulation never indexes out of bounds; the automatic bandwidth's two-pass variance is >= 0 for non-negative weights, the bandwidth is > 0 unless every "
    "positively weighted sample sits at the weighted mean, and it is unchanged by a common offset of the samples. "
    "Fourth pass (C07_Proofs_Coh.v): Poisson CDF 'from 0 to 1': the partial sums are non-decreasing in the count over any number of steps and converge to 1 for every mean (C07_poisson_cdf_from_0_to_1); "
    "as a function of the mean CDF_Poisson(., n) has derivative -PMF(n), is strictly decreasing, 1-Lipschitz, with a unique inverse (C07_poisson_cdf_in_the_mean), hence Inv_CDF_Poisson(n > 0) inverts "
    "CDF_Poisson to the accuracy delta of Inv_GammaQ in the mean, given that GammaQ returns Q(n+1, mu) (C07_inv_cdf_poisson_accuracy); CDF_Gauss is 1/(sqrt(2 pi) sigma)-Lipschitz, so an Inv_Erf accurate to delta "
    "gives |CDF_Gauss(Quantile_Gauss(p)) - p| <= delta/sqrt(pi) for all mu, sigma > 0 (C07_quantile_gauss_probability_accuracy); Inv_Erf itself is now modelled (inv_erf_fn: +-10 within 1e-16 of +-1, exit for |p| >= 1, "
    "else Find_Root(erf(x) - p, -10, 10, 1e-4) with Find_Root a parameter) and run against the library: its guards (C07_inv_erf_guards), the sign change over [-10,10] and the unique root strictly inside for |p| <= 1 - 2^-53 "
    "(C07_inv_erf_bracket, from 1 - erf 10 <= e^-100 < 2^-53), and the chain 'Find_Root within 1e-4 of the root => Quantile_Gauss within sqrt2 sigma 1e-4 of the quantile and CDF within 1e-4/sqrt(pi) < 5.78e-5 of p' for 2^-54 <= p <= 1 - 2^-54 "
    "(C07_quantile_gauss_lib_accuracy), the conventions at p = 0, 1 and the exit outside [0,1] (C07_quantile_gauss_lib_ends); PDF_Gauss_2D is positive, the product of the marginals, and its iterated integral over any rectangle is the "
    "product of the CDF differences (C07_gauss_2d); chi-bar-square for weight vectors of any length with non-negative weights: density >= 0 whatever GammaLn returns, and with weight sum <= 1 and component CDFs in [0,1] non-decreasing the clamp is "
    "inactive, the mixture CDF lies in [0,1] and is non-decreasing on the whole line (C07_chibar_nonnegative_weights), CDF(v) - CDF(u) = RInt density u v for 0 < u <= v carried from the components of non-zero weight "
    "(C07_chibar_cdf_difference_is_integral; hypotheses on the components remain hypotheses: they are GammaP/GammaLn facts, C06); KDE (C07_kde_estimate_is_mixture_partial): every accepted table of Perform_KDE samples one function "
    "f(x) = sum_e w_e K((x-p_e)/h)/(h W) over the sorted sample extended by the pseudo data (an explicit list independent of x, any sample size) on the 150-point grid, K((x-p)/h)/h is the normal density, so "
    "int_u^v f = sum_e w_e (Phi((v-p_e)/h) - Phi((u-p_e)/h))/W, between 0 and W_ext/W for non-negative weights. "
    "Sixth pass (C07_Proofs_Int.v): the discrete form of 'the CDF difference over any interval equals the sum of the mass over it' for the model functions themselves and intervals of any length: "
    "CDF_Binomial(k+d+1) - CDF_Binomial(k) = sum of PMF_Binomial over k+1..k+d+1, CDF_Binomial non-decreasing over any number of steps, in [0,1], exactly 1 from the number of trials on and "
    "the success/failure reflection PMF(n,p,k) = PMF(n,1-p,n-k) and CDF(n,p,x) + CDF(n,1-p,n-x-1) = 1 (C07_binomial_cdf_difference_is_sum); the same interval clause for CDF_Poisson/PMF_Poisson, mean 0 included, given that GammaQ returns Q at the integers "
    "(C07_poisson_cdf_difference_is_sum); the binned likelihoods are invariant under any permutation of the bins (C07_likelihood_poisson_binned_any_bin_order); chi-square: CDF non-decreasing on the whole real line, in [0,1], 0 up to x = 0, -> 1, from the defining "
    "derivative of P(., dof/2), P(0) = 0 and 0 <= P <= 1 (hypotheses about GammaP: C06), monotonicity itself derived from CDF(y) - CDF(x) = RInt density >= 0 (C07_chi2_cdf_monotone_from_0_to_1); KDE: for every sample, weights and bandwidth the tabulation stays inside the sample and the "
    "150-row table is accepted exactly for xMin < xMax, xMax <= xMin terminates the process, the sort returns an ascending permutation of the sample (C07_kde_table_accepted_and_offset, which removes the 'or Exit' alternative of C07_kde_table_partial); a common offset of sample and window "
    "moves the abscissae and leaves all 150 tabulated ordinates unchanged, automatic or manual bandwidth, pseudo data included (same theorem, over the reals: the rounding effects of far windows remain S4 territory); samples without spread get the automatic bandwidth 0 "
    "(same theorem: the premise of known finding K-C07-2). "
    "Seventh pass, T-tie: 23 functions of src/Statistics.cpp sections 1 and 2 are no longer tied to the code by the correspondence run alone: on every run coq/Gen_C07_Formulas.v is regenerated from clang's AST of the current source (tools/cxx2gallina.py for the 14 straight-line ones: PDF/CDF_Uniform, PDF/CDF/Quantile_Gauss, PMF_Binomial, CDF/Inv_CDF_Poisson, PDF/CDF_Chi_Square, PDF/CDF_Exponential, PDF/CDF_Maxwell_Boltzmann; tools/cxx2gallina_C07.py for PDF_Gauss_2D (std::pair parameters) and the functions with counted loops over unsigned counters and std::vector arguments: CDF_Binomial, PMF_Poisson, PDF/CDF_Chi_Bar_Square, (Log_)Likelihood_Poisson, (Log_)Likelihood_Poisson_Binned, whose loops become the fold combinators g_for/g_forp with fuel = the trip count computed from the source bounds), and coq/C07_GenTie.v proves each generated term equal to the hand model for all arguments, in every arithmetic satisfying the literal laws LitLaws (the reals do: ROps_LitLaws), the loops by induction for every trip count / vector length (C07_generated_closed_forms_are_model, C07_generated_loops_are_model).  A changed formula, comparison, guard, literal, operand order, loop bound, start index or index expression in one of these functions breaks a proof obligation before any case is run (tried: PDF_Exponential times 1.001 breaks tie_PDF_Exponential; the CDF_Binomial loop bound i <= x changed to i < x breaks tie_CDF_Binomial; both also found by S4 with a failing input).  C07_generated_binomial_cdf_difference_is_sum states the interval clause, monotonicity over any number of steps and the range [0,1] directly about the generated CDF_Binomial / PMF_Binomial terms. Not regenerated (hand model + correspondence only): Perform_KDE (sort, data-dependent pseudo data, Interpolation constructor) and Inv_Erf (a lambda handed to Find_Root). In the double instance the literal laws are not a Coq theorem (that instance exists only in OCaml): there the hand model, not the generated term, is what the correspondence run compares with the library. "
    "NOT theorems: that Find_Root meets its request (C02), numeric agreement of GammaQ/GammaP/GammaLn/Inv_GammaQ/"
    "Binomial_Coefficient with the functions they approximate (C06/C02), and the KDE's normalisation (it divides by an approximate Simpson integral; S4 integrates the returned cubic segments exactly and allows 1e-6 plus the rounding of the abscissae, ulp(x)/2 times the total variation of the estimate, which matters only for windows 1e9 or more widths away from the origin) — these are "
    "S4 predicates on the implementation for every generated case. Correspondence: all closed forms, sums, likelihoods are run model-vs-C++ (bit-identical); "
    "functions that delegate (CDF_Poisson, Inv_CDF_Poisson, PDF/CDF_Chi_Square, chi-bar, Quantile_Gauss, PMF/CDF_Binomial) are run with the delegate's C++ "
    "result supplied as an oracle; Inv_Erf and Quantile_Gauss are additionally run with only Find_Root supplied as an oracle (ops inverf, quantilelib; the oracle is keyed by the bracket, the accuracy and the values of the function "
    "the model hands over at -10, 0, 10, so the request is compared as well), with S4 predicates erf(Inv_Erf(p)) = p to 2/sqrt(pi) 1e-4, the +-10 conventions and the exits; Perform_KDE's table is compared up to its one normalisation factor.")
LEVEL_NOTE = ("Coq 8.16.1 kernel, Coquelicot; erf is defined as 2/sqrt(PI) RInt exp(-t^2) 0 x; M_PI is a model parameter (PI in the theorems, the double in the run); "
              "GammaQ, GammaP, Inv_GammaQ, GammaLn, Inv_Erf, Binomial_Coefficient are model parameters whose needed properties are explicit hypotheses (Inv_Erf is also modelled itself, with Find_Root as its parameter); "
              "std::sort modelled by insertion sort (specification); Interpolation/Integrate inside Perform_KDE are not modelled (C01/C03/C08); T-tie: tools/cxx2gallina.py + tools/cxx2gallina_C07.py regenerate coq/Gen_C07_Formulas.v from clang's AST of src/Statistics.cpp before the proofs are rebuilt (23 functions; the translators, clang's AST and the reading of unsigned arithmetic below 2^31 as Z are trusted; diagnostics written to std::cerr are skipped); the ties are proved under LitLaws (literal = num/den), which holds in the reals; coverage/C07.md lists function by function what is generated, hand-modelled, modelled by specification or not modelled")
TOL = (1e-13, 0.0)
TRUSTED = ["T-tie: clang's JSON AST and the translators tools/cxx2gallina.py / tools/cxx2gallina_C07.py (counted for-loops -> g_for/g_forp with the trip count as fuel, v[i] -> nth, std::pair -> pair, M_PI -> pi_c, std::cerr statements skipped) are trusted to render the 23 regenerated functions of src/Statistics.cpp faithfully; the equality generated term = hand model is a Coq theorem under LitLaws (true in the reals; in doubles a literal is the correctly rounded quotient num/den, which is not proved in Coq)",
           "std::sort is modelled by its specification (ascending by value; generated samples with equal values carry equal weights)",
           "the oracle pass: harness ops d_gammaQ/d_gammaP/d_inv_gammaQ/d_gammaLn/d_inv_erf/d_binom/d_find_root return the library's own values, which the model driver looks up by bit-identical arguments"]
ASSUMPTIONS = ["unsigned arguments are generated below 2^31", "KDE samples have positive weights and at least half of them lie inside the window"]

GLT = [-0.9602898564975363, -0.7966664774136267, -0.5255324099163290, -0.1834346424956498,
       0.1834346424956498, 0.5255324099163290, 0.7966664774136267, 0.9602898564975363]
GLW = [0.1012285362903763, 0.2223810344533745, 0.3137066458778873, 0.3626837833783620,
       0.3626837833783620, 0.3137066458778873, 0.2223810344533745, 0.1012285362903763]
NA = math.nextafter


# ------------------------------------------------------------------ oracle pass
class Proto:
    __slots__ = ("line", "calls", "tags", "tol")

    def __init__(self, line, calls=(), tags=(), tol=None):
        self.line = line; self.calls = list(calls); self.tags = tuple(tags); self.tol = tol


def _call_line(name, args):
    if name == "binom": return f"d_binom {int(args[0])} {int(args[1])}"
    return f"d_{name} " + " ".join(hx(a) for a in args)


_ORACLE_CACHE = {}


def resolve(protos):
    """runs the delegate calls through the harness and appends the oracle table to each case line"""
    need = []
    seen = set()
    for p in protos:
        for c in p.calls:
            if c not in _ORACLE_CACHE and c not in seen: seen.add(c); need.append(c)
    if need:
        try:
            exe = vbuild.build_harness(os.path.join(vbuild.VERIF, "harness", "C07.cpp"), vbuild.build_lib())
            # a directory and a name of this run's own: several checks of this property may run at the same time (seeded copies, seeds)
            wd = os.path.join(os.environ.get("VERIF_SCRATCH") or vbuild.BUILD, "run", PID); nm = f"oracle{os.getpid()}"
            out = run_exe(exe, [_call_line(n, a) for n, a in need], wd, nm)
            for ext in (".cases", ".out", ".out.diag"):
                try: os.remove(os.path.join(wd, nm + ext))
                except OSError: pass
        except Exception:
            out = ["NOORACLE"] * len(need)
        for c, o in zip(need, out):
            t = o.split()
            _ORACLE_CACHE[c] = t[0] if t else "NOORACLE"
    cases = []
    for p in protos:
        line = p.line
        if p.calls:
            uniq = list(dict.fromkeys(p.calls))
            line += f" @ {len(uniq)} " + " ".join(f"{n} {len(a)} " + " ".join(hx(float(x)) for x in a) + " " + _ORACLE_CACHE[(n, a)] for n, a in uniq)
        cases.append(Case(line, p.tags, tol=p.tol))
    return cases


def u32(k): return k % 4294967296


# delegate calls made by each function (same argument arithmetic as the source; the model driver verifies them)
def calls_chi2_pdf(x, dof): return [] if (x <= 0 or dof < 1e-6) else [("gammaLn", (dof / 2.0,))]
def calls_chi2_cdf(x, dof): return [] if (x < 0 or abs(dof) < 1e-6) else [("gammaP", (x / 2.0, dof / 2.0))]
def calls_chibar_pdf(x, w): return [] if x <= 0 else [c for d in range(1, len(w)) for c in calls_chi2_pdf(x, float(d))]
def calls_chibar_cdf(x, w): return [] if x < 0 else [c for d in range(0, len(w)) for c in calls_chi2_cdf(x, float(d))]
def calls_binom_pmf(n, p, k): return [] if (p < 0 or p > 1) else [("binom", (float(n), float(k)))]
def calls_binom_cdf(n, p, k): return [] if (p < 0 or p > 1) else [("binom", (float(n), float(i))) for i in range(0, k + 1)]
def calls_pois_cdf(mu, n): return [] if mu < 0 else [("gammaQ", (mu, float(u32(n + 1))))]


def pairs_txt(ps): return f"{len(ps)} " + " ".join(f"{hx(a)} {hx(b)} {f}" for a, b, f in ps)


# ------------------------------------------------------------------ generators
def logu(rng, lo, hi): return math.exp(rng.uniform(math.log(lo), math.log(hi)))


def scan_pairs(rng, pts, scale, gap, k):
    """k pairs: anchors drawn from pts (already in x units); short flagged pairs of width <= gap*scale and a few long unflagged ones"""
    ps = []
    for _ in range(k):
        a = rng.choice(pts)
        if rng.random() < 0.75:
            ps.append((a, a + rng.uniform(0.02, gap) * scale, 1))
        else:
            b = rng.choice(pts)
            lo, hi = min(a, b), max(a, b)
            ps.append((lo, hi, 0))
    return ps


def gen_uniform(rng, n):
    out = []
    for _ in range(n):
        a = rng.choice([0.0, -1.0, 1.0, rng.uniform(-10, 10), rng.choice([-1, 1]) * logu(rng, 1e-6, 1e6)])
        w = logu(rng, 1e-3, 1e3) * max(1.0, abs(a)) if rng.random() < 0.7 else logu(rng, 1e-9, 1e9)
        b = a + w
        if not b > a: continue
        w = b - a
        ps = [(a - w, a - w / 2, 1), (a - w / 3, a, 1), (a, a + w / 3, 1), (b - w / 4, b, 1), (b, b + w, 1), (b + w, b + 3 * w, 1),
              (NA(a, -math.inf), a, 0), (a, NA(a, math.inf), 0), (NA(b, -math.inf), b, 0), (b, NA(b, math.inf), 0),
              (a - 5 * w, b + 7 * w, 0), (a, b, 1)]
        for _ in range(4):
            u, v = sorted((rng.uniform(a - w, b + w), rng.uniform(a - w, b + w)))
            inside = (a <= u and v <= b) or v <= a or u >= b
            ps.append((u, v, 1 if inside else 0))
        out.append(Proto(f"uniform {hx(a)} {hx(b)} {pairs_txt(ps)}", (), ("uniform",)))
    return out


def gen_gauss(rng, n):
    out = []
    for _ in range(n):
        mu = rng.choice([0.0, 1.0, -3.5, rng.uniform(-100, 100), rng.choice([-1, 1]) * logu(rng, 1e-6, 1e6)])
        s = rng.choice([1.0, logu(rng, 1e-3, 1e3), logu(rng, 1e-8, 1e8)])
        zs = [-40.0, -38.6, -27.0, -9.0, -8.2, -6.0, -5.0, -3.0, -1.0, -0.3, 0.0, 0.2, 1.0, 2.5, 4.0, 5.5, 6.0, 8.0, 8.3, 9.0, 27.0, 38.0, 40.0] + [rng.uniform(-7, 7) for _ in range(4)]
        pts = [mu + z * s for z in zs]
        ps = scan_pairs(rng, pts, s, 0.5, 10) + [(mu, mu, 0), (mu - s, mu + s, 0), (mu - 45 * s, mu + 45 * s, 0)]
        out.append(Proto(f"gauss {hx(mu)} {hx(s)} {pairs_txt(ps)}", (), ("gauss",)))
    return out


def gen_expo(rng, n):
    out = []
    for _ in range(n):
        m = rng.choice([1.0, logu(rng, 1e-3, 1e3), logu(rng, 1e-12, 1e12)])
        ts = [0.0, 1e-9, 0.01, 0.3, 1.0, 2.0, 5.0, 12.0, 20.0, 30.0, 36.0, 37.5, 40.0, 700.0, 745.0, 800.0] + [rng.uniform(0, 8) for _ in range(3)]
        pts = [t * m for t in ts]
        ps = scan_pairs(rng, pts, m, 0.5, 9) + [(-m, -m / 2, 1), (-m / 3, 0.0, 1), (0.0, m / 3, 1), (NA(0.0, -1.0), 0.0, 0), (-0.0, 0.0, 0), (0.0, NA(0.0, 1.0), 0), (-3 * m, 50 * m, 0)]
        out.append(Proto(f"expo {hx(m)} {pairs_txt(ps)}", (), ("expo",)))
    for m in (0.0, -1.0, -0.0, -1e-300):
        out.append(Proto(f"expo {hx(m)} {pairs_txt([(0.5, 1.0, 0)])}", (), ("expo", "malformed")))
    return out


def gen_mb(rng, n):
    out = []
    for _ in range(n):
        a = rng.choice([1.0, logu(rng, 1e-3, 1e3), logu(rng, 1e-10, 1e10)])
        ts = [0.0, 1e-8, 1e-3, 0.05, 0.3, 1.0, 1.4142, 2.0, 3.0, 4.0, 5.0, 5.6, 6.0, 7.0, 8.5, 12.0, 39.0] + [rng.uniform(0, 6) for _ in range(3)]
        pts = [t * a for t in ts]
        ps = scan_pairs(rng, pts, a, 0.4, 9) + [(-a, -a / 2, 1), (-a / 3, 0.0, 1), (0.0, a / 4, 1), (NA(0.0, -1.0), 0.0, 0), (0.0, NA(0.0, 1.0), 0), (-3 * a, 50 * a, 0)]
        out.append(Proto(f"mb {hx(a)} {pairs_txt(ps)}", (), ("mb",)))
    for a in (0.0, -2.0):
        out.append(Proto(f"mb {hx(a)} {pairs_txt([(0.5, 1.0, 0)])}", (), ("mb", "malformed")))
    return out


def chi_points(rng, dof, extra=4):
    sd = math.sqrt(2 * dof)
    zs = [-6.0, -4.0, -2.0, -1.0, -0.3, 0.0, 0.5, 1.0, 2.0, 3.5, 5.0, 7.0, 9.5, 10.5, 14.0, 45.0] + [rng.uniform(-3, 6) for _ in range(extra)]
    pts = [dof + z * sd for z in zs] + [dof * f for f in (1e-6, 1e-3, 0.05, 0.3)] + [0.1, 1.0, 2.0]
    return [x for x in pts if x > 0], sd


def chi_pairs(rng, dof, k):
    pts, sd = chi_points(rng, dof)
    ps = []
    for _ in range(k):
        a = rng.choice(pts)
        if rng.random() < 0.75:
            h = min(rng.uniform(0.02, 0.3) * sd, 0.3 * a)      # short and away from the singular point 0
            ps.append((a, a + h, 1))
        else:
            b = rng.choice(pts); ps.append((min(a, b), max(a, b), 0))
    ps += [(-1.0, -0.5, 1), (-0.5, 0.0, 0), (NA(0.0, -1.0), 0.0, 0), (0.0, NA(0.0, 1.0), 0), (0.0, min(pts), 0), (-2.0, dof + 50 * sd + 50, 0)]
    return ps


def gen_chi2(rng, n):
    out = []
    fixed = [0.5, 1.0, 1.5, 2.0, 3.0, 4.0, 10.0, 50.0, 100.0, 199.0, 200.0, NA(200.0, 300.0), 201.0, 300.0, 399.5, 400.0]
    for k in range(n):
        dof = fixed[k] if k < len(fixed) else rng.choice([rng.uniform(0.5, 400), logu(rng, 0.5, 400), float(rng.randint(1, 400))])
        ps = chi_pairs(rng, dof, 8)
        calls = [c for lo, hi, f in ps for x in (lo, hi) for c in calls_chi2_pdf(x, dof) + calls_chi2_cdf(x, dof)]
        out.append(Proto(f"chi2 {hx(dof)} {pairs_txt(ps)}", calls, ("chi2",)))
    # the dof-0 conventions and dof below the 1e-6 switch
    for dof in (0.0, 1e-7, NA(1e-6, 0.0), 1e-6, -0.0):
        ps = [(-1.0, -0.5, 0), (0.0, 1.0, 0), (2.0, 30.0, 0)]
        calls = [c for lo, hi, f in ps for x in (lo, hi) for c in calls_chi2_pdf(x, dof) + calls_chi2_cdf(x, dof)]
        out.append(Proto(f"chi2 {hx(dof)} {pairs_txt(ps)}", calls, ("chi2", "dof0")))
    return out


def gen_chibar(rng, n):
    out = []
    for _ in range(n):
        L = rng.choice([1, 2, 3, 4, 5, 6, 8, 12, rng.randint(1, 30)])
        kind = rng.random()
        if kind < 0.4:    # the usual chi-bar-square weights 2^-m C(m,k)
            m = L - 1; w = [math.comb(m, k) / 2.0 ** m for k in range(L)]
        elif kind < 0.8:
            r = [rng.random() if rng.random() < 0.8 else 0.0 for _ in range(L)]; s = sum(r) or 1.0; w = [x / s for x in r]
        elif kind < 0.9:  # sum slightly above one: the clamp
            r = [rng.random() for _ in range(L)]; s = sum(r); w = [x / s * (1 + 1e-3) for x in r]
        else:
            w = [rng.random() / L for _ in range(L)]      # sub-normalised
        top = max(1, L - 1)
        ps = chi_pairs(rng, float(rng.randint(1, top)), 6)
        calls = [c for lo, hi, f in ps for x in (lo, hi) for c in calls_chibar_pdf(x, w) + calls_chibar_cdf(x, w)]
        # GL nodes are evaluated by the harness only; the model does not see them
        out.append(Proto(f"chibar {flist(w)} {pairs_txt(ps)}", calls, ("chibar",)))
    out.append(Proto(f"chibar 0 {pairs_txt([(-1.0, 1.0, 0)])}", (), ("chibar", "empty")))
    return out


def gen_gauss2d(rng, n):
    out = []
    for _ in range(n):
        mx, my = rng.uniform(-5, 5), rng.uniform(-5, 5); sx, sy = logu(rng, 1e-2, 1e2), logu(rng, 1e-2, 1e2)
        x = mx + rng.choice([0.0, rng.uniform(-6, 6), 30.0]) * sx; y = my + rng.choice([0.0, rng.uniform(-6, 6), -30.0]) * sy
        out.append(Proto(f"gauss2d {hx(x)} {hx(y)} {hx(mx)} {hx(my)} {hx(sx)} {hx(sy)}", (), ("gauss2d",)))
    return out


def gen_binomial(rng, n):
    out = []
    for _ in range(n):
        tr = rng.choice([0, 1, 2, 3, 10, 17, 50, 100, 169, 170, rng.randint(0, 170)])
        p = rng.choice([0.0, 1.0, 0.5, 1e-12, 1 - 1e-12, rng.random(), rng.random(), logu(rng, 1e-6, 1.0)])
        k0 = rng.choice([0, max(0, tr - 2), max(0, int(tr * p) - 2), tr, tr + 1, rng.randint(0, tr + 3), rng.randint(0, 500)])
        m = rng.choice([1, 3, 5])
        calls = [c for k in range(k0, k0 + m) for c in calls_binom_pmf(tr, p, k) + calls_binom_cdf(tr, p, k)]
        out.append(Proto(f"binomial {tr} {hx(p)} {k0} {m}", calls, ("binomial",)))
    for p in (-0.1, 1.5, NA(0.0, -1.0), NA(1.0, 2.0)):
        out.append(Proto(f"binomial 5 {hx(p)} 2 1", (), ("binomial", "malformed")))
    return out


def gen_poisson(rng, n):
    out = []
    for _ in range(n):
        mu = rng.choice([0.0, 1e-3, 1.0, 100.0, 1e3, logu(rng, 1e-3, 1e3), logu(rng, 1e-3, 1e3), rng.uniform(90, 110)])
        sd = math.sqrt(mu) + 1
        k0 = rng.choice([0, 0, 1, 97, 98, 99, 100, 496, max(0, int(mu + rng.uniform(-6, 9) * sd)), max(0, int(mu + rng.uniform(-2, 2) * sd)), rng.randint(0, 496)])
        k0 = min(k0, 497)
        m = 4
        calls = [c for k in range(k0, k0 + m) for c in calls_pois_cdf(mu, k)]
        out.append(Proto(f"poisson {hx(mu)} {k0} {m}", calls, ("poisson",)))
    for mu in (-1.0, -1e-300):
        out.append(Proto(f"poisson {hx(mu)} 1 1", (), ("poisson", "malformed")))
    return out


def gen_invpoisson(rng, n):
    out = []
    for _ in range(n):
        k = rng.choice([0, 0, 1, 2, 5, 20, 98, 99, 100, 101, 300, 500, rng.randint(0, 500)])
        c = rng.choice([0.5, 0.9, 0.1, 0.05, 1.0, rng.random(), logu(rng, 1e-6, 1.0), 1 - logu(rng, 1e-6, 1.0)])
        calls = [] if (c < 0 or c > 1 or k == 0) else [("inv_gammaQ", (c, float(u32(k + 1))))]
        out.append(Proto(f"invpoisson {k} {hx(c)}", calls, ("invpoisson",), tol=(1e-12, 0.0)))
    for c in (-0.5, 1.5, NA(1.0, 2.0)):
        out.append(Proto(f"invpoisson 3 {hx(c)}", (), ("invpoisson", "malformed")))
    return out


def gen_quantile(rng, n):
    out = []
    for _ in range(n):
        p = rng.choice([0.5, 0.975, 0.025, 0.84, rng.random(), rng.random(), logu(rng, 1e-15, 0.5), 1 - logu(rng, 1e-15, 0.5), 1.0, 0.0])
        mu = rng.choice([0.0, rng.uniform(-10, 10), rng.choice([-1, 1]) * logu(rng, 1e-3, 1e3)]); s = rng.choice([1.0, logu(rng, 1e-3, 1e3)])
        out.append(Proto(f"quantile {hx(p)} {hx(mu)} {hx(s)}", [("inv_erf", (2.0 * p - 1.0,))], ("quantile",), tol=(1e-12, 0.0)))
    return out


def calls_inv_erf_fn(p):
    """the Find_Root request Inv_Erf makes (none when one of its three guards answers)"""
    if p != p or abs(p - 1.0) < 1e-16 or abs(p + 1.0) < 1e-16 or abs(p) >= 1.0: return []
    return [("find_root", (-10.0, 10.0, 1e-4, -1.0 - p, 0.0 - p, 1.0 - p))]


def gen_inverf(rng, n):
    """Inv_Erf itself (guards at +-1, exit beyond, Find_Root inside) and Quantile_Gauss on top of it, with Find_Root as the only oracle"""
    out = []
    for _ in range(n):
        sg = rng.choice([-1.0, 1.0])
        p = rng.choice([0.0, 0.5, -0.5, rng.uniform(-1, 1), rng.uniform(-1, 1), sg * (1 - logu(rng, 1e-16, 0.5)), sg * logu(rng, 1e-300, 1e-3),
                        sg * NA(1.0, 0.0), sg * NA(NA(1.0, 0.0), 0.0), sg * (1 - 2e-16), sg * (1 - 1e-16)])
        out.append(Proto(f"inverf {hx(p)}", calls_inv_erf_fn(p), ("inverf",), tol=(1e-12, 0.0)))
    for p in (1.0, -1.0):
        out.append(Proto(f"inverf {hx(p)}", (), ("inverf", "end")))
    for p in (NA(1.0, 2.0), -NA(1.0, 2.0), 1.5, -1.5, logu(rng, 1.0, 1e3), -logu(rng, 1.0, 1e3), math.inf, -math.inf):
        out.append(Proto(f"inverf {hx(p)}", (), ("inverf", "malformed")))
    for _ in range(n):
        p = rng.choice([0.5, 0.975, 0.025, rng.random(), rng.random(), logu(rng, 1e-15, 0.5), 1 - logu(rng, 1e-15, 0.5), 1.0, 0.0, NA(1.0, 0.0), 2.0 ** -54, 5e-324])
        mu = rng.choice([0.0, rng.uniform(-10, 10), rng.choice([-1, 1]) * logu(rng, 1e-3, 1e3)]); s = rng.choice([1.0, logu(rng, 1e-3, 1e3)])
        out.append(Proto(f"quantilelib {hx(p)} {hx(mu)} {hx(s)}", calls_inv_erf_fn(2.0 * p - 1.0), ("quantilelib",), tol=(1e-12, 0.0)))
    for p in (-0.25, 1.25, NA(1.0, 2.0), -1e-16, -logu(rng, 1e-15, 1.0), 1 + logu(rng, 1e-15, 1.0)):
        mu = rng.uniform(-10, 10); s = logu(rng, 1e-3, 1e3)
        out.append(Proto(f"quantilelib {hx(p)} {hx(mu)} {hx(s)}", calls_inv_erf_fn(2.0 * p - 1.0), ("quantilelib", "malformed")))
    return out


def lik_count(rng, tot):
    return rng.choice([0, 0, 1, 2, 500, max(0, min(500, int(tot + rng.uniform(-4, 6) * (math.sqrt(tot) + 1)))), rng.randint(0, 500)])


def split_mean(rng, tot):
    """signal and background with s + b = tot (up to rounding): all signal, all background (signal exactly 0.0), a random share,
    or one of the two a geometric ladder 1e-16 .. 1e-3 below the other"""
    r = rng.random()
    if r < 0.25: return 0.0, tot
    if r < 0.45: return tot, 0.0
    if r < 0.75:
        f = rng.random(); s = tot * f; return s, tot - s
    f = 10.0 ** rng.uniform(-16, -3)
    return (tot * f, tot - tot * f) if rng.random() < 0.5 else (tot - tot * f, tot * f)


def lik_mean(rng): return rng.choice([1e-3, 1.0, 1e3, logu(rng, 1e-3, 1e3), logu(rng, 1e-3, 1e3), logu(rng, 1e-3, 1e3)])


def gen_lik(rng, n):
    out = []
    for _ in range(n):
        tot = lik_mean(rng)
        s, b = split_mean(rng, tot)
        out.append(Proto(f"lik {hx(s)} {lik_count(rng, tot)} {hx(b)}", (), ("lik",)))
    for _ in range(max(10, n // 5)):     # the two-argument calls
        tot = lik_mean(rng)
        out.append(Proto(f"lik0 {hx(tot)} {lik_count(rng, tot)}", (), ("lik", "default-argument")))
    return out


def gen_likseq(rng, n):
    """call histories: scans over one argument with the other two held bit-identical, repeated points, A B A"""
    out = []
    for _ in range(n):
        m = rng.choice([2, 2, 3, 4, 6])
        tot = lik_mean(rng); s0, b0 = split_mean(rng, tot); k0 = lik_count(rng, tot)
        kind = rng.choice(["bscan", "bscan", "sscan", "nscan", "aba", "repeat", "random"])
        calls = []
        for j in range(m):
            if kind == "bscan":
                b = b0 if j == 0 else rng.choice([0.0, logu(rng, 1e-3, 1e3), b0 * (1 + 10.0 ** rng.uniform(-16, -1)), NA(b0, math.inf)])
                if not 1e-3 <= s0 + b <= 1e3: b = max(1e-3, min(1e3 - s0, b0 * 0.5 + 1e-3))
                calls.append((s0, k0, b))
            elif kind == "sscan":
                sv = s0 if j == 0 else rng.choice([0.0, logu(rng, 1e-3, 1e3), s0 * (1 + 10.0 ** rng.uniform(-16, -1)), NA(s0, math.inf)])
                if not 1e-3 <= sv + b0 <= 1e3: sv = max(1e-3, min(1e3 - b0, s0 * 0.5 + 1e-3))
                calls.append((sv, k0, b0))
            elif kind == "nscan":
                calls.append((s0, k0 if j == 0 else rng.choice([0, 1, k0 + 1, max(0, k0 - 1), rng.randint(0, 500)]), b0))
            elif kind == "aba":
                if j % 2 == 0: calls.append((s0, k0, b0))
                else:
                    t2 = lik_mean(rng); s2, b2 = split_mean(rng, t2)
                    calls.append(rng.choice([(s0, k0, b2 if s0 + b2 >= 1e-3 else 1.0), (s2 if s2 + b0 >= 1e-3 else 1.0, k0, b0), (s2, lik_count(rng, t2), b2)]))
            elif kind == "repeat": calls.append((s0, k0, b0))
            else:
                t2 = lik_mean(rng); s2, b2 = split_mean(rng, t2); calls.append((s2, lik_count(rng, t2), b2))
        calls = [(sv, k, b) for sv, k, b in calls if 1e-3 <= sv + b <= 1e3 + 1]
        out.append(Proto(f"likseq {len(calls)} " + " ".join(f"{hx(sv)} {k} {hx(b)}" for sv, k, b in calls), (), ("lik", "sequence", kind)))
    return out


# ---- sessions: requests of the likelihood family in one process, including requests outside the property's ranges
def off_range_request(rng, k):
    """a single-bin request (kind, s, k, b) outside the ranges of the property (Poisson means 1e-3..1e3, counts 0..500) that the library
    answers without terminating the process (-inf, NaN, 0, ...): total expectation exactly 0 (nothing predicted at all; signal and
    background cancelling), negative, far below / above the range, non-finite; or a count beyond 500 at an ordinary mean"""
    r = rng.random()
    if r < 0.40:
        x = rng.choice([0.0, 0.0, -0.0, logu(rng, 1e-3, 1e3)])
        s, b = (x, -x) if x != 0 else (x, rng.choice([0.0, -0.0]))
    elif r < 0.60:
        x = -logu(rng, 1e-3, 1e3); s, b = rng.choice([(x, 0.0), (0.0, x), (logu(rng, 1e-3, 1.0) * -x, x), (x, logu(rng, 1e-3, 1.0) * -x)])
    elif r < 0.85:
        x = rng.choice([5e-324, 1e-300, 1e-30, 1e-4, 1e4, 1e30, 1e300, math.inf, math.nan, -math.inf])
        s, b = rng.choice([(x, 0.0), (0.0, x)])
    else:
        tot = lik_mean(rng); s, b = split_mean(rng, tot); k = rng.choice([501, 1000, 5000, k + 501])
    if b == 0 and math.copysign(1.0, b) > 0 and rng.random() < 0.5: return ("L0", s, k, 0.0)
    return ("L", s, k, b)


def in_range_request(rng, k=None):
    tot = lik_mean(rng); s, b = split_mean(rng, tot)
    if k is None: k = lik_count(rng, tot)
    if b == 0 and rng.random() < 0.5: return ("L0", s, k, 0.0)
    return ("L", s, k, b)


def small_histogram(rng, nb=None):
    nb = rng.choice([1, 1, 2, 3, 5]) if nb is None else nb
    s = []; b = []; k = []
    k0 = rng.choice([None, None, rng.randint(0, 12)])        # flat in the counts: neighbouring bins (and the last and first bin) share it
    for _ in range(nb):
        tot = rng.choice([logu(rng, 1e-3, 1e3), logu(rng, 1e-2, 1e1)]); si, bi = split_mean(rng, tot)
        s.append(si); b.append(bi); k.append(k0 if k0 is not None else lik_count(rng, tot))
    return s, k, b


def req_txt(q):
    if q[0] == "L": return f"L {hx(q[1])} {q[2]} {hx(q[3])}"
    if q[0] == "L0": return f"L0 {hx(q[1])} {q[2]}"
    if q[0] == "B": return f"B {flist(q[1])} {ilist(q[2])} {flist(q[3])}"
    return f"B0 {flist(q[1])} {ilist(q[2])}"


STRENGTHS = [0.0, 0.25, 0.5, 1.0, 1.5, 2.0, 3.0, 5.0]


def gen_liksess(rng, n, long_sizes=()):
    out = []
    plans = [(None, None)] * n + [("long", m) for m in long_sizes]
    for plan, m_long in plans:
        kind = rng.choice(["strength-scan", "strength-scan", "binned-strength-scan", "off-range-then-same-count", "off-range-then-same-count",
                           "off-range-mixed", "down-and-up", "mixed", "mixed"]) if plan is None else rng.choice(["off-range-mixed", "strength-scan", "mixed"])
        qs = []
        if kind == "strength-scan":
            # L(mu * s0, k, b) for mu = 0, ... : without background the first point has total expectation 0
            k = rng.choice([0, 1, 2, 3, 7, rng.randint(0, 40), rng.randint(0, 500)]); s0 = logu(rng, 1e-2, 1e2)
            b = rng.choice([0.0, 0.0, 0.0, logu(rng, 1e-3, 1e2)]); call = "L0" if (b == 0 and rng.random() < 0.5) else "L"
            if rng.random() < 0.5: qs.append(in_range_request(rng))        # something else was evaluated before the scan
            mus = STRENGTHS[:rng.randint(3, len(STRENGTHS))] if m_long is None else [8.0 * j / m_long for j in range(m_long)]
            if rng.random() < 0.2: mus = mus[::-1]                           # towards 0
            qs += [(call, mu * s0, k, b) for mu in mus]
        elif kind == "binned-strength-scan":
            s, k, b = small_histogram(rng)
            call = rng.choice(["B0", "Bzero", "B", "B"])
            if rng.random() < 0.5: qs.append(in_range_request(rng))
            for mu in STRENGTHS[:rng.randint(3, len(STRENGTHS))]:
                sm = [mu * x for x in s] if call == "B" else [mu * (x + y) for x, y in zip(s, b)]
                if call == "B0": qs.append(("B0", sm, k))
                elif call == "Bzero": qs.append(("B", sm, k, [0.0] * len(s) if rng.random() < 0.5 else []))
                else: qs.append(("B", sm, k, b))
        elif kind == "off-range-then-same-count":
            # in-range, then an out-of-range request with a new count, then in-range requests with that count (and once more with another)
            for _ in range(rng.choice([1, 1, 2, 3])):
                q0 = in_range_request(rng); qs.append(q0)
                k = rng.choice([2, 3, 5, rng.randint(2, 500), lik_count(rng, lik_mean(rng))])
                qs.append(off_range_request(rng, k))
                qs.append(in_range_request(rng, qs[-1][2] if qs[-1][2] <= 500 else k))
                if rng.random() < 0.5: qs.append(in_range_request(rng, k))
                if rng.random() < 0.3: qs.append(q0)
        elif kind == "off-range-mixed":
            m = rng.randint(3, 12) if m_long is None else m_long
            for _ in range(m):
                r = rng.random()
                if r < 0.45: qs.append(in_range_request(rng, qs[-1][2] if (qs and qs[-1][0] in ("L", "L0") and qs[-1][2] <= 500 and rng.random() < 0.6) else None))
                elif r < 0.75: qs.append(off_range_request(rng, lik_count(rng, lik_mean(rng))))
                elif r < 0.9:
                    s, k, b = small_histogram(rng); qs.append(("B", s, k, b))
                else:
                    # a histogram with bins nothing is predicted in, through the default background (mean 0 in those bins), or no bins at all
                    s, k, b = small_histogram(rng, rng.choice([0, 1, 2, 4]))
                    s = [0.0 if rng.random() < 0.6 else x for x in s]; qs.append(("B0", s, k) if rng.random() < 0.5 else ("B", s, k, []))
        elif kind == "down-and-up":
            k = rng.choice([0, 1, 2, 5, rng.randint(0, 60)]); s0 = logu(rng, 1e-2, 1e2); call = rng.choice(["L", "L0"])
            seq = [2.0, 1.0, 0.5, 0.0, 0.0, 0.5, 1.0, 2.0] if rng.random() < 0.5 else [1.0, 0.0, 1.0, -0.5, 1.0, 0.0, 0.0, 1.0]
            qs.append(in_range_request(rng))
            qs += [(call, mu * s0, k, 0.0) for mu in seq]
        else:
            # in-range only: single-bin and binned requests interleaved, repeated, the same bin through both entry points
            m = rng.randint(2, 10) if m_long is None else m_long
            for _ in range(m):
                r = rng.random()
                if r < 0.35: qs.append(in_range_request(rng))
                elif r < 0.5 and qs: qs.append(rng.choice(qs))
                elif r < 0.65 and qs and qs[-1][0] in ("L", "L0"):
                    q = qs[-1]; qs.append(("B", [q[1]], [q[2]], [q[3]]) if q[0] == "L" else ("B0", [q[1]], [q[2]]))
                else:
                    s, k, b = small_histogram(rng); call = rng.choice(["B", "B", "B0"])
                    qs.append(("B", s, k, b) if call == "B" else ("B0", [x + y for x, y in zip(s, b)], k))
        tags = ("lik", "session", kind) + (("long-run",) if m_long is not None else ())
        out.append(Proto(f"liksess {len(qs)} " + " ".join(req_txt(q) for q in qs), (), tags))
    return out


def gen_binned(rng, n):
    """spectra with bin means s+b in 1e-3..1e3.  Shapes: generic; sparse (most bins carry no signal at all: s = 0.0 exactly, many of them
    empty); background only (every s = 0.0); flat (neighbouring bins share signal and count bit for bit, backgrounds differ); explicit
    all-zero background list (must equal the default); default background (empty list or the two-argument overload)"""
    out = []
    for _ in range(n):
        nb = rng.choice([0, 1, 1, 2, 3, 5, 8, 20])
        shape = rng.choice(["generic", "generic", "sparse", "bgonly", "flat", "zerobg", "default", "default0"])
        s = []; b = []; k = []
        for i in range(nb):
            tot = rng.choice([1e-3, 1e3, logu(rng, 1e-3, 1e3), logu(rng, 1e-3, 1e2), logu(rng, 1e-3, 1e2)])
            if shape in ("zerobg", "default", "default0"): si, bi = tot, 0.0
            elif shape == "bgonly" or (shape == "sparse" and rng.random() < 0.7): si, bi = 0.0, tot
            elif shape == "flat" and i > 0 and rng.random() < 0.7:
                si = s[-1]; bi = max(logu(rng, 1e-3, 1e2), 1e-3 - si)
                if si + bi > 1e3: bi = 0.0 if si >= 1e-3 else 1.0
            else: si, bi = split_mean(rng, tot)
            s.append(si); b.append(bi)
            mu = si + bi
            if shape == "flat" and i > 0 and si == s[-2]: k.append(k[-1])
            else: k.append(0 if rng.random() < 0.35 else min(500, max(0, int(mu + rng.uniform(-2, 3) * (math.sqrt(mu) + 1)))))
        r = rng.random()
        if shape == "default0":
            if r < 0.1: k = k + [1]                    # observed list too long: must exit
            out.append(Proto(f"binned0 {flist(s)} {ilist(k)}", (), ("binned", shape))); continue
        if shape == "default": b = []
        if r < 0.08: b = [1.0] * (nb + 1)              # size mismatch: must exit
        elif r < 0.16:
            b = [0.5] * nb; k = k + [1]                # observed list too long: must exit
        out.append(Proto(f"binned {flist(s)} {ilist(k)} {flist(b)}", (), ("binned", shape)))
    return out


def gen_kde(rng, n, nmax):
    out = []
    for _ in range(n):
        N = rng.choice([1, 2, 3, 4, 6, 7, 9, 10, 30, rng.randint(1, nmax), rng.randint(1, nmax)])
        lo = rng.choice([0.0, rng.uniform(-5, 5)]); width = logu(rng, 0.1, 100); hi = lo + width
        kind = rng.random()
        if kind < 0.4: vals = [lo + width * rng.random() for _ in range(N)]
        elif kind < 0.7: vals = [lo + width * abs(rng.gauss(0, 0.3)) for _ in range(N)]       # piled up at the lower boundary
        else: vals = [lo + width * rng.gauss(0.5, 0.2) for _ in range(N)]
        if N >= 4 and rng.random() < 0.2: vals[1] = vals[0]                                     # a tie (equal weights below)
        ws = [1.0] * N if rng.random() < 0.5 else [rng.uniform(0.2, 3.0) for _ in range(N)]
        if N >= 4 and vals[1] == vals[0]: ws[1] = ws[0]
        sd = (sum((v - sum(vals) / N) ** 2 for v in vals) / N) ** 0.5
        bw = 0.0 if (rng.random() < 0.5 and N >= 2 and sd > width / 50) else width * logu(rng, 0.02, 0.5)
        out.append(Proto(f"kde {N} " + " ".join(f"{hx(v)} {hx(w)}" for v, w in zip(vals, ws)) + f" {hx(lo)} {hx(hi)} {hx(bw)}", (), ("kde",)))
    # kernels that are narrow compared with the window (bandwidth below window/40, manual or automatic on concentrated samples)
    for _ in range(max(4, n // 5)):
        N = rng.choice([1, 2, 3, 5, 12]); lo = 0.0; width = logu(rng, 0.5, 20); hi = lo + width
        c = lo + width * rng.uniform(0.05, 0.95)
        if rng.random() < 0.6:
            vals = [lo + width * rng.random() for _ in range(N)]; bw = width * logu(rng, 1e-4, 0.024)
        else:
            N = max(N, 3); vals = [c + width * 0.004 * rng.gauss(0, 1) for _ in range(N)]; bw = 0.0
        out.append(Proto(f"kde {N} " + " ".join(f"{hx(v)} {hx(1.0)}" for v in vals) + f" {hx(lo)} {hx(hi)} {hx(bw)}", (), ("kde", "narrow")))
    # windows far from the origin compared with their width (time stamps, energies above a threshold, ...): the ratio |offset| / width runs
    # over a geometric ladder 1e1 .. 1e12, both signs, window widths 1e-6 .. 1e6; automatic (also through the default argument) or manual bandwidth
    for _ in range(n):
        N = rng.choice([2, 3, 4, 6, 8, 9, 10, 30, rng.randint(2, nmax)])
        width = rng.choice([1.0, 30.0, logu(rng, 1e-6, 1e6)])
        ratio = 10.0 ** rng.uniform(1, 12)
        lo = rng.choice([-1.0, 1.0]) * ratio * width
        if rng.random() < 0.15: lo, width = 1.7e9 + rng.uniform(0, 1e7), rng.choice([30.0, 3600.0, 0.25])
        hi = lo + width; width = hi - lo
        kind = rng.random()
        if kind < 0.4: us = [rng.random() for _ in range(N)]
        elif kind < 0.7: us = [abs(rng.gauss(0, 0.3)) for _ in range(N)]
        else: us = [rng.gauss(0.5, 0.2) for _ in range(N)]
        vals = [lo + width * u for u in us]
        ws = [1.0] * N if rng.random() < 0.5 else [rng.uniform(0.2, 3.0) for _ in range(N)]
        if len(set(vals)) < N: ws = [1.0] * N          # equal values carry equal weights (std::sort's order of ties is unspecified)
        mean = math.fsum(vals) / N; sd = math.sqrt(math.fsum((v - mean) ** 2 for v in vals) / N)
        data = " ".join(f"{hx(v)} {hx(w)}" for v, w in zip(vals, ws))
        if rng.random() < 0.7 and sd > width / 50:
            if rng.random() < 0.5: out.append(Proto(f"kde {N} {data} {hx(lo)} {hx(hi)} {hx(0.0)}", (), ("kde", "offset")))
            else: out.append(Proto(f"kde0 {N} {data} {hx(lo)} {hx(hi)}", (), ("kde", "offset", "default-argument")))
        else:
            out.append(Proto(f"kde {N} {data} {hx(lo)} {hx(hi)} {hx(width * logu(rng, 0.03, 0.5))}", (), ("kde", "offset")))
    # a common factor on all weights (1e-100 .. 1e100) and the call without a bandwidth argument near the origin
    for _ in range(max(4, n // 4)):
        N = rng.choice([2, 3, 5, 9, 12]); lo = rng.choice([0.0, rng.uniform(-5, 5)]); width = logu(rng, 0.1, 100); hi = lo + width
        vals = [lo + width * rng.gauss(0.5, 0.2) for _ in range(N)]
        f = 10.0 ** rng.uniform(-100, 100); ws = [f * rng.uniform(0.2, 3.0) for _ in range(N)]
        data = " ".join(f"{hx(v)} {hx(w)}" for v, w in zip(vals, ws))
        mean = math.fsum(vals) / N; sd = math.sqrt(math.fsum((v - mean) ** 2 for v in vals) / N)
        if sd > width / 50 and rng.random() < 0.6: out.append(Proto(f"kde0 {N} {data} {hx(lo)} {hx(hi)}", (), ("kde", "weight-scale", "default-argument")))
        else: out.append(Proto(f"kde {N} {data} {hx(lo)} {hx(hi)} {hx(width * logu(rng, 0.03, 0.5))}", (), ("kde", "weight-scale")))
    # windows so far out that the 150 abscissae are not distinct doubles: the Interpolation constructor must refuse the table
    for e in (16.5, 18.0):
        lo = 10.0 ** e; hi = lo * (1 + 2.0 ** -50)
        out.append(Proto(f"kde 2 {hx(lo)} {hx(1.0)} {hx(hi)} {hx(1.0)} {hx(lo)} {hx(hi)} {hx((hi - lo) / 3)}", (), ("kde", "degenerate-window")))
    # automatic bandwidth on samples without spread
    out.append(Proto(f"kde 1 {hx(0.5)} {hx(1.0)} {hx(0.0)} {hx(1.0)} {hx(0.0)}", (), ("kde", "zero-variance")))
    out.append(Proto(f"kde 3 {hx(0.25)} {hx(1.0)} {hx(0.25)} {hx(2.0)} {hx(0.25)} {hx(1.0)} {hx(0.0)} {hx(1.0)} {hx(0.0)}", (), ("kde", "zero-variance")))
    return out


def gen_kde_far(rng, n, nmax):
    """windows whose distance from the origin is 1e8 .. 1e12 window widths (the upper decades of what double abscissae can resolve with
    150 tabulation points): time stamps with sub-second windows, narrow windows around a large dyadic or decimal value, unit windows
    at 1e9 .. 1e12, both signs; samples uniform / piled up at the lower edge / central; weights; manual and automatic bandwidth"""
    out = []
    for i in range(n):
        N = rng.choice([2, 3, 5, 8, 10, 12, 30, rng.randint(2, nmax)])
        ratio = 10.0 ** (8 + 4 * ((i + rng.random()) / n))                  # a ladder over the four decades
        form = rng.choice(["stamp", "dyadic", "decimal", "random"])
        if form == "stamp":
            lo = 1.7e9 + rng.randint(0, 10 ** 7) + rng.choice([0.0, 0.5, rng.random()]); width = 2.0 ** round(math.log2(lo / ratio))
        elif form == "dyadic":
            lo = 2.0 ** rng.randint(-20, 60); width = 2.0 ** round(math.log2(lo / ratio))
        elif form == "decimal":
            width = rng.choice([1.0, 1e-3, 30.0]); lo = float(round(ratio)) * width
        else:
            width = logu(rng, 1e-6, 1e6); lo = ratio * width
        if rng.random() < 0.3: lo = -lo - width
        hi = lo + width; width = hi - lo
        if not (width > 0 and abs(lo) / width <= 1.001e12): continue
        kind = rng.random()
        if kind < 0.4: us = [rng.random() for _ in range(N)]
        elif kind < 0.7: us = [abs(rng.gauss(0, 0.3)) for _ in range(N)]
        else: us = [rng.gauss(0.5, 0.2) for _ in range(N)]
        vals = [lo + width * u for u in us]
        ws = [1.0] * N if rng.random() < 0.5 else [rng.uniform(0.2, 3.0) for _ in range(N)]
        if len(set(vals)) < N: ws = [1.0] * N          # equal values carry equal weights (std::sort's order of ties is unspecified)
        mean = math.fsum(vals) / N; sd = math.sqrt(math.fsum((v - mean) ** 2 for v in vals) / N)
        data = " ".join(f"{hx(v)} {hx(w)}" for v, w in zip(vals, ws))
        tags = ("kde", "offset", "far", form)
        if rng.random() < 0.5 and sd > width / 20:
            if rng.random() < 0.5: out.append(Proto(f"kde {N} {data} {hx(lo)} {hx(hi)} {hx(0.0)}", (), tags))
            else: out.append(Proto(f"kde0 {N} {data} {hx(lo)} {hx(hi)}", (), tags + ("default-argument",)))
        else:
            out.append(Proto(f"kde {N} {data} {hx(lo)} {hx(hi)} {hx(width * logu(rng, 0.04, 0.5))}", (), tags))
    return out


# ------------------------------------------------------------------ sizes of the container arguments
# Every list the library receives (histogram bins, KDE samples, chi-bar weights) and every run of calls in one process is also driven at
# sizes far beyond the handful of elements of the streams above: a geometric ladder 2^k - 1, 2^k, 2^k + 1 (the block / buffer / unrolling
# sizes an implementation may use internally, both sides of each), round decimal sizes and random sizes in between.
def size_ladder(lo, hi):
    v = set(2 ** k + d for k in range(3, 16) for d in (-1, 0, 1)) | {100, 300, 1000, 3000, 10000}
    return sorted(x for x in v if lo <= x <= hi)


def sizes(rng, n, lo, hi):
    """n sizes in lo..hi: the ladder in shuffled order (all of it when n allows), then log-uniform random sizes"""
    lad = size_ladder(lo, hi); rng.shuffle(lad)
    out = lad[:n]
    while len(out) < n: out.append(int(round(logu(rng, lo, hi))))
    return out


def gen_binned_large(rng, n, cap):
    """histograms with 31 .. cap bins, bin means s+b in 1e-3..1e3, counts 0..500.  Shapes: low statistics (means 1e-3..0.3, counts 0/1/2:
    the likelihood itself stays representable, so the product clause is evaluated too); generic; sparse; constant (every bin identical
    bit for bit); each through the explicit background, the all-zero background, the empty list and the two-argument overload;
    a few requests whose lists differ in length by one (must exit)"""
    out = []
    for nb in sizes(rng, n, 31, cap):
        shape = rng.choice(["lowstat", "lowstat", "generic", "sparse", "constant"])
        call = rng.choice(["explicit", "explicit", "zerobg", "default", "default0"])
        s = []; b = []; k = []
        if shape == "constant":
            tot = logu(rng, 1e-3, 20.0); s0, b0 = split_mean(rng, tot); k0 = lik_count(rng, tot) if rng.random() < 0.5 else 0
        for i in range(nb):
            if shape == "constant": si, bi, ki = s0, b0, k0
            else:
                if shape == "lowstat": tot = logu(rng, 1e-3, 0.3)
                else: tot = rng.choice([logu(rng, 1e-3, 1e3), logu(rng, 1e-3, 1e1), logu(rng, 1e-3, 1e1)])
                if shape == "sparse" and rng.random() < 0.7: si, bi = 0.0, tot
                else: si, bi = split_mean(rng, tot)
                if shape == "lowstat":
                    u = rng.random(); ki = 0 if u < math.exp(-tot) else (1 if u < math.exp(-tot) * (1 + tot) else 2)
                else: ki = 0 if rng.random() < 0.3 else min(500, max(0, int(tot + rng.uniform(-2, 3) * (math.sqrt(tot) + 1))))
            if call != "explicit": si, bi = si + bi, 0.0
            s.append(si); b.append(bi); k.append(ki)
        r = rng.random()
        tags = ("binned", "many-bins", shape, call)
        if call == "default0":
            if r < 0.08: k = k + [0]
            out.append(Proto(f"binned0 {flist(s)} {ilist(k)}", (), tags)); continue
        if call == "default": b = []
        if r < 0.05: b = b + [1.0] if b else [1.0] * (nb - 1)
        elif r < 0.10: k = k[:-1]
        out.append(Proto(f"binned {flist(s)} {ilist(k)} {flist(b)}", (), tags))
    return out


def gen_likseq_long(rng, n, cap):
    """long runs of single-bin likelihood calls in one process (33 .. cap calls): scans of one argument, a repeated point, random points"""
    out = []
    for m in sizes(rng, n, 33, cap):
        kind = rng.choice(["bscan", "nscan", "repeat", "random", "aba"])
        tot = lik_mean(rng); s0, b0 = split_mean(rng, tot); k0 = lik_count(rng, tot)
        t1 = lik_mean(rng); s1, b1 = split_mean(rng, t1); k1 = lik_count(rng, t1)
        calls = []
        for j in range(m):
            if kind == "bscan": calls.append((s0, k0, max(0.0, min(1e3 - s0, logu(rng, 1e-3, 1e3))) if j else b0))
            elif kind == "nscan": calls.append((s0, (k0 + j) % 501, b0))
            elif kind == "repeat": calls.append((s0, k0, b0))
            elif kind == "aba": calls.append((s0, k0, b0) if j % 2 == 0 else (s1, k1, b1))
            else:
                t2 = lik_mean(rng); s2, b2 = split_mean(rng, t2); calls.append((s2, lik_count(rng, t2), b2))
        calls = [(sv, k, b) for sv, k, b in calls if 1e-3 <= sv + b <= 1e3 + 1]
        out.append(Proto(f"likseq {len(calls)} " + " ".join(f"{hx(sv)} {k} {hx(b)}" for sv, k, b in calls), (), ("lik", "sequence", "long-run", kind)))
    return out


def gen_kde_large(rng, n, cap):
    """63 .. cap weighted samples; windows near the origin and far from it; automatic (also through the default argument) and manual bandwidth"""
    out = []
    for N in sizes(rng, n, 63, cap):
        width = rng.choice([1.0, 30.0, logu(rng, 1e-3, 1e3)])
        lo = rng.choice([0.0, rng.uniform(-5, 5) * width, rng.choice([-1.0, 1.0]) * 10.0 ** rng.uniform(1, 9) * width])
        hi = lo + width; width = hi - lo
        kind = rng.random()
        if kind < 0.35: us = [rng.random() for _ in range(N)]
        elif kind < 0.6: us = [abs(rng.gauss(0, 0.3)) for _ in range(N)]
        elif kind < 0.8: us = [rng.gauss(0.5, 0.2) for _ in range(N)]
        else: us = [rng.gauss(0.3, 0.08) if rng.random() < 0.6 else rng.gauss(0.75, 0.05) for _ in range(N)]     # two populations
        vals = [lo + width * u for u in us]
        ws = [1.0] * N if rng.random() < 0.5 else [rng.uniform(0.2, 3.0) for _ in range(N)]
        if len(set(vals)) < N: ws = [1.0] * N          # equal values carry equal weights (std::sort's order of ties is unspecified)
        data = " ".join(f"{hx(v)} {hx(w)}" for v, w in zip(vals, ws))
        r = rng.random()
        if r < 0.35: out.append(Proto(f"kde {N} {data} {hx(lo)} {hx(hi)} {hx(0.0)}", (), ("kde", "many-samples")))
        elif r < 0.7: out.append(Proto(f"kde0 {N} {data} {hx(lo)} {hx(hi)}", (), ("kde", "many-samples", "default-argument")))
        else: out.append(Proto(f"kde {N} {data} {hx(lo)} {hx(hi)} {hx(width * logu(rng, 0.03, 0.5))}", (), ("kde", "many-samples")))
    return out


def gen_chibar_large(rng, n, cap):
    """weight vectors with 31 .. cap entries (component degrees of freedom up to cap - 1 <= 400)"""
    out = []
    for L in sizes(rng, n, 31, cap):
        kind = rng.random()
        if kind < 0.4:
            m = L - 1; w = [math.comb(m, k) / 2.0 ** m for k in range(L)]
        elif kind < 0.8:
            r = [rng.random() if rng.random() < 0.8 else 0.0 for _ in range(L)]; sm = sum(r) or 1.0; w = [x / sm for x in r]
        elif kind < 0.9:
            r = [rng.random() for _ in range(L)]; sm = sum(r); w = [x / sm * (1 + 1e-3) for x in r]
        else: w = [rng.random() / L for _ in range(L)]
        ps = chi_pairs(rng, float(rng.choice([1, L // 2, L - 1, rng.randint(1, L - 1)])), 3)
        calls = [c for lo, hi, f in ps for x in (lo, hi) for c in calls_chibar_pdf(x, w) + calls_chibar_cdf(x, w)]
        out.append(Proto(f"chibar {flist(w)} {pairs_txt(ps)}", calls, ("chibar", "many-weights")))
    return out


def gen_scale_ladder(rng, n):
    """scale families (normal mu/sigma, exponential mean, Maxwell-Boltzmann a, uniform limits): the scale parameter over 12 decades
    (exact powers of ten and log-uniform 1e-6..1e6) combined with the REDUCED argument z = (x - location)/scale on a log ladder from 1e-8
    (two rungs per decade, jittered) up into the far tail; at every rung a short flagged interval [z, z(1+d)] (d in 0.02..1, at most 0.4 wide
    in reduced units), so that 'CDF difference = integral of the density' is evaluated relative to the difference itself at every magnitude
    of the reduced argument, and the sorted rungs give the monotonicity of the CDF across every decade of z for every decade of the scale"""
    out = []
    def scale(): return 10.0 ** rng.randint(-6, 6) if rng.random() < 0.5 else logu(rng, 1e-6, 1e6)
    def rungs(zmax):
        zs = []; e = -8.0
        while 10.0 ** e < zmax:
            zs.append(min(zmax, 10.0 ** (e + rng.uniform(0, 0.5)))); e += 0.5
        return zs
    def pairs(zs): return [(z, z + min(rng.choice([0.02, 0.1, 0.3, 1.0, rng.uniform(0.02, 1.0)]) * z, 0.4)) for z in zs]
    for _ in range(n):
        s = scale()
        ps = [(lo * s, hi * s, 1) for lo, hi in pairs(rungs(45.0))] + [(0.0, 10.0 ** rng.uniform(-8, -1) * s, 1)]
        out.append(Proto(f"mb {hx(s)} {pairs_txt(ps)}", (), ("mb", "scale-ladder")))
        s = scale()
        ps = [(lo * s, hi * s, 1) for lo, hi in pairs(rungs(800.0))] + [(0.0, 10.0 ** rng.uniform(-8, -1) * s, 1)]
        out.append(Proto(f"expo {hx(s)} {pairs_txt(ps)}", (), ("expo", "scale-ladder")))
        s = scale(); mu = rng.choice([0.0, 0.0, s * rng.uniform(-3, 3), rng.choice([-1, 1]) * logu(rng, 1e-3, 1e3) * s])
        ps = []
        for lo, hi in pairs(rungs(40.0)):
            ps.append((mu + lo * s, mu + hi * s, 1) if rng.random() < 0.5 else (mu - hi * s, mu - lo * s, 1))
        ps = [(a, b, f) for a, b, f in ps if a < b]
        out.append(Proto(f"gauss {hx(mu)} {hx(s)} {pairs_txt(ps)}", (), ("gauss", "scale-ladder")))
        w = scale(); a = rng.choice([0.0, 0.0, w * rng.uniform(-3, 3), -w / 2]); b = a + w
        if not b > a: continue
        w = b - a; ps = []
        for lo, hi in pairs(rungs(1.0)):
            q = (a + lo * w, min(b, a + hi * w), 1) if rng.random() < 0.5 else (max(a, b - hi * w), b - lo * w, 1)
            if a <= q[0] < q[1] <= b: ps.append(q)
        out.append(Proto(f"uniform {hx(a)} {hx(b)} {pairs_txt(ps)}", (), ("uniform", "scale-ladder")))
    return out


def gen_whole_support(rng, n):
    """the mass functions over their whole range of counts in one run of calls: Poisson k = 0..500, binomial k = 0..trials+1"""
    out = []
    for _ in range(n):
        mu = rng.choice([1e-3, 1.0, 1e3, logu(rng, 1e-3, 1e3), logu(rng, 1.0, 1e3)])
        out.append(Proto(f"poisson {hx(mu)} 0 501", [c for k in range(501) for c in calls_pois_cdf(mu, k)], ("poisson", "whole-support")))
        tr = rng.choice([170, 169, 128, 100, 64, rng.randint(20, 170)]); p = rng.choice([0.5, rng.random(), logu(rng, 1e-6, 1.0), 1 - logu(rng, 1e-6, 1.0)])
        calls = [c for k in range(tr + 2) for c in calls_binom_pmf(tr, p, k)]
        out.append(Proto(f"binomial {tr} {hx(p)} 0 {tr + 2}", calls, ("binomial", "whole-support")))
    return out


def generate(rng, tier):
    big = tier != "quick"
    f = 12 if big else 1
    protos = []
    protos += gen_uniform(rng, 60 * f)
    protos += gen_gauss(rng, 60 * f)
    protos += gen_expo(rng, 50 * f)
    protos += gen_mb(rng, 50 * f)
    protos += gen_chi2(rng, 70 * f)
    protos += gen_chibar(rng, 40 * f)
    protos += gen_gauss2d(rng, 40 * f)
    protos += gen_binomial(rng, 150 * f)
    protos += gen_poisson(rng, 200 * f)
    protos += gen_invpoisson(rng, 150 * f)
    protos += gen_quantile(rng, 150 * f)
    protos += gen_lik(rng, 200 * f)
    protos += gen_likseq(rng, 80 * f)
    protos += gen_binned(rng, 160 * f)
    protos += gen_kde(rng, 40 * (4 if big else 1), 150 if big else 60)
    # container sizes / lengths of call runs (drawn after the streams above, which keep their cases for a given seed)
    protos += gen_binned_large(rng, 120 if big else 30, 20000 if big else 4200)
    protos += gen_likseq_long(rng, 40 if big else 6, 5000 if big else 1100)
    protos += gen_kde_large(rng, 40 if big else 10, 2100 if big else 520)
    protos += gen_chibar_large(rng, 30 if big else 5, 401)
    protos += gen_whole_support(rng, 12 if big else 2)
    # sessions with requests outside the ranges; windows far from the origin (third pass; drawn last for the same reason)
    protos += gen_liksess(rng, 90 * f, sizes(rng, 12 if big else 3, 33, 3000 if big else 600))
    protos += gen_kde_far(rng, 120 if big else 24, 150 if big else 40)
    # Inv_Erf with Find_Root as the oracle (fourth pass; drawn last)
    protos += gen_inverf(rng, 60 * f)
    # scale x reduced-argument ladders of the four scale families (seventh pass; drawn last)
    protos += gen_scale_ladder(rng, 25 * f)
    return resolve(protos)


# ------------------------------------------------------------------ comparison (model vs implementation)
def compare(c, io, mo, tol):
    """the implementation prints S4-only tokens after '|'; the KDE table is compared up to one common factor"""
    head = io.split(" |")[0].strip() if "|" in io else io
    op = c.line.split()[0]
    if op in ("kde", "kde0") and not head.startswith(("EXIT", "CRASH", "TIMEOUT", "SANITIZER")) and not mo.startswith(("EXIT", "OOB", "FUEL", "MODELERR")):
        a = parse_vals(head); b = parse_vals(mo)
        if len(a) != len(b) or a[0] != b[0]: return False, False, "kde: different table lengths"
        ya, yb = a[1:], b[1:]
        k = max(range(len(yb)), key=lambda i: abs(yb[i]) if yb[i] == yb[i] else -1)
        if any(x != x or x in (math.inf, -math.inf) for x in ya):
            # the library divided by a normalisation of 0 (or NaN): the factor is infinite; 0*inf = NaN, positive*inf = inf
            ok = all((y != y and x != x) or (y == 0 and x != x) or (y > 0 and (x == math.inf or x != x or x > 0)) for x, y in zip(ya, yb))
            return ok, False, "" if ok else "kde: infinite normalisation factor but inconsistent pattern"
        s = ya[k] / yb[k]
        for j, (x, y) in enumerate(zip(ya, yb)):
            if not abs(x - s * y) <= 1e-11 * abs(s * yb[k]) * 1e-3 + 1e-11 * abs(s * y):
                return False, False, f"kde ordinate {j}: impl {x!r} vs factor*model {s*y!r}"
        return True, False, ""
    return compare_lines(head, mo, tol)


# ------------------------------------------------------------------ S4 predicates
def _acc(a):
    """a-priori accuracy of GammaP/GammaQ(x,a): series / continued fraction run to machine precision times
    exp(-x + a ln x - ln Gamma(a)) (exponent terms up to ~1500, 64 eps each: 1e-11); for a > 100 the quadrature branch
    (Integrate with 1e-5 times a one-panel Simpson estimate) is granted 1e-3, the accuracy property C06 states for it"""
    return 1e-11 if a <= 100 else 1e-3


def _split(io):
    if "|" in io:
        h, e = io.split("|", 1)
        return parse_vals(h), parse_vals(e)
    return parse_vals(io), []


def _tail_z(q):
    """z with upper-tail probability 0.5 erfc(z/sqrt2) = q, by bisection (independent reference); q <= 0 gives the end of Inv_Erf's bracket"""
    if q <= 0: return 10 * math.sqrt(2)
    lo, hi = -40.0, 40.0
    for _ in range(200):
        m = (lo + hi) / 2
        if 0.5 * math.erfc(m / math.sqrt(2)) > q: lo = m
        else: hi = m
    return (lo + hi) / 2


def _z_window(p, dp):
    """[z_lo, z_hi]: standard normal quantiles of p -+ dp, computed on the tail probability so that p near 1 keeps its precision"""
    if p >= 0.5:
        q = 1 - p      # exact
        return _tail_z(q + dp), _tail_z(q - dp)
    return -_tail_z(p - dp), -_tail_z(p + dp)


def pred_scan(op, t, head, extra, out):
    # parameters and pairs
    k = 1
    if op == "uniform": par = [tokf(t[1]), tokf(t[2])]; k = 3
    elif op == "gauss": par = [tokf(t[1]), tokf(t[2])]; k = 3
    elif op in ("expo", "mb", "chi2"): par = [tokf(t[1])]; k = 2
    else:
        nw = int(t[1]); par = [tokf(x) for x in t[2:2 + nw]]; k = 2 + nw
    np_ = int(t[k]); ps = [(tokf(t[k + 1 + 3 * i]), tokf(t[k + 2 + 3 * i]), int(t[k + 3 + 3 * i])) for i in range(np_)]
    if len(head) != 4 * np_: out.append((op + ":shape", f"expected {4*np_} values, got {len(head)}")); return
    # accuracy of the CDF values
    br = ""     # signature suffix: the quadrature branch of GammaP (a = dof/2 > 100) has its own known finding
    if op == "chi2": acc = _acc(par[0] / 2); br = ":a>100" if par[0] / 2 > 100 else ""
    elif op == "chibar": acc = _acc((len(par) - 1) / 2) if len(par) > 1 else 1e-15
    else: acc = 4 * EPS

    def rslack(x):
        """rounding slack of one CDF value (DESIGN 5.3: 64 eps * sum of the magnitudes of the terms that are added)"""
        if op == "mb" and x > 0: return 64 * EPS * min(2.0, 1.6 * x / par[0])     # erf(x/sqrt2/a) - sqrt(2/pi) x/a exp(..): both terms ~ 0.8 x/a
        return 0.0
    pts = []
    gi = 0
    for i, (lo, hi, fl) in enumerate(ps):
        pl, cl, ph, ch = head[4 * i:4 * i + 4]
        pts += [(lo, pl, cl), (hi, ph, ch)]
        if fl:
            nodes = extra[gi:gi + 8]; gi += 8
            if len(nodes) == 8 and all(isinstance(v, float) for v in nodes):
                h = (hi - lo) / 2
                integ = h * math.fsum(w * v for w, v in zip(GLW, nodes))
                # slack: accuracy of the two CDF values + 1e-9 relative for the quadrature and the density's own rounding;
                # normal: the nodes x are rounded to ulp(x), which moves z = (x-mu)/sigma by eps*|x|/sigma and the density by (|z|+1) times that
                rel = 1e-9
                if op == "gauss": rel += 16 * EPS * (abs(par[0]) + abs(hi)) / par[1] * (abs(hi - par[0]) / par[1] + 1)
                clamped = op == "chibar" and (ch == 1.0 or cl == 1.0) and math.fsum(par) > 1 - 1e-12
                # absolute part: families whose CDF is formed against a term of size 1 (1 - exp, 0.5 (1 + erf), the gamma functions) carry an absolute
                # error of a few eps however small the value; Maxwell-Boltzmann is a difference of two terms of size 0.8 x/a (rslack: 64 eps times their
                # sum) and has no absolute error of its own: 8 eps relative to the two values for the remaining operations.  So the comparison is
                # relative to the difference itself wherever the formula allows it, at every magnitude of x/a
                base = 8 * EPS * (abs(cl) + abs(ch)) if op == "mb" else 2 * acc + 4 * EPS
                if not clamped and not abs((ch - cl) - integ) <= base + rel * abs(integ) + rslack(lo) + rslack(hi):
                    out.append((op + ":cdf-difference" + br, f"CDF({hi!r}) - CDF({lo!r}) = {ch-cl!r} but the integral of the density over the interval is {integ!r} (parameters {par[:4]})"))
                if any(not v >= 0 for v in nodes): out.append((op + ":pdf-nonneg", f"density negative or NaN inside [{lo!r},{hi!r}]"))
    for x, p, c in pts:
        if not p >= 0: out.append((op + ":pdf-nonneg", f"density {p!r} at x = {x!r} (parameters {par[:4]})"))
        if not (-rslack(x) <= c <= 1): out.append((op + ":cdf-range" + br, f"CDF = {c!r} at x = {x!r} is outside [0,1] (parameters {par[:4]})"))
    srt = sorted(pts, key=lambda q: q[0])
    for (x1, _, c1), (x2, _, c2) in zip(srt, srt[1:]):
        if x1 < x2 and not c2 >= c1 - (2 * acc if acc > 4 * EPS else 0.0) - rslack(x1) - rslack(x2):
            out.append((op + ":cdf-monotone" + br, f"CDF decreases from {c1!r} at {x1!r} to {c2!r} at {x2!r} (parameters {par[:4]})"))
        if x1 == x2 and c1 != c2 and not (x1 == 0 and c1 == c2):
            out.append((op + ":cdf-function", f"CDF takes two values {c1!r}, {c2!r} at {x1!r}"))
    # limits: 0 far to the left, 1 far to the right (the generator includes such points)
    for x, p, c in pts:
        if op == "uniform":
            a, b = par
            if x <= a and c != 0: out.append((op + ":cdf-lower-limit", f"CDF({x!r}) = {c!r} below the support [{a!r},{b!r}]"))
            if x >= b and c != 1: out.append((op + ":cdf-upper-limit", f"CDF({x!r}) = {c!r} above the support [{a!r},{b!r}]"))
            if (x < a or x > b) and p != 0: out.append((op + ":pdf-support", f"density {p!r} outside the support at {x!r}"))
            if a <= x <= b and not abs(p * (b - a) - 1) <= 8 * EPS: out.append((op + ":pdf-value", f"density {p!r} is not 1/(x_max-x_min) at {x!r}"))
        elif op == "gauss":
            mu, s = par; z = (x - mu) / s
            if z <= -39 and c != 0: out.append((op + ":cdf-lower-limit", f"CDF = {c!r} at {z} sigma"))
            if z >= 9 and c != 1: out.append((op + ":cdf-upper-limit", f"CDF = {c!r} at {z} sigma"))
            if x == mu and c != 0.5: out.append((op + ":cdf-median", f"CDF(mu) = {c!r}"))
            ref = 0.5 * math.erfc(-z / math.sqrt(2))
            if abs(z) < 30 and not abs(c - ref) <= 8 * EPS + 1e-13 * abs(z) * ref: out.append((op + ":cdf-value", f"CDF = {c!r} at z = {z!r}, reference {ref!r}"))
        elif op in ("expo", "mb"):
            if x < 0 and (c != 0 or p != 0): out.append((op + ":support", f"density {p!r} / CDF {c!r} at negative x = {x!r}"))
            if op == "expo" and x >= 40 * par[0] and not c >= 1 - 1e-15: out.append((op + ":cdf-upper-limit", f"CDF({x!r}) = {c!r} far in the tail"))
            if op == "expo" and x == 0 and not (c == 0 and abs(p * par[0] - 1) <= 4 * EPS): out.append((op + ":boundary", f"at x = 0: density {p!r}, CDF {c!r}"))
            if op == "mb" and x >= 9 * par[0] and not c >= 1 - 1e-15: out.append((op + ":cdf-upper-limit", f"CDF({x!r}) = {c!r} far in the tail"))
            if op == "mb" and x == 0 and not (c == 0 and p == 0): out.append((op + ":boundary", f"at x = 0: density {p!r}, CDF {c!r}"))
        elif op == "chi2":
            dof = par[0]
            if x < 0 and (c != 0 or p != 0): out.append((op + ":support", f"density {p!r} / CDF {c!r} at negative x = {x!r}"))
            if abs(dof) < 1e-6:
                if x >= 0 and c != 1: out.append((op + ":dof0", f"CDF({x!r}, dof {dof!r}) = {c!r}, convention is 1"))
                if p != 0: out.append((op + ":dof0", f"PDF({x!r}, dof {dof!r}) = {p!r}, convention is 0"))
            else:
                if x >= dof + 40 * math.sqrt(2 * dof) + 40 and not c >= 1 - acc: out.append((op + ":cdf-upper-limit" + br, f"CDF({x!r}, {dof!r}) = {c!r} far in the tail"))
                if x > 0 and dof >= 1e-6:
                    lg = -dof / 2 * math.log(2) - math.lgamma(dof / 2) + (dof / 2 - 1) * math.log(x) - x / 2
                    mag = abs(dof / 2 * math.log(2)) + abs(math.lgamma(dof / 2)) + abs((dof / 2 - 1) * math.log(x)) + x / 2
                    ref = math.exp(lg) if lg < 700 else math.inf
                    if ref > 1e-300 and not abs(p - ref) <= (64 * EPS * mag + 1e-13) * ref: out.append((op + ":pdf-value", f"PDF({x!r}, {dof!r}) = {p!r}, reference {ref!r}"))
        elif op == "chibar":
            w = par; sw = math.fsum(w)
            if x < 0 and (c != 0 or p != 0): out.append((op + ":support", f"density {p!r} / CDF {c!r} at negative x = {x!r}"))
            L = len(w)
            if L and x >= L + 40 * math.sqrt(2 * L) + 40 and not abs(c - min(1.0, sw)) <= acc + 8 * EPS * L:
                out.append((op + ":cdf-upper-limit", f"CDF({x!r}) = {c!r} far in the tail, weights sum to {sw!r}"))
            if L and x == 0 and not abs(c - min(1.0, w[0])) <= 4 * EPS: out.append((op + ":dof0", f"CDF(0) = {c!r}, the dof-0 weight is {w[0]!r}"))


def _kde_unnormalised_scale(vals, wts, xmin, bw, xs, ys):
    """the factor by which Perform_KDE divided its table: the kernel sum (with the Cowling-Hall pseudo data) before normalisation at the
    abscissa of the largest returned ordinate, divided by that ordinate"""
    try:
        k = max(range(len(ys)), key=lambda i: ys[i]); x = xs[k]
        d = sorted(zip(vals, wts)); N = len(d); sw = math.fsum(wts)
        acc = []
        for i, (v, w) in enumerate(d):
            acc.append(w * math.exp(-0.5 * ((x - v) / bw) ** 2))
            if i < int(N / 3.0):
                xp = 4.0 * xmin - 6.0 * v + 4.0 * d[2 * i][0] - d[3 * i][0]; wp = (w + d[2 * i][1] + d[3 * i][1]) / 3.0
                acc.append(wp * math.exp(-0.5 * ((x - xp) / bw) ** 2))
        pre = math.fsum(acc) / math.sqrt(2 * math.pi) / (bw * sw)
        return pre / ys[k] if ys[k] > 0 and pre > 0 else None
    except (OverflowError, ZeroDivisionError, ValueError):
        return None


def _requested_quadrature(xs, ys, mids, quarters, xmin, xmax, scale):
    """Integrate(f, xmin, xmax, 1e-8 / scale) by the adaptive Simpson rule of Integration.cpp (bisection, acceptance |S2 - S| <= 15 eps,
    eps halved per level, Richardson step, 20 levels), f = the returned estimate given by five ordinates on each of its cubic segments.
    The rule is homogeneous: on the table before normalisation (f * scale) with 1e-8 it returns scale times this value."""
    if scale is None or len(quarters) != 2 * (len(xs) - 1) or not all(isinstance(v, float) for v in quarters): return None
    import bisect
    n = len(xs)

    budget = [400000]

    def f(x):
        budget[0] -= 1
        if budget[0] < 0: raise ValueError
        j = min(max(bisect.bisect_right(xs, x) - 1, 0), n - 2)
        h = xs[j + 1] - xs[j]
        xn = (xs[j], xs[j] + h / 4, xs[j] + h / 2, xs[j] + 0.75 * h, xs[j + 1])
        yn = (ys[j], quarters[2 * j], mids[j], quarters[2 * j + 1], ys[j + 1])
        u = x - xs[j]; un = [a - xs[j] for a in xn]
        if len(set(un)) < 5: raise ValueError
        tot = 0.0
        for i in range(5):
            li = 1.0
            for m in range(5):
                if m != i: li *= (u - un[m]) / (un[i] - un[m])
            tot += yn[i] * li
        return tot

    def rec(a, b, eps, S, fa, fb, fc, bottom):
        c = (a + b) / 2; h = b - a; d = (a + c) / 2; e = (b + c) / 2
        fd = f(d); fe = f(e)
        Sl = (h / 12) * (fa + 4 * fd + fc); Sr = (h / 12) * (fc + 4 * fe + fb); S2 = Sl + Sr
        if bottom <= 0 or abs(S2 - S) <= 15 * eps: return S2 + (S2 - S) / 15
        return rec(a, c, eps / 2, Sl, fa, fc, fd, bottom - 1) + rec(c, b, eps / 2, Sr, fc, fb, fe, bottom - 1)
    try:
        a, b = xmin, xmax; c = (a + b) / 2; h = b - a
        fa, fb, fc = f(a), f(b), f(c)
        return rec(a, b, 1e-8 / scale, (h / 6) * (fa + 4 * fc + fb), fa, fb, fc, 20)
    except (ValueError, ZeroDivisionError, OverflowError, RecursionError):
        return None


def _parse_session(t):
    """requests of a liksess line: (kind, s, n, b) for L / L0 (b = 0.0), (kind, S, N, B) for B / B0 (B = [])"""
    m = int(t[1]); i = 2; qs = []
    for _ in range(m):
        kind = t[i]; i += 1
        if kind in ("L", "L0"):
            sv = tokf(t[i]); n = int(t[i + 1]); i += 2
            b = 0.0
            if kind == "L": b = tokf(t[i]); i += 1
            qs.append((kind, sv, n, b))
        else:
            ns = int(t[i]); S = [tokf(x) for x in t[i + 1:i + 1 + ns]]; i += 1 + ns
            no = int(t[i]); N = [int(x) for x in t[i + 1:i + 1 + no]]; i += 1 + no
            B = []
            if kind == "B":
                nb = int(t[i]); B = [tokf(x) for x in t[i + 1:i + 1 + nb]]; i += 1 + nb
            qs.append((kind, S, N, B))
    return qs


def _req_show(q):
    if q[0] == "L": return f"Log_Likelihood_Poisson({q[1]!r}, {q[2]}, {q[3]!r})"
    if q[0] == "L0": return f"Log_Likelihood_Poisson({q[1]!r}, {q[2]})"
    if q[0] == "B": return f"Log_Likelihood_Poisson_Binned({q[1][:4]}{'...' if len(q[1]) > 4 else ''}, {q[2][:4]}, {q[3][:4]})"
    return f"Log_Likelihood_Poisson_Binned({q[1][:4]}{'...' if len(q[1]) > 4 else ''}, {q[2][:4]})"


def predicates(c, io):
    out = []
    t = c.line.split(); op = t[0]
    if "@" in t: t = t[:t.index("@")]
    if io.startswith(("CRASH", "SANITIZER", "TIMEOUT", "HARNESSERR")): return out
    exited = io.startswith("EXIT")
    head, extra = ([], []) if exited else _split(io)
    if op in ("uniform", "gauss", "expo", "mb", "chi2", "chibar"):
        bad = (op == "expo" and not tokf(t[1]) > 0) or (op == "mb" and not tokf(t[1]) > 0)
        if bad:
            if not exited: out.append((op + ":guard", f"non-positive parameter {tokf(t[1])!r} was accepted"))
        elif exited: out.append((op + ":exit", "a well-formed request terminated the process"))
        else: pred_scan(op, t, head, extra, out)
    elif op == "gauss2d":
        if exited: return [(op + ":exit", "terminated the process")]
        p, px, py = head[0], extra[0], extra[1]
        if not p >= 0: out.append((op + ":pdf-nonneg", f"density {p!r}"))
        # both are exp(-(u+v)) resp. exp(-u) exp(-v) times prefactors: 64 eps times the exponent's magnitude
        lg = abs(math.log(px * py)) if px * py > 0 else 750.0
        if not abs(p - px * py) <= 64 * EPS * (lg + 1) * px * py + 1e-320: out.append((op + ":factorises", f"PDF_Gauss_2D = {p!r} but the product of the two 1-D densities is {px*py!r}"))
    elif op == "binomial":
        n, p, k0, m = int(t[1]), tokf(t[2]), int(t[3]), int(t[4])
        if p < 0 or p > 1:
            if not exited: out.append((op + ":guard", f"p = {p!r} was accepted"))
            return out
        if exited: return [(op + ":exit", "a well-formed request terminated the process")]
        prev = None
        for i in range(m):
            k = k0 + i; pm, cd = head[2 * i], head[2 * i + 1]
            if not pm >= 0: out.append((op + ":pmf-nonneg", f"PMF({n},{p!r},{k}) = {pm!r}"))
            if k > n and pm != 0: out.append((op + ":pmf-support", f"PMF({n},{p!r},{k}) = {pm!r} beyond the number of trials"))
            if k <= n:
                ref = float(Fraction(math.comb(n, k)) * Fraction(p) ** k * Fraction(1 - p) ** (n - k)) if n <= 60 else math.comb(n, k) * p ** k * (1 - p) ** (n - k)
                # p^k or (1-p)^(n-k) may underflow (below 5e-324) before the multiplication by C(n,k): absolute floor C(n,k) * 1e-323
                if not abs(pm - ref) <= 1e-12 * ref + math.comb(n, k) * 1e-323: out.append((op + ":pmf-value", f"PMF({n},{p!r},{k}) = {pm!r}, reference {ref!r}"))
            if not (0 <= cd <= 1 + 1e-12): out.append((op + ":cdf-range", f"CDF({n},{p!r},{k}) = {cd!r}"))
            if k >= n and not abs(cd - 1) <= 1e-12: out.append((op + ":sums-to-one", f"CDF({n},{p!r},{k}) = {cd!r}, the masses should sum to one"))
            if k == 0 and cd != pm: out.append((op + ":cdf-sum", f"CDF(0) = {cd!r} but PMF(0) = {pm!r}"))
            if prev is not None:
                if cd != prev + pm: out.append((op + ":cdf-sum", f"CDF({k}) = {cd!r} but CDF({k-1}) + PMF({k}) = {prev+pm!r}"))
                if cd < prev: out.append((op + ":cdf-monotone", f"CDF decreases from {prev!r} to {cd!r} at k = {k}"))
            prev = cd
    elif op == "poisson":
        mu, k0, m = tokf(t[1]), int(t[2]), int(t[3])
        if mu < 0:
            if not exited: out.append((op + ":guard", f"mean {mu!r} was accepted"))
            return out
        if exited: return [(op + ":exit", "a well-formed request terminated the process")]
        prev = None
        for i in range(m):
            k = k0 + i; pm, cd = head[2 * i], head[2 * i + 1]; acc = _acc(k + 1)
            if not pm >= 0: out.append((op + ":pmf-nonneg", f"PMF({mu!r},{k}) = {pm!r}"))
            if mu == 0: ref = 1.0 if k == 0 else 0.0; mag = 0
            else:
                mag = abs(k * math.log(mu)) + mu + math.lgamma(k + 1); ref = math.exp(k * math.log(mu) - mu - math.lgamma(k + 1))
            if not abs(pm - ref) <= (64 * EPS * mag + 1e-14) * ref + 1e-320: out.append((op + ":pmf-value", f"PMF({mu!r},{k}) = {pm!r}, e^-mu mu^k/k! = {ref!r}"))
            if not (0 <= cd <= 1): out.append((op + ":cdf-range", f"CDF({mu!r},{k}) = {cd!r}"))
            if k == 0 and not abs(cd - pm) <= acc: out.append((op + ":cdf-sum", f"CDF({mu!r},0) = {cd!r} but PMF = {pm!r}"))
            if prev is not None:
                if not abs((cd - prev) - pm) <= acc + _acc(k): out.append((op + ":cdf-sum", f"CDF({mu!r},{k}) - CDF({mu!r},{k-1}) = {cd-prev!r} but PMF({k}) = {pm!r}"))
                if not cd >= prev - (acc + _acc(k) if k + 1 > 100 else 0.0) and not cd >= prev - 4 * EPS: out.append((op + ":cdf-monotone", f"CDF({mu!r},.) decreases from {prev!r} to {cd!r} at k = {k}"))
            if k >= mu + 40 * math.sqrt(mu) + 40 and not cd >= 1 - acc: out.append((op + ":cdf-upper-limit", f"CDF({mu!r},{k}) = {cd!r} far in the tail"))
            prev = cd
    elif op == "invpoisson":
        n, cc = int(t[1]), tokf(t[2])
        if cc < 0 or cc > 1:
            if not exited: out.append((op + ":guard", f"cdf value {cc!r} was accepted"))
            return out
        if exited: return [(op + ":exit", "a well-formed request terminated the process")]
        mu, back = head[0], extra[0]
        if cc > 0:
            if not mu >= 0: out.append((op + ":range", f"Inv_CDF_Poisson({n},{cc!r}) = {mu!r}"))
            # Inv_GammaP's stated accuracy (Halley iteration to 1e-8 relative in x on a P accurate to _acc): 1e-7, and 1e-3 through the quadrature branch
            tol = (1e-7 if n + 1 <= 100 else 1e-3) if n > 0 else 4 * EPS * max(1.0, abs(math.log(cc)))
            if not abs(back - cc) <= tol: out.append((op + ":inverts", f"CDF_Poisson(Inv_CDF_Poisson({n},{cc!r}) = {mu!r}, {n}) = {back!r}"))
    elif op == "inverf":
        p = tokf(t[1])
        if abs(p) > 1:
            if not exited: out.append((op + ":guard", f"Inv_Erf({p!r}) = {head[0]!r} was answered although |p| > 1"))
            return out
        if exited: return [(op + ":exit", f"Inv_Erf({p!r}) terminated the process")]
        e, back = head[0], extra[0]
        if abs(p) == 1:
            if e != 10.0 * p: out.append((op + ":ends", f"Inv_Erf({p!r}) = {e!r}, the stated convention is {10.0*p!r}"))
        else:
            # a sign change of the double function erf(x) - p is bracketed to 1e-4 in x; erf' <= 2/sqrt(pi); libm's erf is accurate to an ulp
            if not abs(back - p) <= 2 / math.sqrt(math.pi) * 1e-4 + 4 * EPS: out.append((op + ":inverts", f"erf(Inv_Erf({p!r}) = {e!r}) = {back!r}"))
            if not (-10.0 <= e <= 10.0) or (p != 0 and e != 0 and (e > 0) != (p > 0) and abs(e) > 1e-4): out.append((op + ":range", f"Inv_Erf({p!r}) = {e!r}"))
    elif op in ("quantile", "quantilelib"):
        p, mu, s = tokf(t[1]), tokf(t[2]), tokf(t[3])
        if op == "quantilelib" and (2.0 * p - 1.0 > 1 or 2.0 * p - 1.0 < -1):
            if not exited: out.append((op + ":guard", f"Quantile_Gauss({p!r},..) = {head[0]!r} was answered although p lies outside [0,1]"))
            return out
        if op == "quantilelib" and p in (0.0, 1.0) and not exited:
            want = mu + math.sqrt(2.0) * s * (10.0 if p == 1.0 else -10.0)
            if head[0] != want: out.append((op + ":ends", f"Quantile_Gauss({p!r},{mu!r},{s!r}) = {head[0]!r}, the stated convention is {want!r}"))
        if 0 < p < 1:
            if exited: return [(op + ":exit", "a well-formed request terminated the process")]
            q, back = head[0], extra[0]
            # Inv_Erf brackets a sign change of the double function erf(x) - (2p-1) to 1e-4 in x.  A priori: the argument 2p-1 is
            # rounded (2^-54) and libm's erf is accurate to one ulp (2^-53 near +-1), together at most 2^-53 in p
            dp = 2.0 ** -53
            zlo, zhi = _z_window(p, dp)
            qlo = mu + s * zlo; qhi = mu + s * zhi
            slack = math.sqrt(2) * s * 1e-4 + 8 * EPS * (abs(mu) + 12 * s)
            if not (qlo - slack <= q <= qhi + slack): out.append((op + ":inverts", f"Quantile_Gauss({p!r},{mu!r},{s!r}) = {q!r}, the quantile lies in [{qlo!r},{qhi!r}], allowed distance {slack!r}"))
            if not abs(back - p) <= 0.4 * math.sqrt(2) * 1e-4 + 8 * EPS * abs(mu) / s * 0.4 + 4 * dp: out.append((op + ":inverts-cdf", f"CDF_Gauss(Quantile_Gauss({p!r})) = {back!r}"))
    elif op in ("lik", "lik0", "likseq"):
        if exited: return [(op + ":exit", "terminated the process")]
        if op == "lik": calls = [(tokf(t[1]), int(t[2]), tokf(t[3]))]
        elif op == "lik0": calls = [(tokf(t[1]), int(t[2]), 0.0)]
        else: calls = [(tokf(t[2 + 3 * i]), int(t[3 + 3 * i]), tokf(t[4 + 3 * i])) for i in range(int(t[1]))]
        if len(head) != 2 * len(calls) or len(extra) != len(calls): return [(op + ":shape", f"expected {2*len(calls)} + {len(calls)} values")]
        for i, (s, n, b) in enumerate(calls):
            ll, lk, pm = head[2 * i], head[2 * i + 1], extra[i]; mu = s + b
            where = "" if op != "likseq" else f" (call {i+1} of {len(calls)} in one process)"
            mag = abs(n * math.log(mu)) + mu + math.lgamma(n + 1)
            # independent reference: ln(e^-mu mu^n / n!)
            ref = n * math.log(mu) - mu - math.lgamma(n + 1)
            if not abs(lk - math.exp(ll)) <= 4 * EPS * lk: out.append((op + ":exp-of-log", f"Likelihood = {lk!r} but exp(Log_Likelihood) = {math.exp(ll)!r}{where}"))
            if not abs(lk - pm) <= (64 * EPS * mag + 8 * EPS) * pm + 1e-320: out.append((op + ":is-pmf", f"Likelihood_Poisson({s!r},{n},{b!r}) = {lk!r} but PMF_Poisson(s+b, n) = {pm!r}{where}"))
            if pm > 1e-300 and not abs(ll - math.log(pm)) <= 64 * EPS * mag + 8 * EPS: out.append((op + ":is-log-pmf", f"Log_Likelihood = {ll!r} but ln PMF_Poisson(s+b, n) = {math.log(pm)!r}{where}"))
            if not abs(ll - ref) <= 64 * EPS * mag + 8 * EPS: out.append((op + ":is-log-pmf", f"Log_Likelihood_Poisson({s!r},{n},{b!r}) = {ll!r} but ln(e^-mu mu^n / n!) at mu = s+b is {ref!r}{where}"))
    elif op == "liksess":
        qs = _parse_session(t)
        bad = [q for q in qs if q[0] in ("B", "B0") and (len(q[2]) != len(q[1]) or (len(q[3]) != len(q[1]) and len(q[3]) != 0))]
        if bad:
            if not exited: out.append((op + ":guard", "a binned request with lists of different sizes was accepted"))
            return out
        if exited: return [(op + ":exit", "a session of well-formed requests terminated the process")]
        if len(head) != 2 * len(qs): return [(op + ":shape", f"expected {2*len(qs)} values, got {len(head)}")]
        for i, q in enumerate(qs):
            ll, lk = head[2 * i], head[2 * i + 1]
            bins = [(q[1], q[2], q[3])] if q[0] in ("L", "L0") else list(zip(q[1], q[2], q[3] if q[3] else [0.0] * len(q[1])))
            # clauses are evaluated on the requests inside the property's ranges (every bin mean in 1e-3..1e3, every count in 0..500)
            if not bins or not all(1e-3 <= x + y <= 1001.0 and 0 <= k <= 500 for x, k, y in bins): continue
            refs = []; slack = 0.0
            for x, k, y in bins:
                mu = x + y
                refs.append(k * math.log(mu) - mu - math.lgamma(k + 1))
                slack += 64 * EPS * (abs(k * math.log(mu)) + mu + math.lgamma(k + 1)) + 8 * EPS
            ref = math.fsum(refs)
            if len(bins) > 1: slack += 4 * EPS * (len(bins) + 1) * math.fsum(abs(x) for x in refs)
            prev = "first request of the session" if i == 0 else f"request {i+1} of {len(qs)}, asked right after {_req_show(qs[i-1])}"
            if not abs(ll - ref) <= slack:
                out.append((op + ":is-log-pmf", f"{_req_show(q)} returned the log-likelihood {ll!r} but the sum over the bins of ln PMF_Poisson(s+b, n) is {ref!r} ({prev})"))
            if not abs(lk - math.exp(ref)) <= (slack + 4 * EPS) * math.exp(ref) + 1e-320 + (len(bins) + 1) * 5e-324:
                out.append((op + ":is-pmf", f"{_req_show(q)} returned the likelihood {lk!r} but the product over the bins of PMF_Poisson(s+b, n) is {math.exp(ref)!r} ({prev})"))
            if not abs(lk - math.exp(ll)) <= 4 * EPS * lk: out.append((op + ":exp-of-log", f"{_req_show(q)}: likelihood {lk!r} but exp(log-likelihood) = {math.exp(ll)!r} ({prev})"))
    elif op in ("binned", "binned0"):
        ns = int(t[1]); no = int(t[2 + ns]); nb = int(t[3 + ns + no]) if op == "binned" else 0
        if no != ns or (nb != ns and nb != 0):
            if not exited: out.append((op + ":guard", f"lists of sizes {ns}, {no}, {nb} were accepted"))
            return out
        if exited: return [(op + ":exit", "a well-formed request terminated the process")]
        ll, lk = head[0], head[1]; lls = extra[0::2]; lks = extra[1::2]
        sm = math.fsum(lls); mag = math.fsum(abs(x) for x in lls)
        if not abs(ll - sm) <= 4 * EPS * (ns + 1) * mag: out.append((op + ":sum", f"binned log-likelihood {ll!r} is not the sum of the bins' {sm!r}"))
        pr = 1.0
        for x in lks: pr *= x
        # a partial product in the subnormal range is rounded to a multiple of 2^-1074 and the remaining factors are <= 1: 2^-1074 per bin
        if not abs(lk - pr) <= (8 * EPS * (ns + 1) * (mag + 1)) * pr + 1e-320 + (ns + 1) * 5e-324: out.append((op + ":product", f"binned likelihood {lk!r} is not the product of the bins' {pr!r}"))
        if not abs(lk - math.exp(ll)) <= 4 * EPS * lk: out.append((op + ":exp-of-log", f"binned likelihood {lk!r} is not exp of the binned log-likelihood"))
        # independent reference: sum over the bins of ln(e^-mu mu^n / n!) at mu = s_i + b_i (bins with mu > 0)
        sg = [tokf(x) for x in t[2:2 + ns]]; ob = [int(x) for x in t[3 + ns:3 + ns + no]]
        bg = [tokf(x) for x in t[4 + ns + no:4 + ns + no + nb]] if nb else [0.0] * ns
        if all(x + y > 0 for x, y in zip(sg, bg)):
            refs = []; slack = 0.0
            for x, k, y in zip(sg, ob, bg):
                mu = x + y
                refs.append(k * math.log(mu) - mu - math.lgamma(k + 1))
                slack += 64 * EPS * (abs(k * math.log(mu)) + mu + math.lgamma(k + 1)) + 8 * EPS
            ref = math.fsum(refs); slack += 4 * EPS * (ns + 1) * math.fsum(abs(x) for x in refs)
            if not abs(ll - ref) <= slack:
                out.append((op + ":is-log-pmf", f"binned log-likelihood {ll!r} but the sum over the bins of ln PMF_Poisson(s_i+b_i, n_i) is {ref!r} (signals {sg[:6]}, counts {ob[:6]}, backgrounds {bg[:6]})"))
            if not abs(lk - math.exp(ref)) <= (slack + 4 * EPS) * math.exp(ref) + 1e-320:
                out.append((op + ":is-pmf", f"binned likelihood {lk!r} but the product over the bins of PMF_Poisson(s_i+b_i, n_i) is {math.exp(ref)!r}"))
    elif op in ("kde", "kde0"):
        N = int(t[1]); xmin, xmax = tokf(t[2 + 2 * N]), tokf(t[3 + 2 * N]); bw = tokf(t[4 + 2 * N]) if op == "kde" else 0.0
        op = "kde"
        pts = 150; dx = (xmax - xmin) / (pts - 1); xs = [xmin + j * dx for j in range(pts)]
        if any(not b > a for a, b in zip(xs, xs[1:])): return out      # abscissae that are not distinct doubles: refused (model: Exit), nothing to evaluate
        if exited: return [(op + ":exit", "a well-formed request terminated the process")]
        vals = [tokf(x) for x in t[2:2 + 2 * N:2]]; wts = [tokf(x) for x in t[3:3 + 2 * N:2]]
        if bw == 0:      # the rule-of-thumb bandwidth
            sw = math.fsum(wts); av = math.fsum(w * v for v, w in zip(vals, wts)) / sw
            bw = math.sqrt(max(0.0, math.fsum(w * (v - av) ** 2 for v, w in zip(vals, wts)) / sw)) * (4.0 / 3.0 / N) ** 0.2
        # regions with their own known findings: zero bandwidth; kernels so narrow (6 bandwidths < 1/8 window) that the
        # five starting abscissae of the normalising quadrature can all miss them
        region = ":zero-variance" if bw == 0 else (":narrow-bandwidth" if abs(bw) < (xmax - xmin) / 40 else "")
        pts = head[0]; ys = head[1:]; mids = extra[:pts - 1]; libint = extra[pts - 1]
        if any(not y >= 0 for y in ys) or any(not y >= 0 for y in mids):
            out.append((op + ":nonneg" + region, f"the estimate is negative or NaN somewhere in the window (min {min(ys + mids)!r}, bandwidth {bw!r})")); return out
        # each segment of the returned interpolant is a cubic: Simpson's rule with the mid-segment ordinate is exact
        integ = math.fsum((xs[j + 1] - xs[j]) / 6 * (ys[j] + 4 * mids[j] + ys[j + 1]) for j in range(pts - 1))
        # normalisation by Integrate(..., 1e-8) (absolute) of an integral of order 0.01..2: 1e-6 relative
        # requested: Integrate(..., 1e-8) absolute on an integral of order 0.01..2, i.e. 1e-6 relative.  Beyond it the clause fails;
        # the signature separates the regions: narrow kernels (the quadrature can miss the peaks altogether), an inaccurate
        # quadrature (error up to 1e-2: the adaptive Simpson error estimate is unreliable on the C1 interpolant), and a plain loss of normalisation
        # Far from the origin the abscissae exist only to ulp(x): the normalising quadrature samples the interpolant at bisection points
        # (a+b)/2 that are rounded by up to ulp/2, so each accepted Simpson panel [a,b] errs by up to 4/6 (b-a) |f'| ulp/2; summed over the
        # panels: ulp/3 times the total variation of the estimate, times 17/15 for the Richardson step; granted: ulp/2 * total variation
        # (relative to the integral 1; 1e-21 near the origin, 1e-4 at |x|/width = 1e12 where the grid step is only 30 ulp)
        seq = [ys[0]]
        for j in range(pts - 1): seq += [mids[j], ys[j + 1]]
        if not max(seq) < 1e300: far_norm = math.inf
        else: far_norm = 0.5 * math.ulp(max(abs(xmin), abs(xmax))) * math.fsum(abs(b - a) for a, b in zip(seq, seq[1:])) / max(integ, 1e-300)
        err = abs(integ - 1)
        if not err <= 1e-6 + far_norm:
            # K-C07-1, second part: with kernels of ordinary width the adaptive Simpson rule that normalises the estimate (requested accuracy
            # 1e-8) now and then accepts a panel too early and the estimate integrates to 1 +- 1e-6 .. 1e-3.  A deviation gets the signature
            # of that finding only if it IS that rule's error: the rule, re-run here on the returned estimate with the tolerance scaled like
            # the estimate, must return 1.  Any other loss of normalisation keeps the plain signature.
            sig = op + ":normalised" + region
            if not region and err <= 1e-2:
                q = _requested_quadrature(xs, ys, mids, extra[pts:pts + 2 * (pts - 1)], xmin, xmax, _kde_unnormalised_scale(vals, wts, xmin, bw, xs, ys))
                if q is not None and abs(q - 1) <= 1e-9: sig += ":quadrature-accuracy"
            out.append((sig, f"the estimate integrates to {integ!r} over its window [{xmin!r}, {xmax!r}] (bandwidth {bw!r}, window width {xmax-xmin!r}, "
                             f"|xmin|/width {abs(xmin)/(xmax-xmin):.3g}, rounding allowance {1e-6 + far_norm:.3g})"))
        # Interpolation::Integrate differences the segment antiderivatives ... + d_j * x taken at the two segment ends: two numbers of
        # magnitude |y_j x_j| each rounded a few times (8 eps), per segment; negligible near the origin, eps * |x| / width far from it
        if not max(seq) < 1e300: return out
        far = 8 * EPS * math.fsum(max(abs(ys[j]), abs(ys[j + 1])) * max(abs(xs[j]), abs(xs[j + 1])) for j in range(pts - 1))
        if not abs(libint - integ) <= 1e-9 * max(1.0, abs(integ)) + far: out.append((op + ":integral", f"Interpolation::Integrate gives {libint!r}, exact Simpson on the cubic segments {integ!r}"))
    return out


def nontrivial(c, io):
    t = c.line.split(); op = t[0]
    if "@" in t: t = t[:t.index("@")]
    if io.startswith("EXIT"): return True
    if io.startswith(("CRASH", "TIMEOUT", "SANITIZER", "HARNESSERR")): return False
    head, extra = _split(io)
    if op in ("uniform", "gauss", "expo", "mb", "chi2", "chibar"):
        cds = head[1::2]
        if any(isinstance(x, float) and (0 < x < 1e-6 or 1 - 1e-6 < x < 1) for x in cds): return True
        return op in ("chi2",) and tokf(t[1]) >= 40
    if op == "binomial": return int(t[1]) >= 17 or int(t[3]) + int(t[4]) > int(t[1])
    if op == "poisson": return tokf(t[1]) >= 100 or tokf(t[1]) == 0 or int(t[2]) >= 50 or any(0 < x < 1e-6 or 1 - 1e-6 < x < 1 for x in head[1::2])
    if op == "invpoisson": return int(t[1]) >= 50 or int(t[1]) == 0 or not (1e-6 < tokf(t[2]) < 1 - 1e-6)
    if op in ("quantile", "quantilelib"): return not (1e-6 < tokf(t[1]) < 1 - 1e-6)
    if op == "inverf": return not (abs(tokf(t[1])) < 1 - 1e-6)
    if op == "lik": return int(t[2]) >= 50 or tokf(t[1]) + tokf(t[3]) >= 100 or tokf(t[1]) == 0
    if op == "lik0": return int(t[2]) >= 50 or tokf(t[1]) >= 100
    if op == "likseq": return int(t[1]) >= 2
    if op in ("binned", "binned0"): return int(t[1]) >= 2
    if op == "liksess": return int(t[1]) >= 2
    if op in ("kde", "kde0"): return int(t[1]) >= 3
    if op == "gauss2d": return head[0] < 1e-6
    return False
