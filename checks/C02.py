"""C02 — Find_Root (Ridder's method): root of a bracketed function to the requested accuracy."""
import math
from vcheck import Case, hx, tokf

PID = "C02"
EPS = 2.0 ** -53
RULE = ("one case = one call Find_Root(f,a,b,acc) (op both: the two orders of the bracket ends); non-trivial = at least 3 Ridder "
        "iterations with at least 2 different re-bracketing cases taken (deduced from the evaluation trace: the next midpoint "
        "identifies which of the three re-bracketing branches ran); distinct by case text")
LEVEL_TEXT = ("Theorems (Coq, over the reals, for an arbitrary objective function f unless stated): the result does not depend on the order of "
              "the bracket ends; the loop invariant (f1*f2<0, bracket inside the original one, each new bracket inside the previous and at "
              "most half as wide, midpoint and Ridder point inside the closed bracket); every evaluation abscissa lies in [min(a,b),max(a,b)]; "
              "opposite signs at the ends always yield a number inside the bracket (the 'does not reach the root' exit is unreachable); "
              "a bracket end that is a zero is returned as is; no sign change exits; NaN at an end exits (abstract instance); linear functions "
              "are solved exactly by the first Ridder point; ACCURACY at full strength: every returned x is an exact zero of f, or an end of a "
              "bracket [u,v] with f(u)f(v)<0 and v-u < acc, or (iteration-limit return, 2200 iterations) an end of such a bracket of width <= 2^-2200 of the original; "
              "with the IVT, a continuous f has a zero within acc (resp. 2^-2200 of the width) of x; Ridder's point lies strictly inside the bracket, so the clamp the code applies to it is the identity in exact arithmetic; the end test Sign(fl)*Sign(fr) >= 0 is fl*fr >= 0 and the scaled step (function values divided by the largest of the three magnitudes) is Ridder's step (step_eq). Not theorems: statements about IEEE rounding "
              "(on doubles the clamp is active when rounding pushes Ridder's point past a bracket end; function values from 1e-300 to 1e300, brackets wider than the largest double and midpoints that are exact roots are generated): covered by running the extracted "
              "model against the C++ code on every run (result, warning flag, full evaluation trace, bit for bit) and by evaluating every clause on "
              "the implementation's output (S4).")
LEVEL_NOTE = ("Coq 8.16.1 kernel; standard-library real-number axioms (listed in the evidence); nan_end_exits is axiom-free. Hand-written model tied by "
              "differential correspondence (extraction with ExtrOcamlBasic only); Sign(double)/Sign(double,double) are Num.v's sign1/sign2; "
              "std::isnan is the abstract predicate nisnan (constantly false on R).")
TOL = (1e-12, 1e-300)
TRUSTED = ["the objective functions are prefix expressions evaluated by harness/common.hpp and ocaml/common.ml with the same libm; S4 re-evaluates them in Python (math module = the same libm)",
           "the maximum-iteration return is observed as the text 'Iterations exceed the maximum' on the library's stdout"]
ASSUMPTIONS = ["accuracy on doubles is checked (S4) as: min f <= 0 <= max f over {x-acc, x, x+acc (clamped to the bracket)} and the evaluated abscissae within acc of x"]


# ---------------------------------------------------------------- fexpr evaluation in Python (independent of harness / model)
def _div(a, b):
    try: return a / b
    except ZeroDivisionError:
        if a != a or a == 0: return math.nan
        return math.copysign(math.inf, a) * math.copysign(1.0, b)
def _wrap(fn):
    def g(a):
        try: return fn(a)
        except ValueError: return math.nan
        except OverflowError: return math.inf
    return g
def _pow(a, c):
    try: return math.pow(a, c)
    except ValueError: return math.nan
    except OverflowError: return math.inf if not (a < 0 and c == int(c) and int(c) % 2 == 1) else -math.inf
def _log(a):
    if a == 0: return -math.inf
    try: return math.log(a)
    except ValueError: return math.nan
_UN = {"neg": lambda a: -a, "exp": _wrap(math.exp), "log": _log, "sin": _wrap(math.sin), "cos": _wrap(math.cos), "atan": math.atan,
       "erf": math.erf, "cosh": _wrap(math.cosh), "tanh": math.tanh, "abs": abs, "sqrt": _wrap(math.sqrt),
       "step": lambda a: 1.0 if a >= 0.0 else 0.0}


def parse_fexpr(t, i):
    """tokens, index -> (python function of x, next index)"""
    o = t[i]
    if o == "x": return (lambda x: x), i + 1
    if o == "c":
        c = tokf(t[i + 1]); return (lambda x: c), i + 2
    if len(o) == 1 and o in "+-*/":
        f, j = parse_fexpr(t, i + 1); g, k = parse_fexpr(t, j)
        if o == "+": return (lambda x: f(x) + g(x)), k
        if o == "-": return (lambda x: f(x) - g(x)), k
        if o == "*": return (lambda x: _mul(f(x), g(x))), k
        return (lambda x: _div(f(x), g(x))), k
    if o == "pow":
        f, j = parse_fexpr(t, i + 1); c = tokf(t[j]); return (lambda x: _pow(f(x), c)), j + 1
    if o == "pwl":
        n = int(t[i + 1]); px = [tokf(t[i + 2 + 2 * k]) for k in range(n)]; py = [tokf(t[i + 3 + 2 * k]) for k in range(n)]
        f, j = parse_fexpr(t, i + 2 + 2 * n)
        def pw(x):
            a = f(x); k = 0
            while k + 2 < n and a >= px[k + 1]: k += 1
            return py[k] + (a - px[k]) * ((py[k + 1] - py[k]) / (px[k + 1] - px[k]))
        return pw, j
    if o in _UN:
        f, j = parse_fexpr(t, i + 1); u = _UN[o]; return (lambda x: u(f(x))), j
    raise ValueError("fexpr op " + o)
def _mul(a, b): return a * b


# ---------------------------------------------------------------- generators
def C(v): return "c " + hx(v)
def line(op, a, b, acc, fam, params, fx):
    return f"{op} {hx(a)} {hx(b)} {hx(acc)} {fam} {len(params)} " + " ".join(hx(p) for p in params) + (" " if params else "") + fx


def pick_acc(rng, root, a, b):
    w = abs(b - a)
    lo = 1e-14 * abs(root) if root != 0 else 1e-14 * w
    lo = max(lo, 5e-324)
    if lo >= w: return w
    r = rng.random()
    if r < 0.3: return lo * rng.choice([1.0, 1.0, 3.0, 10.0])
    if r < 0.4: return w * rng.choice([1.0, 0.5, 0.1])
    return math.exp(rng.uniform(math.log(lo), math.log(w)))


def fam_powlaw(rng):
    p = rng.choice([2.0, 3.0, 5.0, 10.0, 20.0, 0.5, 1.5, -1.0, -2.0, -2.5, 0.25, 7.0, rng.uniform(0.2, 12)])
    lr = rng.uniform(-8, 8)
    if abs(p * lr) > 120: lr = math.copysign(120 / abs(p), lr)
    r = 10 ** lr; c = r ** p
    up = rng.uniform(0.01, 12); dn = rng.uniform(0.01, 12)
    hi = r * 10 ** up
    if abs(p) * math.log10(hi) > 130: hi = max(r * 1.5, 10 ** (130 / abs(p)))     # keep f^2 and (x3-x1)*f in the double range
    lo = r * 10 ** (-dn)
    if p > 0 and rng.random() < 0.3: lo = 0.0
    if p < 0 and lo > 0 and abs(p) * -math.log10(lo) > 130: lo = min(r / 1.5, 10 ** (-130 / abs(p)))
    root = c ** (1 / p)
    return lo, hi, root, "powlaw", [p, c], f"- pow x {hx(p)} {C(c)}"


def fam_poly(rng):
    n = rng.choice([1, 2, 3, 3, 4, 5])
    sc = 10 ** rng.uniform(-3, 3)
    rs = sorted(sc * rng.uniform(-5, 5) for _ in range(n))
    k = rng.randrange(n)
    # bracket around root k only, or around an odd number of roots (multiple roots in the bracket)
    lo_i, hi_i = k, k
    if rng.random() < 0.3:
        lo_i = rng.randint(0, k); hi_i = rng.randint(k, n - 1)
        if (hi_i - lo_i) % 2 == 1:
            if hi_i > k: hi_i -= 1
            else: lo_i += 1
    left = rs[lo_i - 1] if lo_i > 0 else rs[0] - sc * 10
    right = rs[hi_i + 1] if hi_i < n - 1 else rs[-1] + sc * 10
    a = rs[lo_i] - (rs[lo_i] - left) * rng.uniform(0.05, 0.95); b = rs[hi_i] + (right - rs[hi_i]) * rng.uniform(0.05, 0.95)
    lead = rng.choice([-1, 1]) * 10 ** rng.uniform(-2, 2)
    fx = C(lead)
    for r in rs: fx = f"* {fx} - x {C(r)}"
    return a, b, max(abs(r) for r in rs[lo_i:hi_i + 1]), "poly", rs, fx


def fam_saturating(rng):
    kind = rng.choice(["atan", "erfcdf", "tanh"])
    r0 = rng.choice([0.0, rng.uniform(-5, 5), 10 ** rng.uniform(-3, 3)]); s = 10 ** rng.uniform(-2, 2)
    if kind == "atan":
        t = rng.uniform(-1.4, 1.4); root = r0 + math.tan(t) / s
        fx = f"- atan * {C(s)} - x {C(r0)} {C(t)}"; z = math.tan(t)
    elif kind == "tanh":
        t = rng.uniform(-0.995, 0.995); root = r0 + math.atanh(t) / s
        fx = f"- tanh * {C(s)} - x {C(r0)} {C(t)}"; z = math.atanh(t)
    else:
        z = rng.uniform(-3.5, 3.5); q = 0.5 * (1 + math.erf(z / math.sqrt(2))); root = r0 + z / s
        fx = f"- * c 0x1p-1 + c 0x1p+0 erf * {C(s / math.sqrt(2))} - x {C(r0)} {C(q)}"; t = q
    wl = 10 ** rng.uniform(-2, 3) / s; wr = 10 ** rng.uniform(-2, 3) / s
    return root - wl, root + wr, root, kind, [s, r0, t], fx


def fam_pwl(rng):
    n = rng.randint(2, 7)
    xs = sorted(rng.uniform(-10, 10) for _ in range(n))
    if len(set(xs)) < n: xs = [float(k) for k in range(n)]
    ys = [rng.choice([-1, 1]) * 10 ** rng.uniform(-2, 2) for _ in range(n)]
    if ys[0] * ys[-1] > 0: ys[-1] = -ys[-1]
    if rng.random() < 0.2 and n > 2: ys[rng.randrange(1, n - 1)] = 0.0
    a = xs[0] - rng.choice([0.0, rng.uniform(0, 3)]); b = xs[-1] + rng.choice([0.0, rng.uniform(0, 3)])
    fx = f"pwl {n} " + " ".join(f"{hx(u)} {hx(v)}" for u, v in zip(xs, ys)) + " x"
    # the accuracy range of the quantifier is anchored at the root found: take the largest |zero crossing| in the bracket
    roots = [xs[k] - ys[k] * (xs[k + 1] - xs[k]) / (ys[k + 1] - ys[k]) for k in range(n - 1) if ys[k] * ys[k + 1] <= 0 and ys[k] != ys[k + 1]]
    return a, b, max([abs(r) for r in roots] + [1e-3]), "pwl", [], fx


def fam_misc(rng):
    kind = rng.choice(["expc", "logc", "cosx", "xexp", "sin", "cubic", "rational"])
    if kind == "expc":
        w = rng.choice([-1, 1]) * 10 ** rng.uniform(-2, 1); r = rng.uniform(-20, 20) / abs(w) / 4; c = math.exp(w * r)
        return r - rng.uniform(0.1, 30) / abs(w), r + rng.uniform(0.1, 30) / abs(w), r, kind, [w, c], f"- exp * {C(w)} x {C(c)}"
    if kind == "logc":
        r = 10 ** rng.uniform(-8, 8); c = math.log(r)
        return r * 10 ** (-rng.uniform(0.01, 10)), r * 10 ** rng.uniform(0.01, 10), r, kind, [c], f"- log x {C(c)}"
    if kind == "cosx":
        return rng.uniform(-3, 0.5), rng.uniform(0.8, 6), 0.7390851332151607, kind, [], "- cos x x"
    if kind == "xexp":
        r = rng.uniform(-0.9, 5); c = r * math.exp(r)
        return -1.0 + rng.uniform(0, 0.05), r + rng.uniform(0.1, 20), r, kind, [c], f"- * x exp x {C(c)}"
    if kind == "sin":
        w = 10 ** rng.uniform(-1, 2); k = rng.randint(-5, 5); m = rng.choice([0, 0, 1, 2])     # 2m+1 roots in the bracket
        r = k * math.pi / w
        a = (k - m - rng.uniform(0.05, 0.95)) * math.pi / w; b = (k + m + rng.uniform(0.05, 0.95)) * math.pi / w
        return a, b, (abs(k) + m) * math.pi / w, kind, [w], f"sin * {C(w)} x"
    if kind == "cubic":     # inflection at the root or beside it: (x-r)^3 + d (x-r)
        r = rng.uniform(-5, 5); d = rng.choice([0.0, 10 ** rng.uniform(-4, 1)])
        return r - rng.uniform(0.1, 10), r + rng.uniform(0.1, 10), r, kind, [r, d], f"+ pow - x {C(r)} 0x1.8p+1 * {C(d)} - x {C(r)}"
    r = 10 ** rng.uniform(-3, 3); s = rng.uniform(0.1, 10) * r      # x/(x+s) - r/(r+s): concave, saturating
    return r * 10 ** (-rng.uniform(0.1, 6)), r * 10 ** rng.uniform(0.1, 6), r, kind, [s], f"- / x + x {C(s)} {C(r / (r + s))}"


def fam_linear(rng):
    m = rng.choice([-1, 1]) * 10 ** rng.uniform(-6, 6); r = rng.choice([0.0, rng.uniform(-5, 5), rng.choice([-1, 1]) * 10 ** rng.uniform(-6, 6)])
    q = -m * r
    w = 10 ** rng.uniform(-3, 3) * max(abs(r), 1e-3)
    a = r - w * rng.uniform(0.01, 1); b = r + w * rng.uniform(0.01, 1)
    root = -q / m
    return a, b, root, "linear", [m, q], f"+ * {C(m)} x {C(q)}"


def generate(rng, tier):
    cs = []
    big = tier != "quick"
    N = 12000 if big else 500
    fams = [fam_powlaw, fam_poly, fam_saturating, fam_pwl, fam_misc, fam_linear]
    for fam in fams:
        for k in range(N if fam is not fam_linear else N // 2):
            a, b, root, name, params, fx = fam(rng)
            if not (a < b) or not all(math.isfinite(v) for v in (a, b)): continue
            f, _ = parse_fexpr(fx.split(), 0)
            fa, fb = f(a), f(b)
            tags = [name]
            if fa != fa or fb != fb: tags.append("nan-end")
            elif fa == 0 or fb == 0: tags.append("end-zero")
            elif (fa > 0) == (fb > 0): tags.append("no-sign-change")
            else: tags.append("bracketed")
            acc = pick_acc(rng, root, a, b)
            if rng.random() < 0.5: a, b = b, a
            op = "root" if k % 8 else "both"
            cs.append(Case(line(op, a, b, acc, name, params, fx), (op,) + tuple(tags)))
    # the case that exposed the former stopping rule (x^20 - 1e-10 on [0,10], accuracy 1e-6) and relatives
    for p, c, hi, acc in [(20.0, 1e-10, 10.0, 1e-6), (20.0, 1e-10, 10.0, 1e-12), (10.0, 1e-10, 100.0, 1e-8), (30.0, 1e-20, 10.0, 1e-6), (16.0, 1e-8, 5.0, 1e-9)]:
        cs.append(Case(line("root", 0.0, hi, acc, "powlaw", [p, c], f"- pow x {hx(p)} {C(c)}"), ("root", "powlaw", "creep")))
        cs.append(Case(line("root", hi, 0.0, acc, "powlaw", [p, c], f"- pow x {hx(p)} {C(c)}"), ("root", "powlaw", "creep")))
    # wide brackets on which rounding used to push Ridder's point past a bracket end (fixed: 8ac6e07, 74cd1af)
    for p, c, lo_, hi_, acc in [(1.5, 1000.0, 0.0, 1e15, 1e-6), (0.5, 3.0, 0.0, 1e16, 1e-6), (2.5, 1e5, 0.0, 1e13, 1e-8), (5.0, 3450.0, 0.0, 4358688237969.189, 5e-14),
                                (2.0, 1511915180.0, 7.399788592188062e-05, 4985942807988200.0, 2.49e15), (1.5, 1e-30, 1e-40, 1e20, 1e-34), (3.0, 1e30, 1e-12, 1e12, 1e-4)]:
        cs.append(Case(line("root", lo_, hi_, acc, "powlaw", [p, c], f"- pow x {hx(p)} {C(c)}"), ("root", "powlaw", "wide")))
        cs.append(Case(line("both", hi_, lo_, acc, "powlaw", [p, c], f"- pow x {hx(p)} {C(c)}"), ("both", "powlaw", "wide")))
    for _ in range(400 if big else 60):     # x^p - c with fractional p on [0 or tiny, huge], accuracy at 1e-14*root
        p = rng.choice([0.5, 1.5, 2.5, 0.25, 3.5, rng.uniform(0.2, 4)]); r = 10 ** rng.uniform(-6, 6); c = r ** p
        hi_ = r * 10 ** rng.uniform(8, 14); lo_ = rng.choice([0.0, r * 10 ** (-rng.uniform(8, 14))])
        cs.append(Case(line("root", lo_, hi_, 1e-14 * r * rng.choice([1.0, 1.0, 10.0, 1e6]), "powlaw", [p, c], f"- pow x {hx(p)} {C(c)}"), ("root", "powlaw", "wide")))
    # function values at the edge of the double range (products f1*f2, f3*f3, (x3-x1)*f3 under/overflow)
    cs.append(Case(line("root", 13.0, 1e15, 1e-3, "powlaw", [20.0, 2.9e75], f"- pow x {hx(20.0)} {C(2.9e75)}"), ("root", "scaled")))
    for _ in range(60 if big else 12):
        K = 10 ** rng.choice([-170, -160, -150, -120, 120, 150, 160, 200])
        base, a, b = rng.choice([("- * x x c 0x1p+1", 0.0, 3.0), ("- x c 0x1p+0", -1.0, 3.0), ("- exp x c 0x1p+2", 0.5, 30.0)])
        b = b * rng.uniform(0.7, 1.3)
        cs.append(Case(line("root", a, b, 10 ** rng.uniform(-12, -3), "scaled", [K], f"* {C(K)} {base}"), ("root", "scaled")))
    # ... the same scales with equal signs at the ends (two roots inside, or none): the product of the end values underflows to 0 or overflows,
    # the request must still be rejected
    for _ in range(60 if big else 12):
        K = rng.choice([-1, 1]) * 10 ** rng.choice([-300, -200, -170, -160, -150, 150, 160, 200, 300])
        base, a, b = rng.choice([("* - x c 0x1p+0 - x c 0x1p+1", 0.0, 3.0), ("+ c 0x1p-1 * x x", -1.0, 2.0), ("- exp neg * x x c 0x1p-1", -3.0, 3.0)])
        if rng.random() < 0.5: a, b = b, a
        cs.append(Case(line("root", a, b, 10 ** rng.uniform(-12, -3), "bad", [], f"* {C(K)} {base}"), ("root", "no-sign-change", "scaled")))
    # huge or tiny odd functions on a bracket symmetric about the root: the midpoint is the root itself (f3 == 0) while f1*f2 and f3*f3 are out of range
    for _ in range(40 if big else 10):
        K = 10 ** rng.choice([-250, -160, 100, 160, 250]); a = 10 ** rng.uniform(-2, 2)
        z = rng.choice([0.0, 0.0, float(rng.randint(-3, 3))]); X = "x" if z == 0.0 else f"- x {C(z)}"
        g = rng.choice([f"* {X} * {X} {X}", X, f"- exp {X} exp neg {X}"])
        if g.startswith("- exp"): a = min(a, 50.0)
        fx = f"* {C(K)} {g}"
        lo_, hi_ = z - a, z + a
        if 0.5 * (lo_ + hi_) != z: continue
        cs.append(Case(line(rng.choice(["root", "both"]), lo_, hi_, 10 ** rng.uniform(-10, -3), "sym", [z], fx), ("root", "scaled", "midpoint-root")))
    # brackets whose width exceeds the largest double (finite ends of opposite sign), bounded functions
    for _ in range(20 if big else 6):
        a = -10 ** rng.uniform(307.5, 308.2); b = 10 ** rng.uniform(307.5, 308.2); r = rng.uniform(-1.4, 1.4)
        if rng.random() < 0.5: a, b = b, a
        cs.append(Case(line(rng.choice(["root", "both"]), a, b, 10 ** rng.uniform(-10, -4), "wide", [], f"- atan x {C(r)}"), ("root", "huge-bracket")))
    # an end that is an exact zero (product form vanishes exactly at the end)
    for _ in range(300 if big else 40):
        z = rng.choice([0.0, rng.uniform(-5, 5), 10 ** rng.uniform(-6, 6)]); o = z + rng.choice([-1, 1]) * 10 ** rng.uniform(-3, 3)
        g = rng.choice([f"+ c 0x1p+0 * x x", f"exp x", f"- x {C(o + (o - z))}", f"- x {C(o)}"])     # last: both ends are zeros
        if g == "exp x" and max(abs(z), abs(o)) > 500: g = "+ c 0x1p+0 * x x"      # keep the function finite at both ends
        fx = f"* - x {C(z)} {g}"
        a, b = (z, o) if rng.random() < 0.5 else (o, z)
        cs.append(Case(line("root", a, b, 10 ** rng.uniform(-12, 0), "endzero", [z], fx), ("root", "end-zero")))
    # brackets without a sign change, NaN ends
    for _ in range(300 if big else 40):
        a = rng.uniform(-5, 5); b = a + 10 ** rng.uniform(-3, 2)
        if rng.random() < 0.5: a, b = b, a
        fx = rng.choice([f"+ c 0x1p+0 * x x", f"neg exp x", f"* - x {C(min(a, b) - 1.0)} - x {C(min(a, b) - 2.0)}", f"- * - x {C((a + b) / 2)} - x {C((a + b) / 2)} {C(abs(b - a) ** 2 / 16)}"])
        cs.append(Case(line("root", a, b, 1e-8, "bad", [], fx), ("root", "no-sign-change")))
        an = -abs(a) - 0.5
        fx2 = rng.choice([f"log x", f"sqrt x", f"- sqrt x c 0x1p+0", f"log * x x", f"/ - x {C(an)} - x {C(an)}"])
        cs.append(Case(line("root", an, abs(b) + 1.0, 1e-8, "nan", [], fx2) if rng.random() < 0.5 else line("root", abs(b) + 1.0, an, 1e-8, "nan", [], fx2), ("root", "nan-end")))
    return cs


# ---------------------------------------------------------------- S4
def parse_case(ln):
    t = ln.split(); op = t[0]
    a, b, acc = (tokf(x) for x in t[1:4]); fam = t[4]; n = int(t[5]); params = [tokf(x) for x in t[6:6 + n]]
    return op, a, b, acc, fam, params, t[6 + n:]


def split_out(io, op):
    """-> list of (result, warn, count, trace) per call"""
    t = io.split(); out = []; k = 0
    try:
        for _ in range(1 if op == "root" else 2):
            n = int(t[k + 2]); out.append((tokf(t[k]), t[k + 1], n, [tokf(x) for x in t[k + 3:k + 3 + n]])); k += 3 + n
    except (IndexError, ValueError): return None
    return out if k == len(t) else None


def rebracket_cases(tr):
    """which of the three re-bracketing branches ran in each iteration but the last, from the trace"""
    out = []
    if len(tr) < 6: return out
    x1, x2 = tr[0], tr[1]
    k = 2
    while k + 3 < len(tr) + 0 and k + 2 < len(tr):
        x3, x4 = tr[k], tr[k + 1]; nxt = tr[k + 2]
        cand = {"a": ((x3 + x4) / 2.0, x3, x4), "b": ((x1 + x4) / 2.0, x1, x4), "c": ((x4 + x2) / 2.0, x4, x2)}
        hit = [n for n, (m, _, _) in cand.items() if m == nxt]
        if len(hit) != 1: break
        out.append(hit[0]); _, x1, x2 = cand[hit[0]]
        k += 2
    return out


def predicates(c, io):
    out = []
    if io.startswith(("CRASH", "SANITIZER", "TIMEOUT", "HARNESSERR")): return out
    op, a, b, acc, fam, params, fx = parse_case(c.line)
    f, _ = parse_fexpr(fx, 0)
    lo, hi = min(a, b), max(a, b)
    fl, fr = f(lo), f(hi)
    exited = io.startswith("EXIT")
    if abs(fl) == math.inf or abs(fr) == math.inf: return out      # not a real-valued function on the bracket: outside the property
    if fl != fl or fr != fr:
        if not exited: out.append((op + ":nan-end", f"f is NaN at a bracket end but Find_Root returned ({io[:60]})"))
        return out
    if fl == 0 or fr == 0:
        if exited: return [(op + ":end-zero", "a bracket end is a zero of f but Find_Root terminated the process")]
        for (x, w, n, tr) in split_out(io, op) or []:
            if not ((fl == 0 and x == lo) or (fr == 0 and x == hi)): out.append((op + ":end-zero", f"a bracket end is a zero of f but {x!r} was returned"))
            if n != 2: out.append((op + ":end-zero-evals", f"{n} evaluations for a bracket with a zero end"))
        return out
    if (fl > 0) == (fr > 0):
        if not exited: out.append((op + ":no-sign-change", f"f({lo!r}) = {fl!r} and f({hi!r}) = {fr!r} have equal signs but Find_Root returned ({io[:60]})"))
        return out
    # opposite signs at the ends: a number must come back
    # function values whose products would leave the double range are inside the property like any others (Find_Root compares signs and
    # scales Ridder's step since the repair of K-C02-2); no region is exempt
    under = ""
    if exited: return [(op + ":sign-change-exit" + under, f"f({lo!r}) = {fl!r} and f({hi!r}) = {fr!r} have opposite signs but Find_Root terminated the process")]
    calls = split_out(io, op)
    if not calls: return [(op + ":output", "unexpected output shape")]
    if op == "both":
        (x1, w1, n1, t1), (x2, w2, n2, t2) = calls
        if not ((x1 == x2 or (x1 != x1 and x2 != x2)) and w1 == w2 and [hx(u) for u in t1] == [hx(u) for u in t2]):
            out.append(("both:order", f"Find_Root(a,b) = {x1!r} ({n1} evaluations) but Find_Root(b,a) = {x2!r} ({n2} evaluations)"))
    for (x, w, n, tr) in calls:
        bad = [u for u in tr if not (lo <= u <= hi)]
        cls = under
        if bad: out.append((op + ":location" + cls, f"f evaluated at {bad[0]!r} outside the bracket [{lo!r},{hi!r}]"))
        if len(tr) >= 2 and (tr[0] != lo or tr[1] != hi): out.append((op + ":ends-first", "the first two evaluations are not the bracket ends"))
        if not (lo <= x <= hi): out.append((op + ":inside" + cls, f"returned {x!r} outside the bracket [{lo!r},{hi!r}]")); continue
        pts = [max(lo, x - acc), x, min(hi, x + acc)] + [u for u in tr if abs(u - x) <= acc and lo <= u <= hi]
        vals = [f(u) for u in pts]
        if any(v != v for v in vals) or not (min(vals) <= 0.0 <= max(vals)):
            d = ""
            if fam in ("powlaw",): d = f" (root {params[1] ** (1 / params[0])!r})"
            out.append((op + (":accuracy-maxiter" if w == "1" else ":accuracy") + cls, f"no sign change or zero of f within acc = {acc!r} of the returned {x!r}{d}: f = {vals[:3]!r} at x-acc, x, x+acc" + (" (returned after the maximum number of iterations, with a warning)" if w == "1" else "")))
        if fam == "linear" and len(tr) >= 4:
            m, q = params; root = -q / m
            # first Ridder point is the root up to rounding: abscissa arithmetic ~10 eps X, function values eps(|m|X+|q|)/|m|; factor ~3 margin
            tol = 32 * EPS * (max(abs(lo), abs(hi)) + abs(root)) + 5e-324
            if abs(tr[3] - root) > tol: out.append((op + ":linear-exact", f"linear function: first Ridder point {tr[3]!r} differs from the root {root!r} by more than rounding ({tol!r})"))
            if abs(x - root) > tol + (acc if n > 4 else 0): out.append((op + ":linear-exact-result", f"linear function: returned {x!r}, root {root!r}"))
    return out


def nontrivial(c, io):
    if io.startswith(("EXIT", "CRASH")): return False
    calls = split_out(io, c.line.split()[0])
    if not calls: return False
    x, w, n, tr = calls[0]
    rc = rebracket_cases(tr)
    return (n - 2) // 2 >= 3 and len(set(rc)) >= 2
