"""C02 — Find_Root (Ridder's method): root of a bracketed function to the requested accuracy.
Case grammar:  root|both  a b acc  fam np p1..pnp  <fexpr>        (both: Find_Root(a,b) and then Find_Root(b,a))
               seq k  (a b acc fam np p1..pnp <fexpr>) x k          (k requests served one after the other by one process; tags meta-fscale / meta-xscale:
                                                                     the later requests are images of the first under scaling of f / of the unit of x)
Output per call: result, warning flag, number of evaluations, the abscissae in call order; EXIT when the process is terminated."""
import math, os
from fractions import Fraction
import vbuild
from vcheck import Case, hx, tokf

COQ = os.path.join(vbuild.VERIF, "coq")


def regenerate():
    """T-tie: Sign(double) and Sign(double,double) of src/Special_Functions.cpp are translated from clang's AST into
    coq/Gen_C02_Formulas.v on every run; coq/C02_GenTie.v proves them equal to the terms sign1 / sign2 the model is written with."""
    import cxx2gallina as c
    try:
        txt = c.translate_all(os.path.join(vbuild.REPO, "src", "Special_Functions.cpp"),
                              [c.Fn("Sign", ["double"], "g_Sign"), c.Fn("Sign", ["double", "double"], "g_Sign2")],
                              [os.path.join(vbuild.REPO, "include")])
    except c.Unsupported as e:
        raise RuntimeError(f"tools/cxx2gallina.py cannot translate Sign of src/Special_Functions.cpp: {e}")
    ch = c.write_if_changed(os.path.join(COQ, "Gen_C02_Formulas.v"), txt)
    return "Gen_C02_Formulas.v regenerated from the current source" if ch else ""

PID = "C02"
EPS = 2.0 ** -53
RULE = ("one case = one call Find_Root(f,a,b,acc) (op both: the two orders of the bracket ends; op seq: a history of 2-5 requests served by one "
        "process — repeated, interleaved, narrowed requests, and pairs (request, the same with the function multiplied by +-2^j or with x in units of 2^-j) — judged by its first request); non-trivial = at least 3 Ridder "
        "iterations with at least 2 different re-bracketing cases taken (deduced from the evaluation trace: the next midpoint "
        "identifies which of the three re-bracketing branches ran); ops sgn / sgn2 = one call of Sign(x) / Sign(x,y), non-trivial when an argument is 0 or NaN or the two differ in sign; distinct by case text")
LEVEL_TEXT = ("Theorems (Coq, over the reals, for an arbitrary objective function f unless stated): the result does not depend on the order of "
              "the bracket ends; the loop invariant (f1*f2<0, bracket inside the original one, each new bracket inside the previous and at "
              "most half as wide, midpoint and Ridder point inside the closed bracket); every evaluation abscissa lies in [min(a,b),max(a,b)]; "
              "opposite signs at the ends always yield a number inside the bracket (the 'does not reach the root' exit is unreachable); "
              "a bracket end that is a zero is returned as is; no sign change exits; NaN at an end exits (abstract instance); linear functions "
              "are solved exactly by the first Ridder point; ACCURACY at full strength: every returned x is an exact zero of f, or an end of a "
              "bracket [u,v] with f(u)f(v)<0 and v-u < acc, or (iteration-limit return, 2200 iterations) an end of such a bracket of width <= 2^-2200 of the original; "
              "with the IVT, a continuous f has a zero within acc (resp. 2^-2200 of the width) of x; Ridder's point lies strictly inside the bracket, so the clamp the code applies to it is the identity in exact arithmetic; the end test Sign(fl)*Sign(fr) >= 0 is fl*fr >= 0 and the scaled step (function values divided by the largest of the three magnitudes) is Ridder's step (step_eq); the iteration limit is reached only from a bracket at least acc*2^2200 wide, hence for no bracket (width <= 2^1025) and accuracy (>= 2^-1074) that doubles can express; on every instance of the number interface (IEEE doubles with an infinite value at the other end included) a zero end is returned as is when neither end value is NaN; a history of requests served by one process is answered request by request as if each were the only one, up to the first exit; NaN at one end takes precedence over an exact zero (+0 or -0) at the other end, in either position and on every instance, and ends the history the request belongs to; COST (C02_evaluation_count, every function, every n from 1 to 2200): a bracket narrower than acc*2^n is answered after at most 2+2n "
              "evaluations and not through the iteration limit (Ridder's iteration cannot creep); SCALING (C02_scale_invariant): multiplying the objective function by any non-zero constant, "
              "negative ones included, changes neither the outcome nor one evaluation abscissa; UNIT OF x (C02_x_scale_covariant): f(x/c) on [c a, c b] with accuracy c acc, c > 0, is answered by c times "
              "the answer through c times every abscissa; CLAMP ON EVERY ORDERED INSTANCE (C02_ridder_point_clamped_any_instance, only the order laws, no law of arithmetic, so rounding included): "
              "each pass evaluates exactly two abscissae and the second (Ridder's point after the clamp) lies in [min(x1,x2),max(x1,x2)] of the current state. "
              "NO ANSWER WITHOUT A RIDDER PASS, ON EVERY INSTANCE (C02_first_pass_always_runs, C02_pass_shape_any_instance; no law of arithmetic, so doubles included): a request with opposite signs at the ends and no NaN "
              "there is never answered from the ends alone, whatever the accuracy (the width of the bracket and beyond included): the trace begins xl, xr, midpoint, Ridder's point of the original bracket, and when nothing "
              "else is evaluated the answer is that Ridder point - which over the reals is the root of a linear function (C02_linear_exact, every accuracy). "
              "TERMINATION AND SHAPE ON EVERY INSTANCE (C02_trace_shape_any_instance, C02_evaluation_budget_any_instance; induction over the iteration budget, no law of arithmetic or order, so doubles with rounding, infinities and NaNs included): every run evaluates the two ends and then nothing (exit / zero end), or two abscissae per pass for k passes, 1 <= k <= 2200, ending with an exit or returning the abscissa of the LAST evaluation, or 2*2200+1 more with the answer evaluated twice at the end (iteration limit); never more than 4403 evaluations, never an OOB/Fuel outcome, and every number returned is an abscissa at which f was evaluated (S4 predicate trace-shape evaluates this on the implementation). ALL PASSES INSIDE THE BRACKET ON EVERY ORDERED INSTANCE, PARTIAL (C02_evaluations_inside_ordered_partial; order laws plus the single premise mid_between: 0.5x+0.5y lies between x and y — proved for the reals, C02_midpoint_between_reals, NOT proved for doubles): every evaluation of every pass and the returned number lie in [xl,xr], whatever rounding does to Ridder's formula. STOPPING TEST / ACCURACY ON EVERY INSTANCE (C02_stopping_test_any_instance, no law of arithmetic or order, doubles included; C02_stopping_test_reals): a number returned through f4 == 0 has computed value == 0; a number returned through the width test is an end of a pair (u,v) of abscissae evaluated in this call whose values pass the code's sign test (both non-zero, different sign) and whose computed distance fabs(v-u) is < xAccuracy — the accuracy clause for doubles up to the one rounding of v-u and the trusted evaluation of f (S4 predicate stop-pair evaluates it on the implementation). ORDER OF THE ENDS ON EVERY ORDERED INSTANCE, PARTIAL (C02_order_irrelevant_ordered_partial): same outcome and trace for ends the order tells apart; +0/-0 ends (equal, not identical) are not covered. HISTORIES OVER THE REALS (C02_history_all_answers_correct): every answer of every history satisfies C02_outcomes and the location clause for the request at its position. MONOTONE FUNCTIONS (C02_monotone_every_root_close, reals, no continuity): for a strictly increasing or decreasing f EVERY zero of f is the answer or within acc of it (2^-2200 of the width after an iteration-limit return), i.e. the answer is within acc of THE root. HISTORIES, CONVERSE (C02_history_entries, every instance, induction over the history): every entry of the answers is the answer to the request at the same position served alone, all earlier ones returned numbers, and there are no more answers than requests. SHARPER ACCURACY CONTINUES THE SAME RUN (C02_sharper_accuracy_continues, every instance, no law of arithmetic or order, induction over the iteration budget; C02_sharper_accuracy_continues_ordered with the premise acc' <= acc): the request at an accuracy acc' at most acc is answered exactly as at acc, or the run at acc returned through the width test and the run at acc' makes the same evaluations in the same order and then more (S4 predicate accuracy-prefix evaluates it on histories that ask one request at 2-5 accuracies). ORIGIN OF x (C02_x_shift_covariant, reals): f(x-c) on [a+c,b+c] is answered by the answer + c through every abscissa + c; with the unit covariance Find_Root commutes with every increasing affine change of the variable. T-TIE (C02_generated_Sign_is_model, C02_generated_Sign2_is_model): Sign(double) and Sign(double,double), regenerated from src/Special_Functions.cpp on every run, are the terms sign1/sign2 the model of Find_Root is written with, on every instance where the literals 0.0 and 1.0 are the constants 0 and 1 (reals: C02_literals_reals); both are also run against the library directly (ops sgn, sgn2: all pairs of special values, NaN, infinities, +-0, subnormals included). Not theorems: statements about IEEE rounding (the midpoint of a pass being inside the bracket on doubles is tested, not proved — it is now the ONLY arithmetic premise of the all-passes-inside statement; the cost bound on doubles is tested with 0.9 acc for acc, "
              "for accuracies of at least 40 spacings of doubles; the two scaling relations are tested on doubles with powers of two, where they are exact, on the values actually met; the stopping test is "
              "aimed at from both sides — accuracy on a ladder of ulps and relative distances around the width of a pre-computed intermediate bracket, step-like atan/tanh/erf transitions down to "
              "1e-20 spacings wide placed at the far end of that bracket, all scales; "
              "on doubles the clamp is active when rounding pushes Ridder's point past a bracket end; function values from 1e-300 to 1e300, brackets wider than the largest double, brackets of up to 630 decades with subnormal to 1e300 roots and accuracies down to 1e-14*|root| (up to ~2100 iterations), end values that overflow to +-inf, brackets a few ulps wide, histories of several requests in one process, midpoints that are exact roots, and the matrix of end-value kinds (NaN beyond a domain limit or exactly at it, at the lower or upper end, against an exact zero of value +0 or -0, tiny / ordinary / infinite values of either sign or NaN; zeros at both ends; NaN abscissae) as single requests and inside histories are generated; sign changes beyond DBL_MAX - |far end|, where the sum x1+x2 of an earlier version of the midpoint overflowed (F44, fixed: the ends are halved first), are generated; accuracies at the TOP of the range — the width of the bracket, a half / third / quarter of it, each on a ladder of units in the last place (a few above the width as well) and of relative distances 1e-15..1e-1 — for linear functions in four forms (K(x-r), x-r, r-x, mx+q) at all scales of root (0, subnormal .. 1e300), slope and width, the root anywhere in the bracket including next to an end, single / both orders / in histories with the same request at 1e3..1e12 times smaller accuracy, are generated; 'linear functions are solved exactly' is evaluated on the answer of EVERY request whose objective function is of first degree in x (recognised from the expression, exact rational root, rounding allowance from the standard model of the expression's own operations), whatever the number of evaluations): covered by running the extracted "
              "model against the C++ code on every run (result, warning flag, full evaluation trace, bit for bit) and by evaluating every clause on "
              "the implementation's output (S4).")
LEVEL_NOTE = ("Coq 8.16.1 kernel; standard-library real-number axioms (listed in the evidence); nan_end_exits is axiom-free. Hand-written model tied by "
              "differential correspondence (extraction with ExtrOcamlBasic only); Sign(double)/Sign(double,double) are Num.v's sign1/sign2; "
              "std::isnan is the abstract predicate nisnan (constantly false on R). Sign/Sign(x,y) are additionally T-tied: coq/Gen_C02_Formulas.v is regenerated from the source by tools/cxx2gallina.py on every run and coq/C02_GenTie.v proves it equal to sign1/sign2 under the literal law Lit01 (0.0 = n0, 1.0 = n1; proved for the reals, for doubles a fact about two exactly representable literals checked by the ops sgn/sgn2). coverage/C02.md lists what is modelled line by line, by specification, or not at all.")
TOL = (1e-12, 1e-300)
TRUSTED = ["the objective functions are prefix expressions evaluated by harness/common.hpp and ocaml/common.ml with the same libm; S4 re-evaluates them in Python (math module = the same libm)",
           "the maximum-iteration return is observed as the text 'Iterations exceed the maximum' on the library's stdout"]
ASSUMPTIONS = ["accuracy on doubles is checked (S4) as: min f <= 0 <= max f over {x-acc, x, x+acc (clamped to the bracket)} and the evaluated abscissae within acc of x",
               "end values that overflow to +-inf in double evaluation are treated as values of that sign (the real function is finite there): a zero at the other end is returned as is, equal signs are rejected, opposite signs are solved",
               "for brackets narrower than 1e-14*|root| the only accuracy inside the quantifier is the width itself"]


# ---------------------------------------------------------------- fexpr evaluation in Python (independent of harness / model)
def _div(a, b):
    try: return a / b
    except ZeroDivisionError:
        if a != a or a == 0: return math.nan
        return math.copysign(math.inf, a) * math.copysign(1.0, b)
def _wrap(fn):
    def g(a):
        try: return fn(a)
        except ValueError: return math.nan
        except OverflowError: return math.inf
    return g
def _pow(a, c):
    if a == 0 and c < 0:      # C: pow(+-0, y<0) is a pole (math.pow raises ValueError there)
        return math.copysign(math.inf, a) if (c == int(c) and int(c) % 2 == 1) else math.inf
    try: return math.pow(a, c)
    except ValueError: return math.nan
    except OverflowError: return math.inf if not (a < 0 and c == int(c) and int(c) % 2 == 1) else -math.inf
def _log(a):
    if a == 0: return -math.inf
    try: return math.log(a)
    except ValueError: return math.nan
_UN = {"neg": lambda a: -a, "exp": _wrap(math.exp), "log": _log, "sin": _wrap(math.sin), "cos": _wrap(math.cos), "atan": math.atan,
       "erf": math.erf, "cosh": _wrap(math.cosh), "tanh": math.tanh, "abs": abs, "sqrt": _wrap(math.sqrt),
       "step": lambda a: 1.0 if a >= 0.0 else 0.0}


def parse_fexpr(t, i):
    """tokens, index -> (python function of x, next index)"""
    o = t[i]
    if o == "x": return (lambda x: x), i + 1
    if o == "c":
        c = tokf(t[i + 1]); return (lambda x: c), i + 2
    if len(o) == 1 and o in "+-*/":
        f, j = parse_fexpr(t, i + 1); g, k = parse_fexpr(t, j)
        if o == "+": return (lambda x: f(x) + g(x)), k
        if o == "-": return (lambda x: f(x) - g(x)), k
        if o == "*": return (lambda x: _mul(f(x), g(x))), k
        return (lambda x: _div(f(x), g(x))), k
    if o == "pow":
        f, j = parse_fexpr(t, i + 1); c = tokf(t[j]); return (lambda x: _pow(f(x), c)), j + 1
    if o == "pwl":
        n = int(t[i + 1]); px = [tokf(t[i + 2 + 2 * k]) for k in range(n)]; py = [tokf(t[i + 3 + 2 * k]) for k in range(n)]
        f, j = parse_fexpr(t, i + 2 + 2 * n)
        def pw(x):
            a = f(x); k = 0
            while k + 2 < n and a >= px[k + 1]: k += 1
            return py[k] + (a - px[k]) * ((py[k + 1] - py[k]) / (px[k + 1] - px[k]))
        return pw, j
    if o in _UN:
        f, j = parse_fexpr(t, i + 1); u = _UN[o]; return (lambda x: u(f(x))), j
    raise ValueError("fexpr op " + o)
def _mul(a, b): return a * b



# ---------------------------------------------------------------- linear objective functions, recognised from the expression itself
def affine_tree(t, i):
    """prefix expression made of x, constants, + - * / and neg -> (tree, next index); ValueError for anything else"""
    o = t[i]
    if o == "x": return ("x",), i + 1
    if o == "c": return ("c", tokf(t[i + 1])), i + 2
    if len(o) == 1 and o in "+-*/":
        l, j = affine_tree(t, i + 1); r, k = affine_tree(t, j); return (o, l, r), k
    if o == "neg":
        l, j = affine_tree(t, i + 1); return ("neg", l), j
    raise ValueError(o)


def affine_coef(n):
    """(m, q) with tree = m x + q as exact rationals, or None when the tree is not of first degree in x"""
    o = n[0]
    if o == "x": return Fraction(1), Fraction(0)
    if o == "c":
        if not math.isfinite(n[1]): return None
        return Fraction(0), Fraction(n[1])
    if o == "neg":
        l = affine_coef(n[1]); return None if l is None else (-l[0], -l[1])
    l = affine_coef(n[1]); r = affine_coef(n[2])
    if l is None or r is None: return None
    if o == "+": return l[0] + r[0], l[1] + r[1]
    if o == "-": return l[0] - r[0], l[1] - r[1]
    if o == "*":
        if l[0] == 0: return l[1] * r[0], l[1] * r[1]
        if r[0] == 0: return r[1] * l[0], r[1] * l[1]
        return None
    if r[0] != 0 or r[1] == 0: return None
    return l[0] / r[1], l[1] / r[1]


def affine_eval(n, x):
    """(value in double arithmetic, bound on its distance from the exact value) of the tree at x; None when something is not finite.
    Standard model: each operation has relative error <= 2^-53, products and quotients that underflow an absolute error <= 2^-1075."""
    o = n[0]
    if o == "x": return x, 0.0
    if o == "c": return n[1], 0.0
    if o == "neg":
        l = affine_eval(n[1], x); return None if l is None else (-l[0], l[1])
    l = affine_eval(n[1], x); r = affine_eval(n[2], x)
    if l is None or r is None: return None
    (a, ea), (b, eb) = l, r
    try:
        if o == "+": v = a + b; e = ea + eb + EPS * abs(v)
        elif o == "-": v = a - b; e = ea + eb + EPS * abs(v)
        elif o == "*": v = a * b; e = abs(a) * eb + abs(b) * ea + ea * eb + EPS * abs(v) + 2.0 ** -1074
        else:
            if b == 0 or eb != 0: return None
            v = a / b; e = ea / abs(b) + EPS * abs(v) + 2.0 ** -1074
    except (OverflowError, ZeroDivisionError): return None
    if not (math.isfinite(v) and math.isfinite(e)): return None
    return v, e


def linear_spec(fam, params, fx, lo, hi):
    """for an objective function of first degree in x: (exact root, allowance for rounding of a Ridder point on [lo,hi]); None otherwise.
    In exact arithmetic Ridder's point of a linear function is x3 - f3/m = the root, and its partial derivatives with respect to the three function
    values are bounded by 1/|m| each; the abscissa arithmetic (midpoint, difference, product, quotient, sum, about ten operations on numbers
    of size X = max|end|) adds about 10 eps X.  Factor 2-3 of margin on both parts."""
    if not (math.isfinite(lo) and math.isfinite(hi)): return None
    X = max(abs(lo), abs(hi))
    try: tree, j = affine_tree(fx, 0)
    except (ValueError, IndexError): return None
    if j != len(fx): return None
    mq = affine_coef(tree)
    if mq is None or mq[0] == 0: return None
    m, q = mq
    E = Fraction(0)
    for u in (lo, hi, 0.5 * lo + 0.5 * hi):
        ve = affine_eval(tree, u)
        if ve is None: return None
        E += Fraction(ve[1])
    return -q / m, 2 * E / abs(m) + Fraction(20 * EPS * X) + Fraction(5e-324) * 4


# ---------------------------------------------------------------- generators
def C(v): return "c " + hx(v)
def line(op, a, b, acc, fam, params, fx):
    return f"{op} {hx(a)} {hx(b)} {hx(acc)} {fam} {len(params)} " + " ".join(hx(p) for p in params) + (" " if params else "") + fx


def pick_acc(rng, root, a, b):
    w = abs(b - a)
    lo = 1e-14 * abs(root) if root != 0 else 1e-14 * w
    lo = max(lo, 5e-324)
    if lo >= w: return w
    r = rng.random()
    if r < 0.3: return lo * rng.choice([1.0, 1.0, 3.0, 10.0])
    if r < 0.4: return w * rng.choice([1.0, 0.5, 0.1])
    return math.exp(rng.uniform(math.log(lo), math.log(w)))


def fam_powlaw(rng):
    p = rng.choice([2.0, 3.0, 5.0, 10.0, 20.0, 0.5, 1.5, -1.0, -2.0, -2.5, 0.25, 7.0, rng.uniform(0.2, 12)])
    lr = rng.uniform(-8, 8)
    if abs(p * lr) > 120: lr = math.copysign(120 / abs(p), lr)
    r = 10 ** lr; c = r ** p
    up = rng.uniform(0.01, 12); dn = rng.uniform(0.01, 12)
    hi = r * 10 ** up
    if abs(p) * math.log10(hi) > 130: hi = max(r * 1.5, 10 ** (130 / abs(p)))     # keep f^2 and (x3-x1)*f in the double range
    lo = r * 10 ** (-dn)
    if p > 0 and rng.random() < 0.3: lo = 0.0
    if p < 0 and lo > 0 and abs(p) * -math.log10(lo) > 130: lo = min(r / 1.5, 10 ** (-130 / abs(p)))
    root = c ** (1 / p)
    return lo, hi, root, "powlaw", [p, c], f"- pow x {hx(p)} {C(c)}"


def fam_poly(rng):
    n = rng.choice([1, 2, 3, 3, 4, 5])
    sc = 10 ** rng.uniform(-3, 3)
    rs = sorted(sc * rng.uniform(-5, 5) for _ in range(n))
    k = rng.randrange(n)
    # bracket around root k only, or around an odd number of roots (multiple roots in the bracket)
    lo_i, hi_i = k, k
    if rng.random() < 0.3:
        lo_i = rng.randint(0, k); hi_i = rng.randint(k, n - 1)
        if (hi_i - lo_i) % 2 == 1:
            if hi_i > k: hi_i -= 1
            else: lo_i += 1
    left = rs[lo_i - 1] if lo_i > 0 else rs[0] - sc * 10
    right = rs[hi_i + 1] if hi_i < n - 1 else rs[-1] + sc * 10
    a = rs[lo_i] - (rs[lo_i] - left) * rng.uniform(0.05, 0.95); b = rs[hi_i] + (right - rs[hi_i]) * rng.uniform(0.05, 0.95)
    lead = rng.choice([-1, 1]) * 10 ** rng.uniform(-2, 2)
    fx = C(lead)
    for r in rs: fx = f"* {fx} - x {C(r)}"
    return a, b, max(abs(r) for r in rs[lo_i:hi_i + 1]), "poly", rs, fx


def fam_saturating(rng):
    kind = rng.choice(["atan", "erfcdf", "tanh"])
    r0 = rng.choice([0.0, rng.uniform(-5, 5), 10 ** rng.uniform(-3, 3)]); s = 10 ** rng.uniform(-2, 2)
    if kind == "atan":
        t = rng.uniform(-1.4, 1.4); root = r0 + math.tan(t) / s
        fx = f"- atan * {C(s)} - x {C(r0)} {C(t)}"; z = math.tan(t)
    elif kind == "tanh":
        t = rng.uniform(-0.995, 0.995); root = r0 + math.atanh(t) / s
        fx = f"- tanh * {C(s)} - x {C(r0)} {C(t)}"; z = math.atanh(t)
    else:
        z = rng.uniform(-3.5, 3.5); q = 0.5 * (1 + math.erf(z / math.sqrt(2))); root = r0 + z / s
        fx = f"- * c 0x1p-1 + c 0x1p+0 erf * {C(s / math.sqrt(2))} - x {C(r0)} {C(q)}"; t = q
    wl = 10 ** rng.uniform(-2, 3) / s; wr = 10 ** rng.uniform(-2, 3) / s
    return root - wl, root + wr, root, kind, [s, r0, t], fx


def fam_pwl(rng):
    n = rng.randint(2, 7)
    xs = sorted(rng.uniform(-10, 10) for _ in range(n))
    if len(set(xs)) < n: xs = [float(k) for k in range(n)]
    ys = [rng.choice([-1, 1]) * 10 ** rng.uniform(-2, 2) for _ in range(n)]
    if ys[0] * ys[-1] > 0: ys[-1] = -ys[-1]
    if rng.random() < 0.2 and n > 2: ys[rng.randrange(1, n - 1)] = 0.0
    a = xs[0] - rng.choice([0.0, rng.uniform(0, 3)]); b = xs[-1] + rng.choice([0.0, rng.uniform(0, 3)])
    fx = f"pwl {n} " + " ".join(f"{hx(u)} {hx(v)}" for u, v in zip(xs, ys)) + " x"
    # the accuracy range of the quantifier is anchored at the root found: take the largest |zero crossing| in the bracket
    roots = [xs[k] - ys[k] * (xs[k + 1] - xs[k]) / (ys[k + 1] - ys[k]) for k in range(n - 1) if ys[k] * ys[k + 1] <= 0 and ys[k] != ys[k + 1]]
    return a, b, max([abs(r) for r in roots] + [1e-3]), "pwl", [], fx


def fam_misc(rng):
    kind = rng.choice(["expc", "logc", "cosx", "xexp", "sin", "cubic", "rational"])
    if kind == "expc":
        w = rng.choice([-1, 1]) * 10 ** rng.uniform(-2, 1); r = rng.uniform(-20, 20) / abs(w) / 4; c = math.exp(w * r)
        return r - rng.uniform(0.1, 30) / abs(w), r + rng.uniform(0.1, 30) / abs(w), r, kind, [w, c], f"- exp * {C(w)} x {C(c)}"
    if kind == "logc":
        r = 10 ** rng.uniform(-8, 8); c = math.log(r)
        return r * 10 ** (-rng.uniform(0.01, 10)), r * 10 ** rng.uniform(0.01, 10), r, kind, [c], f"- log x {C(c)}"
    if kind == "cosx":
        return rng.uniform(-3, 0.5), rng.uniform(0.8, 6), 0.7390851332151607, kind, [], "- cos x x"
    if kind == "xexp":
        r = rng.uniform(-0.9, 5); c = r * math.exp(r)
        return -1.0 + rng.uniform(0, 0.05), r + rng.uniform(0.1, 20), r, kind, [c], f"- * x exp x {C(c)}"
    if kind == "sin":
        w = 10 ** rng.uniform(-1, 2); k = rng.randint(-5, 5); m = rng.choice([0, 0, 1, 2])     # 2m+1 roots in the bracket
        r = k * math.pi / w
        a = (k - m - rng.uniform(0.05, 0.95)) * math.pi / w; b = (k + m + rng.uniform(0.05, 0.95)) * math.pi / w
        return a, b, (abs(k) + m) * math.pi / w, kind, [w], f"sin * {C(w)} x"
    if kind == "cubic":     # inflection at the root or beside it: (x-r)^3 + d (x-r)
        r = rng.uniform(-5, 5); d = rng.choice([0.0, 10 ** rng.uniform(-4, 1)])
        return r - rng.uniform(0.1, 10), r + rng.uniform(0.1, 10), r, kind, [r, d], f"+ pow - x {C(r)} 0x1.8p+1 * {C(d)} - x {C(r)}"
    r = 10 ** rng.uniform(-3, 3); s = rng.uniform(0.1, 10) * r      # x/(x+s) - r/(r+s): concave, saturating
    return r * 10 ** (-rng.uniform(0.1, 6)), r * 10 ** rng.uniform(0.1, 6), r, kind, [s], f"- / x + x {C(s)} {C(r / (r + s))}"


def fam_linear(rng):
    m = rng.choice([-1, 1]) * 10 ** rng.uniform(-6, 6); r = rng.choice([0.0, rng.uniform(-5, 5), rng.choice([-1, 1]) * 10 ** rng.uniform(-6, 6)])
    q = -m * r
    w = 10 ** rng.uniform(-3, 3) * max(abs(r), 1e-3)
    a = r - w * rng.uniform(0.01, 1); b = r + w * rng.uniform(0.01, 1)
    root = -q / m
    return a, b, root, "linear", [m, q], f"+ * {C(m)} x {C(q)}"


# ---------------------------------------------------------------- the whole double range (second strengthening pass)
DBL_MAX = 1.7976931348623157e308
HALF_MAX = 2.0 ** 1023
TINY = 5e-324


def p10(e):
    """10**e clipped to the positive doubles (subnormals included)"""
    if e >= 308.25: return DBL_MAX
    if e <= -323.3: return TINY
    return max(10.0 ** e, TINY)


def tight_acc(rng, root, a, b):
    """accuracy at the lower end of the quantifier (1e-14*|root| and a ladder above it), sometimes anywhere up to the width"""
    w = abs(b - a)
    if w == math.inf: w = DBL_MAX
    lo = max(1e-14 * abs(root) if root != 0 else 1e-14 * w, TINY)
    if lo >= w: return w
    if rng.random() < 0.75: return min(w, lo * rng.choice([1.0, 1.0, 1.0, 3.0, 10.0, 1e3, 1e7]))
    return math.exp(rng.uniform(math.log(lo), math.log(w)))


def fam_decades(rng):
    """brackets of up to 630 decades (0 / subnormal / -huge .. huge), roots from subnormal to 1e300, function values that underflow or
    overflow to +-inf towards the far end: Ridder's step degenerates to bisection there, so the iteration count approaches
    log2(width/accuracy) (up to ~2100)"""
    kind = rng.choice(["lin", "lin", "neglin", "scaledlin", "powlaw", "powlaw", "log", "atan", "rational", "exp", "cubic"])
    lr = rng.choice([rng.uniform(-323, 300), rng.uniform(-323, -250), rng.uniform(-120, 0), rng.uniform(-30, 30), rng.uniform(200, 300)])
    if kind in ("lin", "neglin", "scaledlin"):
        r = p10(lr); K = 1.0
        if kind == "scaledlin": K = rng.choice([-1, 1]) * p10(rng.uniform(-300, 300))
        fx = {"lin": f"- x {C(r)}", "neglin": f"- {C(r)} x", "scaledlin": f"* {C(K)} - x {C(r)}"}[kind]
        params = [K, r]; lo_ok_neg = True
    elif kind == "powlaw":
        p = rng.choice([0.5, 2.0, 3.0, 1.5, 0.25, 5.0, -1.0, -2.0, -0.5, rng.uniform(0.2, 4)])
        lr = max(-300.0, min(300.0, lr)) / max(1.0, abs(p)); r = p10(lr); c = _pow(r, p)
        fx = f"- pow x {hx(p)} {C(c)}"; params = [p, c]; lo_ok_neg = False
        r = _pow(c, 1 / p)
    elif kind == "log":
        r = p10(lr); fx = f"- log x {C(math.log(r))}"; params = [math.log(r)]; lo_ok_neg = False
    elif kind == "atan":
        r = p10(lr); s = p10(rng.uniform(-2, 2) - lr); t = rng.choice([0.0, rng.uniform(-1.2, 1.2)])
        fx = f"- atan * {C(s)} - x {C(r)} {C(t)}"; params = [s, r, t]; lo_ok_neg = True
        r = r + math.tan(t) / s
        if r <= 0: r = params[1]; fx = f"atan * {C(s)} - x {C(r)}"
    elif kind == "rational":
        r = p10(min(lr, 290.0)); s = rng.uniform(0.1, 10) * r
        fx = f"- / x + x {C(s)} {C(r / (r + s))}"; params = [s]; lo_ok_neg = False
    elif kind == "exp":
        r = p10(lr); t = rng.choice([-1, 1]) * rng.uniform(0.1, 50); w = t / r
        fx = f"- exp * {C(w)} x {C(math.exp(t))}"; params = [w, math.exp(t)]; lo_ok_neg = True
    else:
        r = p10(max(-100.0, min(100.0, lr / 3))); c = r * r * r
        fx = f"- * x * x x {C(c)}"; params = [c]; lo_ok_neg = True
    up = rng.choice([rng.uniform(0.3, 620), rng.uniform(100, 620), rng.uniform(0.3, 20)])
    hi = r * p10(min(up, 300.0))
    if up > 300 and hi < math.inf: hi = hi * p10(up - 300)
    hi = min(hi, DBL_MAX)
    q = rng.random()
    if q < 0.35: lo = 0.0
    elif q < 0.45: lo = TINY
    elif q < 0.75 or not lo_ok_neg: lo = r / p10(rng.uniform(0.3, 300))
    elif q < 0.9: lo = -p10(rng.uniform(-320, 308.25))
    else: lo = -hi
    if rng.random() < 0.3:      # the mirror image f(-x) on [-hi,-lo] (negative root)
        fx = " ".join("neg x" if t == "x" else t for t in fx.split()); lo, hi = -hi, -lo
    return lo, hi, r, "dec-" + kind, params, fx


def gen_decades(rng, n):
    cs = []
    for k in range(n):
        a, b, root, name, params, fx = fam_decades(rng)
        if not (a < b) or not all(math.isfinite(v) for v in [a, b] + list(params)): continue
        acc = tight_acc(rng, root, a, b)
        if rng.random() < 0.5: a, b = b, a
        op = "root" if k % 6 else "both"
        cs.append(Case(line(op, a, b, acc, name, params, fx), (op, name, "decades")))
    # the extremes: the widest brackets of doubles, the smallest roots and accuracies (about 2050 and 2100 halvings)
    for a, b, r in [(0.0, DBL_MAX, TINY), (-DBL_MAX, DBL_MAX, 1e-310), (0.0, DBL_MAX, 3e-320), (-DBL_MAX, 1e300, -TINY), (0.0, 1e300, 1e-100), (1e300, 0.0, 1e-100),
                    (-1e300, 1e-300, -1e-100), (0.0, 1e300, 1e-20)]:
        cs.append(Case(line("root", a, b, max(1e-14 * abs(r), TINY), "dec-lin", [1.0, r], f"- x {C(r)}"), ("root", "dec-lin", "decades", "extreme")))
    return cs


def ulps(x, k):
    """x moved by k units in the last place of x (k may be negative)"""
    return x + k * math.ulp(x)


def gen_inf_ends(rng, n):
    """function values that overflow to +-inf at one or both bracket ends (finite real functions whose double evaluation overflows:
    power laws, exponentials, scaled polynomials on brackets of many decades), combined with every kind of value at the other end:
    an exact zero, a ladder of tiny values of either sign next to the zero, an ordinary value of either sign, +-inf, NaN"""
    cs = []
    # (z, p): z^p is computed exactly, so x^p - z^p vanishes exactly at z
    exact = [(2.0, 3.0), (3.0, 2.0), (2.0, 4.0), (0.5, -1.0), (8.0, 2.0), (10.0, 3.0), (1024.0, 2.0), (2.0 ** -20, 3.0), (2.0 ** 100, 2.0), (2.0 ** -300, 2.0), (3.0, 5.0),
             (0.125, -2.0), (4.0, 1.5), (2.0 ** 60, -2.0), (7.0, 20.0)]
    for k in range(n):
        kind = rng.choice(["powlaw", "powlaw", "negpowlaw", "prodexp", "expm1", "scaled", "prodpoly", "odd", "even", "nanmix"])
        near_kind = rng.choice(["zero", "zero", "zero", "ladder", "ladder", "ordinary-inside", "ordinary-outside", "far-inf"])
        if kind in ("powlaw", "negpowlaw"):
            z, p = rng.choice(exact); c = _pow(z, p)
            fx = f"- pow x {hx(p)} {C(c)}" if kind == "powlaw" else f"- {C(c)} pow x {hx(p)}"
            if p > 0: far = p10(rng.uniform(308.3 / p + 0.5, 308.25))                              # x^p overflows beyond DBL_MAX^(1/p)
            else: far = rng.choice([0.0, p10(rng.uniform(-323.0, -308.3 / abs(p) - 0.5))])         # the pole of x^p, p < 0, and its neighbourhood
            dirn = 1.0 if far > z else -1.0; neg_ok = False
        elif kind == "prodexp":       # (x - z) * exp(x): exact zero at z, overflows beyond x ~ 709
            z = rng.choice([0.0, float(rng.randint(-5, 5)), rng.uniform(-5, 5)]); fx = f"* - x {C(z)} exp x"; far = rng.uniform(711, 1e4); dirn = 1.0; neg_ok = True
        elif kind == "expm1":         # exp(w x) - 1: exact zero at 0
            w = rng.choice([-1, 1]) * 10 ** rng.uniform(-3, 3); z = 0.0; fx = f"- exp * {C(w)} x c 0x1p+0"; far = math.copysign(rng.uniform(711, 1e5) / abs(w), w); dirn = math.copysign(1.0, w); neg_ok = True
        elif kind == "scaled":        # K (x - z): exact zero at z, overflows where K |x - z| > DBL_MAX
            K = rng.choice([-1, 1]) * p10(rng.uniform(200, 308)); z = rng.choice([0.0, rng.uniform(-5, 5), p10(rng.uniform(-6, 6))]); fx = f"* {C(K)} - x {C(z)}"
            dirn = rng.choice([-1.0, 1.0]); far = z + dirn * p10(rng.uniform(308.5 - math.log10(abs(K)), 308.5 - math.log10(abs(K)) + rng.uniform(0, 100))); neg_ok = True
            if abs(far) == math.inf: far = dirn * DBL_MAX
        elif kind == "prodpoly":      # (x - z) (1 + x^2): exact zero at z, overflows beyond ~1e103
            z = rng.choice([0.0, rng.uniform(-5, 5), p10(rng.uniform(-6, 6))]); fx = f"* - x {C(z)} + c 0x1p+0 * x x"; dirn = rng.choice([-1.0, 1.0]); far = dirn * p10(rng.uniform(103, 308.25)); neg_ok = True
        elif kind == "odd":           # x^3 (or x^5): -inf at one end, +inf at the other; the root 0 is found by bisection
            fx = rng.choice(["* x * x x", "* x * * x x * x x", f"* {C(p10(rng.uniform(250, 300)))} x"]); z = 0.0
            a = -p10(rng.uniform(104, 308.25)); b = p10(rng.uniform(104, 308.25))
            if rng.random() < 0.3: b = -a      # the midpoint is the root
            if rng.random() < 0.5: a, b = b, a
            cs.append(Case(line(rng.choice(["root", "both"]), a, b, 10 ** rng.uniform(-12, 3), "inf-odd", [], fx), ("root", "inf-end", "inf-both-opposite"))); continue
        elif kind == "even":          # the same infinite value at both ends (roots inside or not): must be rejected
            fx = rng.choice([f"- * x x {C(p10(rng.uniform(-3, 200)))}", "- cosh x c 0x1p+1", f"- {C(1.0)} * * x x * x x", "exp * x x", f"* {C(-1e300)} + c 0x1p+0 * x x"])
            L = 800.0 if "cosh" in fx or "exp" in fx else p10(rng.uniform(155, 308.25))
            a, b = -L * rng.choice([1.0, rng.uniform(0.5, 1.0)]), L
            if rng.random() < 0.5: a, b = b, a
            cs.append(Case(line("root", a, b, 10 ** rng.uniform(-12, 3), "inf-even", [], fx), ("root", "inf-end", "inf-both-equal"))); continue
        else:                         # NaN at one end, +-inf at the other
            fx = rng.choice(["+ log x * x * x x", "- sqrt x exp neg x", "/ exp x - x x"]); a = -rng.uniform(750, 1e4); b = p10(rng.uniform(103, 300))
            if fx.startswith("/"): a, b = rng.uniform(-5, 5), rng.uniform(711, 1e4)
            if rng.random() < 0.5: a, b = b, a
            cs.append(Case(line("root", a, b, 1e-8, "inf-nan", [], fx), ("root", "inf-end", "nan-end"))); continue
        # the near end
        if near_kind == "zero": near = z
        elif near_kind == "ladder": near = ulps(z, rng.choice([-1, 1]) * rng.choice([1, 2, 3, 10, 100, 1000, 10 ** 5, 10 ** 7, 10 ** 10])) if z != 0 else rng.choice([-1, 1]) * p10(rng.uniform(-323, -3))
        elif near_kind == "ordinary-inside": near = z + dirn * abs(z if z != 0 else 1.0) * rng.uniform(0.01, 0.9)
        elif near_kind == "ordinary-outside": near = z - dirn * abs(z if z != 0 else 1.0) * rng.uniform(0.01, 0.9)
        else: near = -far if neg_ok else z
        if not neg_ok and near < 0: near = z
        a, b = near, far
        if a == b: continue
        if rng.random() < 0.5: a, b = b, a
        acc = max(1e-14 * abs(z), TINY) * rng.choice([1.0, 10.0, 1e6]) if rng.random() < 0.5 else 10 ** rng.uniform(-12, 0)
        op = "root" if k % 4 else "both"
        cs.append(Case(line(op, a, b, acc, "inf-" + kind, [z], fx), (op, "inf-end", "near-" + near_kind)))
    return cs


def gen_narrow(rng, n):
    """brackets a few units in the last place to 1e-6 (relative) wide around a root, symmetric and lopsided; accuracy up to the width"""
    cs = []
    ladder = [1, 2, 3, 5, 10, 100, 1000, 10 ** 4, 10 ** 6, 10 ** 8, 10 ** 10]
    for k in range(n):
        kind = rng.choice(["lin", "powlaw", "cosx", "atan", "cubic", "expc"])
        if kind == "lin":
            r = rng.choice([-1, 1]) * p10(rng.uniform(-300, 300)); m = rng.choice([-1, 1]) * 10 ** rng.uniform(-3, 3); fx = f"* {C(m)} - x {C(r)}"
        elif kind == "powlaw":
            p = rng.choice([2.0, 3.0, 0.5, -1.0, 1.5]); r = p10(rng.uniform(-40, 40)); c = _pow(r, p); fx = f"- pow x {hx(p)} {C(c)}"
        elif kind == "cosx": r = 0.7390851332151607; fx = "- cos x x"
        elif kind == "atan":
            r = rng.uniform(-5, 5); t = rng.uniform(-1.2, 1.2); fx = f"- atan - x {C(r)} {C(t)}"; r = r + math.tan(t)
        elif kind == "cubic":
            r = rng.uniform(-5, 5); fx = f"* - x {C(r)} * - x {C(r)} - x {C(r)}"
        else:
            r = rng.uniform(-20, 20); fx = f"- exp x {C(math.exp(r))}"
        a = ulps(r, -rng.choice(ladder)); b = ulps(r, rng.choice(ladder))
        if rng.random() < 0.25:      # two adjacent doubles with the sign change between them (if there is such a pair next to r)
            f, _ = parse_fexpr(fx.split(), 0)
            for u, v in [(ulps(r, -1), r), (r, ulps(r, 1)), (ulps(r, -2), ulps(r, -1)), (ulps(r, 1), ulps(r, 2))]:
                if classify(f, u, v)[0] == "opp": a, b = u, v; break
        if not (a < b): continue
        w = b - a
        acc = rng.choice([w, w, w / 2, w / 3, math.ulp(r), max(1e-14 * abs(r), TINY), w * rng.uniform(0.01, 1)])
        acc = min(max(acc, TINY, 1e-14 * abs(r)), w)      # the quantifier: from 1e-14*|root| up to the width (the width itself when it is smaller than that)
        if rng.random() < 0.5: a, b = b, a
        op = "root" if k % 4 else "both"
        cs.append(Case(line(op, a, b, acc, "narrow-" + kind, [r], fx), (op, "narrow")))
    return cs


def gen_midpoint_overflow(rng, n):
    """a far end above DBL_MAX/2 and a root z with z + far end > DBL_MAX: the sum of the ends of a sub-bracket around the root can overflow
    (known finding K-C02-3: the midpoint is formed as (x1+x2)/2)"""
    cs = []
    for _ in range(n):
        hi = rng.choice([DBL_MAX, DBL_MAX, rng.uniform(1.02 * HALF_MAX, DBL_MAX)])
        zmin = max((DBL_MAX - hi) * 1.01, 1e293); r = math.exp(rng.uniform(math.log(zmin), math.log(0.98 * hi)))
        lo = rng.choice([0.0, 1.0, -1e308, -TINY, r / 10, r * 0.99, r * 1e-30])
        fx = rng.choice([f"- x {C(r)}", f"- {C(r)} x", f"- atan * {C(1e-307)} x {C(math.atan(1e-307 * r))}", f"- log x {C(math.log(r))}"])
        if "log" in fx and lo < 0: lo = 0.0
        if rng.random() < 0.5: lo, hi = -hi, -lo; fx = " ".join("neg x" if t == "x" else t for t in fx.split())
        a, b = (lo, hi) if rng.random() < 0.5 else (hi, lo)
        cs.append(Case(line("root", a, b, r * 10 ** rng.uniform(-14, -3), "midpoint-overflow", [r], fx), ("root", "midpoint-overflow")))
    return cs


def req_text(a, b, acc, fam, params, fx):
    return f"{hx(a)} {hx(b)} {hx(acc)} {fam} {len(params)} " + " ".join(hx(p) for p in params) + (" " if params else "") + fx


def gen_seq(rng, n):
    """histories: several requests served by one process, one after the other — the same request repeated, interleaved with others, with
    the ends swapped, a wide bracket then a narrow one then the wide one again for the same function, a request that runs into the iteration
    limit (warning) or one that takes ~2000 iterations before an ordinary one, a request that ends the process last"""
    cs = []
    fams = [fam_powlaw, fam_poly, fam_saturating, fam_pwl, fam_misc, fam_linear, fam_decades]
    def draw(want=("zero", "opp")):
        for _ in range(50):
            a, b, root, name, params, fx = rng.choice(fams)(rng)
            if not (a < b) or not all(math.isfinite(v) for v in [a, b] + list(params)): continue
            f, _ = parse_fexpr(fx.split(), 0)
            if classify(f, a, b)[0] not in want: continue
            acc = pick_acc(rng, root, a, b) if name[:4] != "dec-" else tight_acc(rng, root, a, b)
            if rng.random() < 0.5: a, b = b, a
            return [a, b, acc, name, params, fx, root, f]
        return None
    def narrowed(A):
        a, b, acc, name, params, fx, root, f = A
        lo, hi = min(a, b), max(a, b); d = (hi - lo) * 10 ** rng.uniform(-6, -1)
        if not (d < math.inf): d = abs(root) if root else 1.0
        l2, h2 = max(lo, root - d), min(hi, root + d)
        if not (l2 < h2) or classify(f, l2, h2)[0] not in ("zero", "opp"): return A
        return [l2, h2, min(acc, h2 - l2), name, params, fx, root, f]
    def swapped(A): return [A[1], A[0]] + A[2:]
    def stuck():        # adjacent doubles around an irrational root, accuracy = the width: the bracket cannot shrink, every iteration is spent, a warning is printed
        c = rng.choice([2.0, 3.0, 5.0, 7.0, 10.0]) * 4.0 ** rng.randint(-40, 40); p = rng.choice([2.0, 3.0]); r = c ** (1 / p)
        fx = f"- pow x {hx(p)} {C(c)}"; f, _ = parse_fexpr(fx.split(), 0)
        for a, b in [(ulps(r, -1), r), (r, ulps(r, 1))]:
            if classify(f, a, b)[0] == "opp": return [a, b, b - a, "stuck", [p, c], fx, r, f]
        return None
    for k in range(n):
        A = draw(); B = draw()
        if A is None or B is None: continue
        pat = rng.choice(["AA", "ABA", "AsA", "wnw", "SA", "LAB", "ABX", "AaA"])
        if pat == "AA": seq = [A, A]
        elif pat == "ABA": seq = [A, B, A] + ([B] if rng.random() < 0.5 else [])
        elif pat == "AsA": seq = [A, swapped(A), A]
        elif pat == "wnw": seq = [A, narrowed(A), A]
        elif pat == "SA":
            S = stuck()
            if S is None: continue
            seq = [A, S, A, S]
        elif pat == "LAB":      # a request of ~1300-2100 iterations first
            r = p10(rng.uniform(-300, -50)); L = [0.0, p10(rng.uniform(200, 308)), max(1e-14 * r, TINY), "dec-lin", [1.0, r], f"- x {C(r)}", r, None]
            seq = [A, L, A, B]
        elif pat == "ABX":      # the last request ends the process
            X = draw(want=("same", "nan"))
            if X is None: continue
            seq = [A, B, X]
        else:                   # the same function and bracket with another accuracy in between
            A2 = list(A); A2[2] = min(abs(A[1] - A[0]), A[2] * 10 ** rng.uniform(1, 6))
            seq = [A, A2, A]
        ln = f"seq {len(seq)} " + " ".join(req_text(*q[:6]) for q in seq)
        cs.append(Case(ln, ("seq", "seq-" + pat)))
    return cs

def gen_end_matrix(rng, n):
    """every pairing of end-value kinds in which a NaN or an exact zero takes part: (NaN) x (exact zero with value +0 or -0, a ladder of tiny
    values of either sign next to the zero, an ordinary value of either sign, +-inf, NaN), and (zero) x (zero, -0 zero, either sign), NaN at
    the lower or the upper end, the ends in either order; as single requests, both orders, and as the first, a middle or the last request of
    a history.  The functions are real functions with a restricted domain: G(x) with an exact zero at z, NaN beyond a domain limit d
    (sqrt / log / fractional power of a negative number, a removable 0/0 singularity exactly at the end)."""
    cs = []
    exact = [(2.0, 3.0), (3.0, 2.0), (0.5, -1.0), (8.0, 2.0), (1024.0, 2.0), (2.0 ** -20, 3.0), (4.0, 1.5), (9.0, 0.5), (2.0 ** 100, 2.0), (2.0 ** -300, 2.0), (16.0, 0.25), (4.0, 2.5)]
    def ordinary_request():
        for _ in range(50):
            a, b, root, name, params, fx = rng.choice([fam_powlaw, fam_poly, fam_saturating, fam_misc, fam_linear])(rng)
            if not (a < b) or not all(math.isfinite(v) for v in [a, b] + list(params)): continue
            f, _ = parse_fexpr(fx.split(), 0)
            if classify(f, a, b)[0] not in ("zero", "opp"): continue
            acc = pick_acc(rng, root, a, b)
            if rng.random() < 0.5: a, b = b, a
            return req_text(a, b, acc, name, params, fx)
        return None
    for k in range(n):
        near_kind = rng.choice(["zero", "zero", "zero", "negzero", "negzero", "ladder", "ordinary-inside", "ordinary-outside", "inf"])
        far_kind = rng.choice(["nan", "nan", "nan", "nan", "nan-at-limit", "zero2", "zero2", "plain", "nan-both"])
        gk = rng.choice(["lin", "scaledlin", "prodpoly", "powlaw", "sqrtc", "logx", "quot"])
        dirn = rng.choice([-1.0, 1.0])          # on which side of the zero the far end lies
        K = 1.0
        if gk == "lin":
            z = rng.choice([0.0, float(rng.randint(-5, 5)), rng.uniform(-5, 5), rng.choice([-1, 1]) * p10(rng.uniform(-300, 300))]); G = f"- x {C(z)}"
        elif gk == "scaledlin":
            z = rng.choice([0.0, rng.uniform(-5, 5), p10(rng.uniform(-6, 6))]); K = rng.choice([-1, 1]) * p10(rng.choice([0.0, 0.0, rng.uniform(-300, 300)])); G = f"* {C(K)} - x {C(z)}"
        elif gk == "prodpoly":
            z = rng.choice([0.0, rng.uniform(-5, 5), p10(rng.uniform(-6, 6))]); G = f"* - x {C(z)} + c 0x1p+0 * x x"
        elif gk == "powlaw":      # x^p - z^p, z^p exact; fractional p: NaN for x < 0 by itself
            z, p = rng.choice(exact); c = _pow(z, p); G = f"- pow x {hx(p)} {C(c)}"
            if p != int(p): dirn = -1.0
        elif gk == "sqrtc":       # sqrt(x) - s: zero at s^2, NaN for x < 0 by itself
            s = float(rng.randint(0, 12)) * 2.0 ** rng.randint(-30, 30); z = s * s; G = f"- sqrt x {C(s)}"; dirn = -1.0 if z > 0 else rng.choice([-1.0, 1.0])
        elif gk == "logx":        # log(x/u): zero at u (a power of two: the quotient is exact), NaN for x < 0 by itself
            u = 2.0 ** rng.randint(-200, 200); z = u; G = f"log / x {C(u)}"; dirn = -1.0
        else:                     # (x - z)(x - q)/(x - q): 0/0 exactly at q
            z = rng.choice([0.0, float(rng.randint(-5, 5)), rng.uniform(-5, 5)]); G = None
        if near_kind == "negzero":      # the zero end has the value -0.0
            if gk in ("lin", "prodpoly"): G = f"* c -0x1p+0 {G}"; K = -1.0
            elif gk == "scaledlin" and K > 0: G = f"* {C(-K)} - x {C(z)}"; K = -K
            elif gk != "scaledlin": near_kind = "zero"
        own_nan = gk in ("sqrtc", "logx") or (gk == "powlaw" and p != int(p))      # G is NaN for x < 0 by itself
        scale = abs(z) if z != 0 else rng.choice([1.0, 1.0, p10(rng.uniform(-300, 300))])
        if own_nan: far = rng.choice([-scale * rng.uniform(0.01, 100), -TINY, -p10(rng.uniform(-320, 300))]); dirn = -1.0
        else: far = z + dirn * scale * rng.choice([rng.uniform(0.5, 3.0), 10 ** rng.uniform(-6, 6), 1.0])
        if not math.isfinite(far) or far == z: far = z + dirn * max(scale, TINY)
        if not math.isfinite(far) or far == z: continue
        span = abs(far - z) if not own_nan else z
        # the near end
        if near_kind in ("zero", "negzero"): near = z
        elif near_kind == "ladder": near = ulps(z, rng.choice([-1, 1]) * rng.choice([1, 2, 3, 10, 100, 1000, 10 ** 5, 10 ** 7, 10 ** 10])) if z != 0 else rng.choice([-1, 1]) * p10(rng.uniform(-323, -3)) * min(1.0, scale)
        elif near_kind == "ordinary-inside": near = z + dirn * span * rng.uniform(0.01, 0.9)
        elif near_kind == "ordinary-outside": near = z - dirn * max(span, scale) * rng.uniform(0.01, 0.9)
        else:      # "inf": +-inf at the near end, K'(x - z') with z' beyond the near end
            near = z; zz = z - dirn * scale; Kb = rng.choice([-1, 1]) * DBL_MAX; G = f"* {C(Kb)} - x {C(zz)}"; own_nan = False
            if not math.isfinite(zz) or zz == z or gk == "quot": continue
            if far < 0 and dirn < 0 and gk in ("sqrtc", "logx", "powlaw"): far = z - scale * rng.uniform(0.5, 3.0)
        if near == far or not math.isfinite(near): continue
        # the domain limit d between the near end (and the zero) and the far end; everything beyond it (seen from the zero) is NaN
        inner = max(near, z) if dirn > 0 else min(near, z)
        if dirn * (inner - far) >= 0: continue
        if gk == "quot":
            q = far; fx = f"/ * - x {C(z)} - x {C(q)} - x {C(q)}"
            if far_kind not in ("nan", "nan-at-limit"): continue
        elif far_kind == "zero2":      # a zero at both ends: (x - z)(x - far), the second one with the value -0 when K < 0 ... no NaN anywhere
            if near_kind not in ("zero", "negzero") or gk not in ("lin", "scaledlin"): continue
            fx = f"* {G} - x {C(far)}"
        elif far_kind == "plain" and not own_nan:      # no NaN anywhere: a zero of either sign (or a tiny / ordinary / infinite value) against an ordinary value
            fx = G
        elif own_nan:
            if far_kind == "nan-both": near = far * rng.uniform(1.5, 10) if math.isfinite(far * 10) else far / 2
            fx = G
        else:
            if far_kind == "nan-at-limit":      # NaN exactly at the far end, which is the (open) domain limit: 0*log(+-(x - d)) at x = d is 0*(-inf)
                d = far; N = f"* c 0x0p+0 log - x {C(d)}" if dirn < 0 else f"* c 0x0p+0 log - {C(d)} x"
            else:
                t = rng.choice([rng.uniform(0.05, 0.95), 2.0 ** -rng.randint(1, 50), 1 - 2.0 ** -rng.randint(1, 50)])
                d = inner + (far - inner) * t
                if d == far or dirn * (d - inner) < 0: d = inner
                if rng.random() < 0.15: d = inner      # the domain ends exactly at the near end / the zero (closed limit: still finite there)
                N = f"* c 0x0p+0 sqrt - x {C(d)}" if dirn < 0 else f"* c 0x0p+0 sqrt - {C(d)} x"
                if far_kind == "nan-both":      # both ends outside the domain, on the same side
                    near = far - dirn * abs(far - d) * rng.uniform(0.01, 0.9)
                    if dirn * (near - d) <= 0: continue
            fx = f"* {G} + c 0x1p+0 {N}"      # G * (1 + 0*sqrt(..)): G itself (the sign of a zero included) inside the domain, NaN outside
        a, b = near, far
        if a == b: continue
        if rng.random() < 0.5: a, b = b, a
        acc = rng.choice([max(1e-14 * abs(z), TINY), 10 ** rng.uniform(-12, 0), abs(b - a)])
        name = "ends-" + gk; tags = ("end-matrix", "near-" + near_kind, "far-" + far_kind)
        r = rng.random()
        if r < 0.55: cs.append(Case(line("root", a, b, acc, name, [z], fx), ("root",) + tags))
        elif r < 0.7: cs.append(Case(line("both", a, b, acc, name, [z], fx), ("both",) + tags))
        else:       # as a member of a history: first, in the middle, last
            X = req_text(a, b, acc, name, [z], fx); A = ordinary_request(); B = ordinary_request()
            if A is None or B is None: continue
            seq = rng.choice([[X, A], [A, X], [A, X, B], [A, B, X], [A, A, X, A]])
            cs.append(Case(f"seq {len(seq)} " + " ".join(seq), ("seq", "seq-ends") + tags))
    # bracket ends that are NaN themselves (f(NaN) is NaN for every arithmetic expression in x)
    for _ in range(max(4, n // 25)):
        a, b, root, name, params, fx = rng.choice([fam_powlaw, fam_poly, fam_saturating, fam_misc, fam_linear])(rng)
        if not all(math.isfinite(v) for v in [a, b] + list(params)): continue
        a, b = rng.choice([(math.nan, b), (a, math.nan), (math.nan, math.nan), (math.nan, root), (root, math.nan)])
        cs.append(Case(line("root", a, b, 1e-8, name, params, fx), ("root", "nan-abscissa")))
    return cs



# ---------------------------------------------------------------- fourth pass: the boundary of the stopping test
def ridder_sim(f, lo, hi, maxit=120):
    """the brackets Ridder's iteration goes through on [lo,hi] when no accuracy stops it (generator-side aiming device, not a reference
    for any predicate): list of (end that is the new point x4, the other end) after each re-bracketing"""
    out = []
    x1, x2 = lo, hi; f1, f2 = f(lo), f(hi)
    if f1 != f1 or f2 != f2 or sgn(f1) * sgn(f2) >= 0: return out
    for _ in range(maxit):
        x3 = 0.5 * x1 + 0.5 * x2; f3 = f(x3)
        try:
            sc = max(abs(f3), abs(f1), abs(f2)); g1, g2, g3 = f1 / sc, f2 / sc, f3 / sc
            x4 = x3 + (x3 - x1) * sgn(g1 - g2) * g3 / math.sqrt(g3 * g3 - g1 * g2)
        except (ZeroDivisionError, ValueError, OverflowError): x4 = x3
        if x4 != x4: x4 = x3
        x4 = max(min(x1, x2), min(max(x1, x2), x4))
        f4 = f(x4)
        if f4 == 0 or f4 != f4 or f3 != f3: break
        if sgn(f3) != sgn(f4): x1, f1, x2, f2 = x3, f3, x4, f4; e = x3
        elif sgn(f1) != sgn(f4): x2, f2 = x4, f4; e = x1
        else: x1, f1 = x4, f4; e = x2
        if e == x4: break
        out.append((x4, e))
        if math.nextafter(x4, e) == e: break
    return out


def boundary_accs(rng, x4, e, floor_):
    """accuracies on both sides of the stopping test |x2 - x1| < acc for the bracket (x4,e): the width itself, the width moved by a ladder
    of units in the last place of the ends (the granularity with which a sign change can be placed in the bracket) and by a geometric
    ladder of relative distances; never below the quantifier's lower limit floor_"""
    w = abs(e - x4); u = max(math.ulp(e), math.ulp(x4))
    r = rng.random()
    if r < 0.45: j = rng.choice([1, 1, 2, 3, 4, 5, 6, 8, 12, 16, 32, 100, 1000]); acc = w - j * u
    elif r < 0.55: j = 0; acc = w
    elif r < 0.7: j = -rng.choice([1, 2, 4, 16, 1000]); acc = w - j * u
    else:
        d = rng.choice([-1, 1, 1]) * 10 ** rng.uniform(-15, -1); acc = w * (1 - d); j = (w - acc) / u
    if not (acc > 0) or acc < floor_: return None, 0
    return acc, j


def steep_fx(kind, K, c, t):
    g = f"{kind} * {C(K)} - x {C(c)}"
    return g if t == 0.0 else f"- {g} {C(t)}"


def gen_stop_boundary(rng, n, n_smooth):
    """requests aimed at the stopping test: (1) saturating / step-like functions atan, tanh, erf of K (x - c) whose transition is from a few
    accuracies wide down to far narrower than the spacing of doubles, at every scale of c (0, +-1e-300 .. +-1e300) and on brackets from a few
    accuracies to many decades wide; the brackets of the iteration are pre-computed, one of them (preferably of a width near the lower end of
    the accuracy range, 1e-14 |root|) is chosen, the transition is placed at its far end (seen from the point that would be returned; a ladder
    of units in the last place inside it) and the accuracy on either side of its width (ladder of ulps and of relative distances 1e-15 .. 1e-1):
    the worst case for 'the function changes sign within the accuracy of the returned point'.  (2) the same aiming of the accuracy at the
    width of an intermediate bracket for the smooth families.  (3) unaimed steep requests at the lowest accuracy."""
    cs = []
    for k in range(n):
        kind = rng.choice(["atan", "atan", "tanh", "erf"])
        sg = rng.choice([-1.0, 1.0])
        c0 = rng.choice([0.0, sg * rng.uniform(0.5, 20), sg * rng.uniform(1.0, 2.0), sg * p10(rng.uniform(-300, 300)), sg * p10(rng.uniform(-6, 6))])
        s = abs(c0) if c0 != 0 else p10(rng.uniform(-300, 300))
        q = rng.random()
        if q < 0.3 and c0 != 0: lo, hi = (0.0, c0 + s * 10 ** rng.uniform(-3, 3)) if c0 > 0 else (c0 - s * 10 ** rng.uniform(-3, 3), 0.0)
        elif q < 0.5: lo, hi = c0 - s * 10 ** rng.uniform(-12, -1), c0 + s * 10 ** rng.uniform(-12, -1)
        else: lo, hi = c0 - s * 10 ** rng.uniform(-3, 6), c0 + s * 10 ** rng.uniform(-3, 6)
        if not (math.isfinite(lo) and math.isfinite(hi) and lo < c0 < hi): continue
        floor0 = 1e-14 * abs(c0) if c0 != 0 else 1e-14 * (hi - lo)
        # steepness: transition width 1/K from ~100 accuracies down to 1e-20 of the spacing of doubles (fully saturated: +-pi/2, +-1 at every double but c)
        K = rng.choice([10 ** rng.uniform(-2, 3), 10 ** rng.uniform(3, 8), 10 ** rng.uniform(17, 22), 10 ** rng.uniform(17, 22)]) / max(floor0, 1e-300)
        if not (K < 1e300): K = 1e300
        t = 0.0 if rng.random() < 0.8 else rng.uniform(-0.5, 0.5)
        c = c0; pick = None
        for _round in range(2):      # place the transition, then once more on the brackets of the placed function (identical when saturated)
            f, _ = parse_fexpr(steep_fx(kind, K, c, t).split(), 0)
            br = ridder_sim(f, lo, hi)
            cand = [(x4, e) for (x4, e) in br if abs(e - x4) >= floor0 and math.nextafter(x4, e) != e]
            if not cand: pick = None; break
            low = [p for p in cand if abs(p[1] - p[0]) <= 30 * floor0]
            pick = rng.choice(low) if low and rng.random() < 0.7 else rng.choice(cand)
            x4, e = pick
            i = rng.choice([1, 1, 1, 2, 3, 5, 10, 100])
            cn = e + i * math.ulp(e) * (1.0 if x4 > e else -1.0)
            if rng.random() < 0.15: cn = e + (x4 - e) * 10 ** rng.uniform(-6, -0.5)
            if not (min(x4, e) < cn < max(x4, e)): cn = math.nextafter(e, x4)
            if not (min(x4, e) < cn < max(x4, e)) or not (lo < cn < hi): pick = None; break
            c = cn
        if pick is None: continue
        x4, e = pick
        acc, j = boundary_accs(rng, x4, e, 1e-14 * abs(c) if c != 0 else floor0)
        if acc is None or acc > hi - lo: continue
        a, b = (lo, hi) if rng.random() < 0.5 else (hi, lo)
        op = "root" if k % 5 else "both"
        side = "loose" if j > 0 else ("exact" if j == 0 else "tight")
        if k % 11 == 10:      # as a member of a history
            X = req_text(a, b, acc, "steep-" + kind, [K, c, t], steep_fx(kind, K, c, t)); Y = req_text(b, a, min(hi - lo, acc * 4), "steep-" + kind, [K, c, t], steep_fx(kind, K, c, t))
            cs.append(Case(f"seq 3 {X} {Y} {X}", ("seq", "stop-boundary", "steep", side)))
        else:
            cs.append(Case(line(op, a, b, acc, "steep-" + kind, [K, c, t], steep_fx(kind, K, c, t)), (op, "stop-boundary", "steep", side)))
    # (2) smooth families, accuracy at the width of an intermediate bracket
    fams = [fam_powlaw, fam_poly, fam_saturating, fam_misc, fam_linear, fam_pwl]
    for k in range(n_smooth):
        a, b, root, name, params, fx = rng.choice(fams)(rng)
        if not (a < b) or not all(math.isfinite(v) for v in [a, b] + list(params)): continue
        f, _ = parse_fexpr(fx.split(), 0)
        floor_ = 1e-14 * abs(root) if root != 0 else 1e-14 * (b - a)
        cand = [(x4, e) for (x4, e) in ridder_sim(f, a, b) if abs(e - x4) >= floor_]
        if not cand: continue
        x4, e = rng.choice(cand)
        acc, j = boundary_accs(rng, x4, e, floor_)
        if acc is None or acc > b - a: continue
        if rng.random() < 0.5: a, b = b, a
        op = "root" if k % 5 else "both"
        cs.append(Case(line(op, a, b, acc, name, params, fx), (op, "stop-boundary", "smooth", "loose" if j > 0 else ("exact" if j == 0 else "tight"))))
    # (3) unaimed: steep transitions anywhere in the bracket, the lowest accuracies
    for k in range(n_smooth):
        kind = rng.choice(["atan", "tanh", "erf"]); c = rng.choice([-1, 1]) * rng.choice([rng.uniform(1, 2), p10(rng.uniform(-300, 300))])
        acc = 1e-14 * abs(c) * rng.choice([1.0, 1.0, 1.0 + 10 ** rng.uniform(-6, 0), 3.0])
        K = rng.choice([1, 2, 4, 8, 16, 32, 64, 10 ** rng.uniform(2, 20)]) * 4.0 / acc
        if not (K < 1e300): continue
        lo, hi = rng.choice([(0.0, c * rng.uniform(2, 10)), (c - abs(c) * rng.uniform(0.01, 3), c + abs(c) * rng.uniform(0.01, 3))])
        lo, hi = min(lo, hi), max(lo, hi)
        if not (math.isfinite(lo) and math.isfinite(hi) and lo < c < hi): continue
        if rng.random() < 0.5: lo, hi = hi, lo
        cs.append(Case(line("root", lo, hi, acc, "steep-" + kind, [K, c, 0.0], steep_fx(kind, K, c, 0.0)), ("root", "steep", "unaimed")))
    return cs



# ---------------------------------------------------------------- fifth pass: the relations proved as C02_scale_invariant / C02_x_scale_covariant
SAFE_LO, SAFE_HI = 2.0 ** -900, 2.0 ** 900
def safe_mag(v): return v == 0 or SAFE_LO <= abs(v) <= SAFE_HI


def gen_metamorphic(rng, n):
    """pairs of requests in one history: a request and the same request with the objective function multiplied by +-2^j (answer and
    every evaluation abscissa must be the same), or with x measured in another unit (f(x / 2^j) on [2^j a, 2^j b], accuracy 2^j acc: answer
    and abscissae must be 2^j times those of the first).  Powers of two: on doubles both relations are exact as long as nothing under- or
    overflows (checked by the predicate on the values actually met)."""
    cs = []
    fams = [fam_powlaw, fam_poly, fam_saturating, fam_misc, fam_linear, fam_pwl]
    for k in range(n):
        a, b, root, name, params, fx = rng.choice(fams)(rng)
        if not (a < b) or not all(math.isfinite(v) for v in [a, b] + list(params)): continue
        f, _ = parse_fexpr(fx.split(), 0)
        if classify(f, a, b)[0] not in ("zero", "opp"): continue
        acc = pick_acc(rng, root, a, b)
        if rng.random() < 0.5: a, b = b, a
        A = req_text(a, b, acc, name, params, fx)
        if k % 2 == 0:
            Ks = [rng.choice([-1.0, 1.0]) * 2.0 ** rng.choice([0, 1, -1, rng.randint(-200, 200), rng.randint(-60, 60)]) for _ in range(rng.choice([1, 2]))]
            if Ks[0] == 1.0: Ks[0] = -1.0
            seq = [A] + [req_text(a, b, acc, "img-" + name, params, f"* {C(K)} {fx}") for K in Ks]
            cs.append(Case(f"seq {len(seq)} " + " ".join(seq), ("seq", "meta-fscale")))
        else:
            c = 2.0 ** rng.choice([1, -1, rng.randint(-200, 200), rng.randint(-40, 40), rng.randint(-40, 40)])
            if c == 1.0: c = 4.0
            fxs = " ".join(f"/ x {C(c)}" if t == "x" else t for t in fx.split())
            if not all(math.isfinite(v) and safe_mag(v) for v in (c * a, c * b, c * acc)): continue
            B = req_text(c * a, c * b, c * acc, "img-" + name, params, fxs)
            cs.append(Case(f"seq 2 {A} {B}", ("seq", "meta-xscale")))
    return cs


# ---------------------------------------------------------------- sixth pass: the TOP edge of the accuracy range (accuracy = the width of the bracket)
def top_edge_acc(rng, w, floor_):
    """accuracies at and just below the upper limit of the quantifier: the width w of the bracket, half / a third / a quarter / three quarters of
    it, each moved by a ladder of units in the last place (the double w is the width only up to rounding, so a few units above it as well) and by
    a geometric ladder of relative distances 1e-15 .. 1e-1; never below the lower limit floor_ (then the width itself)"""
    if not (w < math.inf): return DBL_MAX
    base = w * rng.choice([1.0, 1.0, 1.0, 1.0, 0.5, 0.5, 0.75, 0.25, 1 / 3, 2 / 3, 0.9, 0.51, 0.49])
    r = rng.random()
    if r < 0.35: acc = base
    elif r < 0.75: acc = ulps(base, rng.choice([1, -1, 1, -1, 2, -2, 3, -4, 8, -16, -100, -1000, -10 ** 6, -10 ** 9]))
    else: acc = base * (1 - rng.choice([-1, 1, 1, 1]) * 10 ** rng.uniform(-15, -1))
    if base == w and acc > ulps(w, 8): acc = ulps(w, 8)
    if not (acc > 0) or acc < floor_: acc = w
    return acc


def place_root(rng, lo, hi):
    """a point of the open bracket: anywhere, at binary fractions, next to either end (ladder of units in the last place and of relative distances),
    the midpoint"""
    w = hi - lo; r = rng.random()
    if r < 0.4: z = lo + w * rng.uniform(0.01, 0.99)
    elif r < 0.55: z = lo + w * rng.choice([0.5, 0.25, 0.75, 1 / 3, 2.0 ** -rng.randint(3, 40), 1 - 2.0 ** -rng.randint(3, 40)])
    elif r < 0.8:
        e, o = rng.choice([(lo, hi), (hi, lo)]); z = ulps(e, rng.choice([1, 2, 3, 10, 100, 1000, 10 ** 5, 10 ** 8]) * (1 if o > e else -1))
    else:
        e, o = rng.choice([(lo, hi), (hi, lo)]); z = e + (o - e) * 10 ** rng.uniform(-15, -1)
    return z if lo < z < hi else None


def gen_top_edge(rng, n):
    """linear objective functions (the ones for which exactness is demanded at every accuracy) in four forms, K (x - r), x - r, r - x, m x + q,
    at all scales of the root (0, +-5e-324 .. +-1e300), of the slope (1e-300 .. 1e300) and of the width (a few units in the last place of the
    root to many decades, one end at 0, ends of opposite sign, huge lopsided), the root anywhere in the bracket including next to an end; the
    accuracy at the top of the range.  As single requests, in both orders of the ends, and in histories (the request, the same with a
    thousand to 1e12 times smaller accuracy, the request again; next to unrelated requests).  A few non-linear families at the same accuracies
    ride along for the other clauses (accuracy, location, order, cost)."""
    cs = []
    others = [fam_powlaw, fam_poly, fam_saturating, fam_misc, fam_pwl]
    for k in range(n):
        if k % 6 == 5:      # non-linear, top-edge accuracy
            a, b, root, name, params, fx = rng.choice(others)(rng)
            if not (a < b) or not all(math.isfinite(v) for v in [a, b] + list(params)): continue
            acc = top_edge_acc(rng, b - a, 1e-14 * abs(root))
            if rng.random() < 0.5: a, b = b, a
            op = rng.choice(["root", "root", "both"])
            cs.append(Case(line(op, a, b, acc, name, params, fx), (op, name, "top-edge")))
            continue
        sg = rng.choice([-1.0, 1.0])
        r = rng.choice([0.0, sg * rng.uniform(0.1, 10), sg * rng.uniform(0.1, 10), sg * p10(rng.uniform(-6, 6)), sg * p10(rng.uniform(-300, 300)), sg * p10(rng.uniform(-323, -290)),
                        float(rng.randint(-8, 8)), sg * 2.0 ** rng.randint(-60, 60)])
        s = abs(r) if r != 0 else p10(rng.choice([0.0, rng.uniform(-6, 6), rng.uniform(-300, 300)]))
        shape = rng.choice(["around", "around", "around", "ulps", "zero-end", "decades", "opposite"])
        if shape == "around":
            wl = s * 10 ** rng.uniform(-12, 3); wr = wl * rng.choice([1.0, 10 ** rng.uniform(-3, 3), 10 ** rng.uniform(-10, 10)]); lo, hi = r - wl, r + wr
        elif shape == "ulps":
            lo, hi = ulps(r, -rng.choice([1, 2, 5, 30, 100, 10 ** 4, 10 ** 7, 10 ** 10])), ulps(r, rng.choice([1, 2, 5, 30, 100, 10 ** 4, 10 ** 7, 10 ** 10]))
        elif shape == "zero-end":
            if r == 0: continue
            lo, hi = sorted([0.0, r * rng.choice([1.0 + 10 ** rng.uniform(-12, 0), rng.uniform(1.1, 10), 10 ** rng.uniform(0.1, 12)])])
        elif shape == "decades":
            if r == 0: continue
            lo, hi = sorted([r * 10 ** -rng.uniform(0.1, 30), r * 10 ** rng.uniform(0.1, 30)])
        else:
            lo, hi = -s * 10 ** rng.uniform(-3, 8) + min(r, 0.0), s * 10 ** rng.uniform(-3, 8) + max(r, 0.0)
        if not (math.isfinite(lo) and math.isfinite(hi) and lo < hi): continue
        if rng.random() < 0.6 or not (lo < r < hi):      # move the root: the bracket stays, the root goes anywhere inside it
            z = place_root(rng, lo, hi)
            if z is None: continue
            r = z
        w = hi - lo
        if not (w < math.inf): continue
        form = rng.choice(["scaled", "scaled", "plain", "flipped", "mxq", "mxq"])
        if form == "scaled":
            K = rng.choice([-1, 1]) * rng.choice([rng.uniform(0.1, 10), p10(rng.uniform(-6, 6)), p10(rng.uniform(-300, 300))])
            if not (abs(K) * max(w, abs(lo), abs(hi)) < 1e300 and abs(K) * w > 1e-290): K = math.copysign(1.0, K)
            name, params, fx = "top-scaled", [K, r], f"* {C(K)} - x {C(r)}"
        elif form == "plain": name, params, fx = "top-plain", [r], f"- x {C(r)}"
        elif form == "flipped": name, params, fx = "top-flipped", [r], f"- {C(r)} x"
        else:
            m = rng.choice([-1, 1]) * rng.choice([float(rng.randint(1, 9)), 10 ** rng.uniform(-6, 6), p10(rng.uniform(-150, 150))]); q = -m * r
            if not (math.isfinite(q) and abs(m) * max(abs(lo), abs(hi)) < 1e300): continue
            name, params, fx = "linear", [m, q], f"+ * {C(m)} x {C(q)}"
        f, _ = parse_fexpr(fx.split(), 0)
        if classify(f, lo, hi)[0] != "opp": continue
        floor_ = 1e-14 * abs(r) if r != 0 else 1e-14 * w
        acc = top_edge_acc(rng, w, floor_)
        a, b = (lo, hi) if rng.random() < 0.5 else (hi, lo)
        q_ = rng.random()
        if q_ < 0.6: cs.append(Case(line("root", a, b, acc, name, params, fx), ("root", "linear-any-form", "top-edge", shape)))
        elif q_ < 0.8: cs.append(Case(line("both", a, b, acc, name, params, fx), ("both", "linear-any-form", "top-edge", shape)))
        else:
            X = req_text(a, b, acc, name, params, fx)
            small = max(floor_, min(acc, acc * 10 ** -rng.uniform(3, 12)), TINY)
            Y = req_text(b, a, small, name, params, fx)
            if rng.random() < 0.5: seq = [X, Y, X]
            else:
                o = rng.choice(others)(rng)
                if not (o[0] < o[1]) or not all(math.isfinite(v) for v in [o[0], o[1]] + list(o[4])): continue
                Z = req_text(o[0], o[1], top_edge_acc(rng, o[1] - o[0], 1e-14 * abs(o[2])), o[3], o[4], o[5])
                f2, _ = parse_fexpr(o[5].split(), 0)
                if classify(f2, o[0], o[1])[0] not in ("zero", "opp"): continue
                seq = rng.choice([[Z, X], [X, Z, X], [Y, Z, X]])
            cs.append(Case(f"seq {len(seq)} " + " ".join(seq), ("seq", "linear-any-form", "top-edge", shape)))
    return cs


SGN_SPECIAL = [0.0, -0.0, 5e-324, -5e-324, 2.2250738585072014e-308, -2.2250738585072014e-308, 1.0, -1.0, 1e-300, -1e-300, 1e300, -1e300,
               1.7976931348623157e308, -1.7976931348623157e308, math.inf, -math.inf, math.nan]


def gen_sign(rng, n):
    """seventh pass: Sign(double) and Sign(double,double) themselves (the end test, Ridder's formula and the three re-bracketing tests of
    Find_Root are written with them): every pair of special values, and random magnitudes over the whole double range"""
    cs = []
    for x in SGN_SPECIAL:
        cs.append(Case(f"sgn {hx(x)}", ("sgn", "sign-special")))
        for y in SGN_SPECIAL:
            cs.append(Case(f"sgn2 {hx(x)} {hx(y)}", ("sgn2", "sign-special")))
    def rv():
        r = rng.random()
        if r < 0.15: return rng.choice(SGN_SPECIAL)
        return rng.choice([-1, 1]) * rng.uniform(1, 10) * 10.0 ** rng.randint(-320, 307)
    for _ in range(n):
        cs.append(Case(f"sgn {hx(rv())}", ("sgn",)))
        cs.append(Case(f"sgn2 {hx(rv())} {hx(rv())}", ("sgn2",)))
    return cs


def gen_acc_ladder(rng, n):
    """seventh pass: one request at 2-4 accuracies in one history, in any order (C02_sharper_accuracy_continues: the evaluations at the
    coarser accuracy are the first evaluations at the sharper one)"""
    cs = []
    fams = [fam_powlaw, fam_poly, fam_saturating, fam_pwl, fam_misc, fam_decades]
    for _ in range(n):
        a, b, root, name, params, fx = rng.choice(fams)(rng)
        if not (a < b) or not all(math.isfinite(v) for v in [a, b] + list(params)): continue
        f, _ = parse_fexpr(fx.split(), 0)
        if classify(f, a, b)[0] != "opp": continue
        w = b - a
        floor_ = max(1e-14 * abs(root), 5e-324) if root != 0 else max(1e-14 * w, 5e-324)
        if not (floor_ < w) or w == math.inf: continue
        accs = [w] if rng.random() < 0.3 else []
        while len(accs) < rng.randint(2, 4):
            accs.append(math.exp(rng.uniform(math.log(floor_), math.log(w))))
        if rng.random() < 0.3: accs.append(floor_)
        rng.shuffle(accs)
        reqs = []
        for acc in accs:
            x, y = (a, b) if rng.random() < 0.7 else (b, a)
            reqs.append(req_text(x, y, acc, name, params, fx))
        cs.append(Case(f"seq {len(reqs)} " + " ".join(reqs), ("seq", "acc-ladder")))
    return cs


def generate(rng, tier):
    cs = []
    big = tier != "quick"
    N = 12000 if big else 500
    fams = [fam_powlaw, fam_poly, fam_saturating, fam_pwl, fam_misc, fam_linear]
    for fam in fams:
        for k in range(N if fam is not fam_linear else N // 2):
            a, b, root, name, params, fx = fam(rng)
            if not (a < b) or not all(math.isfinite(v) for v in (a, b)): continue
            f, _ = parse_fexpr(fx.split(), 0)
            fa, fb = f(a), f(b)
            tags = [name]
            if fa != fa or fb != fb: tags.append("nan-end")
            elif fa == 0 or fb == 0: tags.append("end-zero")
            elif (fa > 0) == (fb > 0): tags.append("no-sign-change")
            else: tags.append("bracketed")
            acc = pick_acc(rng, root, a, b)
            if rng.random() < 0.5: a, b = b, a
            op = "root" if k % 8 else "both"
            cs.append(Case(line(op, a, b, acc, name, params, fx), (op,) + tuple(tags)))
    # the case that exposed the former stopping rule (x^20 - 1e-10 on [0,10], accuracy 1e-6) and relatives
    for p, c, hi, acc in [(20.0, 1e-10, 10.0, 1e-6), (20.0, 1e-10, 10.0, 1e-12), (10.0, 1e-10, 100.0, 1e-8), (30.0, 1e-20, 10.0, 1e-6), (16.0, 1e-8, 5.0, 1e-9)]:
        cs.append(Case(line("root", 0.0, hi, acc, "powlaw", [p, c], f"- pow x {hx(p)} {C(c)}"), ("root", "powlaw", "creep")))
        cs.append(Case(line("root", hi, 0.0, acc, "powlaw", [p, c], f"- pow x {hx(p)} {C(c)}"), ("root", "powlaw", "creep")))
    # wide brackets on which rounding used to push Ridder's point past a bracket end (fixed: 8ac6e07, 74cd1af)
    for p, c, lo_, hi_, acc in [(1.5, 1000.0, 0.0, 1e15, 1e-6), (0.5, 3.0, 0.0, 1e16, 1e-6), (2.5, 1e5, 0.0, 1e13, 1e-8), (5.0, 3450.0, 0.0, 4358688237969.189, 5e-14),
                                (2.0, 1511915180.0, 7.399788592188062e-05, 4985942807988200.0, 2.49e15), (1.5, 1e-30, 1e-40, 1e20, 1e-34), (3.0, 1e30, 1e-12, 1e12, 1e-4)]:
        cs.append(Case(line("root", lo_, hi_, acc, "powlaw", [p, c], f"- pow x {hx(p)} {C(c)}"), ("root", "powlaw", "wide")))
        cs.append(Case(line("both", hi_, lo_, acc, "powlaw", [p, c], f"- pow x {hx(p)} {C(c)}"), ("both", "powlaw", "wide")))
    for _ in range(400 if big else 60):     # x^p - c with fractional p on [0 or tiny, huge], accuracy at 1e-14*root
        p = rng.choice([0.5, 1.5, 2.5, 0.25, 3.5, rng.uniform(0.2, 4)]); r = 10 ** rng.uniform(-6, 6); c = r ** p
        hi_ = r * 10 ** rng.uniform(8, 14); lo_ = rng.choice([0.0, r * 10 ** (-rng.uniform(8, 14))])
        cs.append(Case(line("root", lo_, hi_, 1e-14 * r * rng.choice([1.0, 1.0, 10.0, 1e6]), "powlaw", [p, c], f"- pow x {hx(p)} {C(c)}"), ("root", "powlaw", "wide")))
    # function values at the edge of the double range (products f1*f2, f3*f3, (x3-x1)*f3 under/overflow)
    cs.append(Case(line("root", 13.0, 1e15, 1e-3, "powlaw", [20.0, 2.9e75], f"- pow x {hx(20.0)} {C(2.9e75)}"), ("root", "scaled")))
    for _ in range(60 if big else 12):
        K = 10 ** rng.choice([-170, -160, -150, -120, 120, 150, 160, 200])
        base, a, b = rng.choice([("- * x x c 0x1p+1", 0.0, 3.0), ("- x c 0x1p+0", -1.0, 3.0), ("- exp x c 0x1p+2", 0.5, 30.0)])
        b = b * rng.uniform(0.7, 1.3)
        cs.append(Case(line("root", a, b, 10 ** rng.uniform(-12, -3), "scaled", [K], f"* {C(K)} {base}"), ("root", "scaled")))
    # ... the same scales with equal signs at the ends (two roots inside, or none): the product of the end values underflows to 0 or overflows,
    # the request must still be rejected
    for _ in range(60 if big else 12):
        K = rng.choice([-1, 1]) * 10 ** rng.choice([-300, -200, -170, -160, -150, 150, 160, 200, 300])
        base, a, b = rng.choice([("* - x c 0x1p+0 - x c 0x1p+1", 0.0, 3.0), ("+ c 0x1p-1 * x x", -1.0, 2.0), ("- exp neg * x x c 0x1p-1", -3.0, 3.0)])
        if rng.random() < 0.5: a, b = b, a
        cs.append(Case(line("root", a, b, 10 ** rng.uniform(-12, -3), "bad", [], f"* {C(K)} {base}"), ("root", "no-sign-change", "scaled")))
    # huge or tiny odd functions on a bracket symmetric about the root: the midpoint is the root itself (f3 == 0) while f1*f2 and f3*f3 are out of range
    for _ in range(40 if big else 10):
        K = 10 ** rng.choice([-250, -160, 100, 160, 250]); a = 10 ** rng.uniform(-2, 2)
        z = rng.choice([0.0, 0.0, float(rng.randint(-3, 3))]); X = "x" if z == 0.0 else f"- x {C(z)}"
        g = rng.choice([f"* {X} * {X} {X}", X, f"- exp {X} exp neg {X}"])
        if g.startswith("- exp"): a = min(a, 50.0)
        fx = f"* {C(K)} {g}"
        lo_, hi_ = z - a, z + a
        if 0.5 * (lo_ + hi_) != z: continue
        cs.append(Case(line(rng.choice(["root", "both"]), lo_, hi_, 10 ** rng.uniform(-10, -3), "sym", [z], fx), ("root", "scaled", "midpoint-root")))
    # brackets whose width exceeds the largest double (finite ends of opposite sign), bounded functions
    for _ in range(20 if big else 6):
        a = -10 ** rng.uniform(307.5, 308.2); b = 10 ** rng.uniform(307.5, 308.2); r = rng.uniform(-1.4, 1.4)
        if rng.random() < 0.5: a, b = b, a
        cs.append(Case(line(rng.choice(["root", "both"]), a, b, 10 ** rng.uniform(-10, -4), "wide", [], f"- atan x {C(r)}"), ("root", "huge-bracket")))
    # an end that is an exact zero (product form vanishes exactly at the end)
    for _ in range(300 if big else 40):
        z = rng.choice([0.0, rng.uniform(-5, 5), 10 ** rng.uniform(-6, 6)]); o = z + rng.choice([-1, 1]) * 10 ** rng.uniform(-3, 3)
        g = rng.choice([f"+ c 0x1p+0 * x x", f"exp x", f"- x {C(o + (o - z))}", f"- x {C(o)}"])     # last: both ends are zeros
        if g == "exp x" and max(abs(z), abs(o)) > 500: g = "+ c 0x1p+0 * x x"      # keep the function finite at both ends
        fx = f"* - x {C(z)} {g}"
        a, b = (z, o) if rng.random() < 0.5 else (o, z)
        cs.append(Case(line("root", a, b, 10 ** rng.uniform(-12, 0), "endzero", [z], fx), ("root", "end-zero")))
    # brackets without a sign change, NaN ends
    for _ in range(300 if big else 40):
        a = rng.uniform(-5, 5); b = a + 10 ** rng.uniform(-3, 2)
        if rng.random() < 0.5: a, b = b, a
        fx = rng.choice([f"+ c 0x1p+0 * x x", f"neg exp x", f"* - x {C(min(a, b) - 1.0)} - x {C(min(a, b) - 2.0)}", f"- * - x {C((a + b) / 2)} - x {C((a + b) / 2)} {C(abs(b - a) ** 2 / 16)}"])
        cs.append(Case(line("root", a, b, 1e-8, "bad", [], fx), ("root", "no-sign-change")))
        an = -abs(a) - 0.5
        fx2 = rng.choice([f"log x", f"sqrt x", f"- sqrt x c 0x1p+0", f"log * x x", f"/ - x {C(an)} - x {C(an)}"])
        cs.append(Case(line("root", an, abs(b) + 1.0, 1e-8, "nan", [], fx2) if rng.random() < 0.5 else line("root", abs(b) + 1.0, an, 1e-8, "nan", [], fx2), ("root", "nan-end")))
    # second strengthening pass: the whole double range, infinite end values, brackets a few ulps wide, histories
    cs += gen_decades(rng, 3000 if big else 150)
    cs += gen_inf_ends(rng, 3000 if big else 160)
    cs += gen_narrow(rng, 3000 if big else 120)
    cs += gen_seq(rng, 1500 if big else 70)
    cs += gen_midpoint_overflow(rng, 60 if big else 6)
    # third strengthening pass: the matrix of end-value kinds with NaN and exact zeros (+0, -0), NaN abscissae
    cs += gen_end_matrix(rng, 4000 if big else 260)
    # fourth pass: the boundary of the stopping test, step-like functions with the transition at the far end of the final bracket
    cs += gen_stop_boundary(rng, 12000 if big else 700, 4000 if big else 200)
    # fifth pass: metamorphic pairs (scaling of the objective function, unit of x)
    cs += gen_metamorphic(rng, 4000 if big else 240)
    # sixth pass: accuracies at the top of the range (the width of the bracket and its neighbourhood), linear functions in every form and scale
    cs += gen_top_edge(rng, 8000 if big else 500)
    # seventh pass: Sign / Sign(x,y) directly; one request at several accuracies
    cs += gen_sign(rng, 5000 if big else 150)
    cs += gen_acc_ladder(rng, 3000 if big else 90)
    return cs


# ---------------------------------------------------------------- S4
def sgn(v): return (v > 0) - (v < 0)


def classify(f, lo, hi):
    """what the property demands of the request: 'nan' / 'same' -> the process ends with a diagnostic, 'zero' -> the zero end comes back,
    'opp' -> a root comes back.  Infinite end values are values like any others (a real function whose double evaluation overflows)."""
    fl, fr = f(lo), f(hi)
    if fl != fl or fr != fr: return "nan", fl, fr
    if fl == 0 or fr == 0: return "zero", fl, fr
    if (fl > 0) == (fr > 0): return "same", fl, fr
    return "opp", fl, fr


def parse_req(t, k):
    """one request 'a b acc fam np p1..pnp fexpr' starting at token k -> (a, b, acc, fam, params, f, fexpr tokens, next index)"""
    a, b, acc = (tokf(x) for x in t[k:k + 3]); fam = t[k + 3]; n = int(t[k + 4]); params = [tokf(x) for x in t[k + 5:k + 5 + n]]
    f, j = parse_fexpr(t, k + 5 + n)
    return a, b, acc, fam, params, f, t[k + 5 + n:j], j


def parse_case(ln):
    """-> op, list of requests"""
    t = ln.split(); op = t[0]
    if op == "seq":
        n = int(t[1]); k = 2; reqs = []
        for _ in range(n):
            r = parse_req(t, k); reqs.append(r); k = r[-1]
        return op, reqs
    return op, [parse_req(t, 1)]


def split_out(io, ncalls):
    """-> list of (result, warn, count, trace) per call"""
    t = io.split(); out = []; k = 0
    try:
        for _ in range(ncalls):
            n = int(t[k + 2]); out.append((tokf(t[k]), t[k + 1], n, [tokf(x) for x in t[k + 3:k + 3 + n]])); k += 3 + n
    except (IndexError, ValueError): return None
    return out if k == len(t) else None


def ncalls_of(op, reqs): return 2 if op == "both" else len(reqs)


def rebracket_cases(tr):
    """which of the three re-bracketing branches ran in each iteration but the last, from the trace"""
    out = []
    if len(tr) < 6: return out
    x1, x2 = tr[0], tr[1]
    k = 2
    while k + 3 < len(tr) + 0 and k + 2 < len(tr):
        x3, x4 = tr[k], tr[k + 1]; nxt = tr[k + 2]
        cand = {"a": ((x3 + x4) / 2.0, x3, x4), "b": ((x1 + x4) / 2.0, x1, x4), "c": ((x4 + x2) / 2.0, x4, x2)}
        hit = [n for n, (m, _, _) in cand.items() if m == nxt]
        if len(hit) != 1: break
        out.append(hit[0]); _, x1, x2 = cand[hit[0]]
        k += 2
    return out


def region(f, lo, hi, fl, fr):
    """where in the input space a sign-change request lies (suffix of the signature; known findings are matched on it).
    midpoint-sum-overflows: the sign change of f lies where x + hi exceeds the largest double (resp. x + lo below the most negative one), i.e.
    f keeps the sign of the near end up to t = (DBL_MAX - hi) + 2^970: the sum x1 + x2 of the ends of a sub-bracket around it can overflow."""
    if hi > HALF_MAX:
        t = max(lo, (DBL_MAX - hi) + 2.0 ** 970)
        if t <= hi:
            m = f(t)
            if sgn(m) == sgn(fl) and sgn(m) != sgn(fr): return ":midpoint-sum-overflows"
    if lo < -HALF_MAX:
        t = min(hi, -((DBL_MAX + lo) + 2.0 ** 970))
        if t >= lo:
            m = f(t)
            if sgn(m) == sgn(fr) and sgn(m) != sgn(fl): return ":midpoint-sum-overflows"
    return ""


def check_returned(op, req, calls):
    """the clauses about one request that must return a number, evaluated on the calls made for it (two for op both)"""
    out = []
    a, b, acc, fam, params, f, fx, _ = req
    lo, hi = min(a, b), max(a, b)
    cls, fl, fr = classify(f, lo, hi)
    if cls == "zero":
        for (x, w, n, tr) in calls:
            if not ((fl == 0 and x == lo) or (fr == 0 and x == hi)): out.append((op + ":end-zero", f"a bracket end is a zero of f (f({lo!r}) = {fl!r}, f({hi!r}) = {fr!r}) but {x!r} was returned"))
            if n != 2: out.append((op + ":end-zero-evals", f"{n} evaluations for a bracket with a zero end"))
        return out
    # opposite signs at the ends: function values whose products would leave the double range, and infinite ones, are inside the property like
    # any others (Find_Root compares signs, scales Ridder's step and bisects where nothing can be interpolated); no region is exempt
    cls_r = region(f, lo, hi, fl, fr)
    for (x, w, n, tr) in calls:
        bad = [u for u in tr if not (lo <= u <= hi)]
        if bad: out.append((op + ":location" + cls_r, f"f evaluated at {bad[0]!r} outside the bracket [{lo!r},{hi!r}]"))
        if len(tr) >= 2 and (tr[0] != lo or tr[1] != hi): out.append((op + ":ends-first", "the first two evaluations are not the bracket ends"))
        # the shape of a run (C02_trace_shape_any_instance): ends, then two evaluations per pass, the number returned being the abscissa of the
        # last evaluation; an iteration-limit return has one more evaluation, at the same abscissa, and exactly 2 + 2*2200 + 1 in all
        if w != "1":
            if n < 4 or n % 2 or n > 2 + 2 * 2200 or hx(tr[-1]) != hx(x):
                out.append((op + ":trace-shape", f"{n} evaluations, the last at {tr[-1]!r}, returned {x!r}: not ends + two per pass with the answer evaluated last"))
        elif n != 2 + 2 * 2200 + 1 or hx(tr[-1]) != hx(x) or hx(tr[-2]) != hx(x):
            out.append((op + ":trace-shape", f"iteration-limit return after {n} evaluations, the last two at {tr[-2:]!r}, returned {x!r}"))
        # the stopping test (C02_stopping_test_any_instance): a number returned from the loop is a point where f == 0, or an end of a pair of
        # evaluated abscissae with non-zero function values of different sign whose computed distance is < acc (values recomputed here; skipped
        # when a recomputed value is NaN, where Sign(x,y) != x means something else)
        if w != "1" and n >= 4 and acc == acc:
            fx_ = f(x)
            if fx_ == fx_ and fx_ != 0.0:
                ok = False
                for u in tr:
                    if abs(u - x) < acc:
                        fu = f(u)
                        if fu != fu: ok = True; break
                        if fu != 0.0 and sgn(fu) != sgn(fx_): ok = True; break
                if not ok: out.append((op + ":stop-pair" + cls_r, f"returned {x!r} with f = {fx_!r} != 0 after {n} evaluations, but no evaluated abscissa within acc = {acc!r} of it has a function value of the other sign"))
        if not (lo <= x <= hi): out.append((op + ":inside" + cls_r, f"returned {x!r} outside the bracket [{lo!r},{hi!r}]")); continue
        pts = [max(lo, x - acc), x, min(hi, x + acc)] + [u for u in tr if abs(u - x) <= acc and lo <= u <= hi]
        vals = [f(u) for u in pts]
        if any(v != v for v in vals) or not (min(vals) <= 0.0 <= max(vals)):
            d = ""
            if fam in ("powlaw",): d = f" (root {params[1] ** (1 / params[0])!r})"
            out.append((op + (":accuracy-maxiter" if w == "1" else ":accuracy") + cls_r, f"no sign change or zero of f within acc = {acc!r} of the returned {x!r}{d}: f = {vals[:3]!r} at x-acc, x, x+acc" + (f" (returned after the maximum number of iterations, {(n - 3) // 2}, with a warning)" if w == "1" else "")))
        # the cost (C02_evaluation_count): every pass at least halves the bracket, so a bracket narrower than acc * 2^N is answered after
        # at most 2 + 2N evaluations.  On doubles a pass leaves at most half the width plus one spacing of doubles at the bracket, which sums to
        # less than 2 spacings at the returned point: for acc >= 40 spacings, 0.9 acc instead of acc absorbs it a priori (one more pass at most).
        if w != "1" and acc >= 40 * 2.0 ** -52 * abs(x) and acc >= 40 * 2.0 ** -1022:
            wd = 0.5 * hi - 0.5 * lo; N = 1
            while not (wd < 0.9 * acc) and N < 2300: wd *= 0.5; N += 1
            if n > 2 + 2 * N: out.append((op + ":evaluation-count" + cls_r, f"{n} evaluations for a bracket of width {hi - lo!r} and accuracy {acc!r}: more than 2 + 2*{N} (every pass must at least halve the bracket)"))
        lin = linear_spec(fam, params, fx, lo, hi)
        if lin is not None:
            root, tol = lin      # exact root (Fraction) and the a-priori rounding allowance for a Ridder point of this function on this bracket
            # the first Ridder point of a linear function is the root up to rounding
            if len(tr) >= 4 and abs(Fraction(tr[3]) - root) > tol: out.append((op + ":linear-exact", f"linear function: first Ridder point {tr[3]!r} differs from the root {float(root)!r} by more than rounding ({float(tol)!r})"))
            # ... and so is the answer, whatever the accuracy (also when it equals the width of the bracket, so that any point of the bracket would satisfy
            # the accuracy clause) and however few evaluations were made; later Ridder points (n > 4) are only known to lie within acc of it
            if abs(Fraction(x) - root) > tol + (Fraction(acc) if n > 4 and acc == acc and acc != math.inf else 0):
                out.append((op + ":linear-exact-result", f"linear function: returned {x!r} after {n} evaluations, root {float(root)!r} (bracket [{lo!r},{hi!r}], accuracy {acc!r}, allowance for rounding {float(tol)!r})"))
    return out


def check_metamorphic(c, reqs, calls):
    """histories made of a request and its images under scaling of the objective function / change of the unit of x"""
    out = []
    if "meta-fscale" in c.tags:
        a, b, acc, fam, params, f, fx, _ = reqs[0]; x0, w0, n0, t0 = calls[0]
        for k in range(1, len(reqs)):
            fk = reqs[k][5]; K = tokf(reqs[k][6][2])
            if not all(safe_mag(f(u)) and safe_mag(fk(u)) and fk(u) == K * f(u) for u in t0): continue      # exact scaling of every value met
            xk, wk, nk, tk = calls[k]
            if not (hx(xk) == hx(x0) and wk == w0 and [hx(u) for u in tk] == [hx(u) for u in t0]):
                out.append(("seq:scale-invariance", f"the objective function multiplied by {K!r} is answered {xk!r} after {nk} evaluations, the function itself {x0!r} after {n0} (same bracket and accuracy)"))
    if "meta-xscale" in c.tags and len(reqs) == 2:
        cc = reqs[1][2] / reqs[0][2]; (x0, w0, n0, t0), (x1, w1, n1, t1) = calls
        if all(safe_mag(u) and safe_mag(cc * u) for u in t0 + t1 + [x0, reqs[0][2]]) and all(safe_mag(reqs[0][5](u)) for u in t0):
            if not (hx(x1) == hx(cc * x0) and w1 == w0 and [hx(u) for u in t1] == [hx(cc * u) for u in t0]):
                out.append(("seq:unit-covariance", f"with x in units of 1/{cc!r} the answer is {x1!r} after {n1} evaluations, not {cc!r} times the answer {x0!r} ({n0} evaluations) of the original request"))
    return out


def check_sign(c, io):
    """Sign(x) is 1 / 0 / -1 for x > 0 / x == 0 / otherwise; Sign(x,y) is x when Sign(x) == Sign(y) and -x otherwise, exactly"""
    t = c.line.split(); o = io.split()
    def s1(v): return 1 if v > 0.0 else (0 if v == 0.0 else -1)
    if len(o) != 1: return [(t[0] + ":output", "unexpected output shape")]
    if t[0] == "sgn":
        x = tokf(t[1])
        if o[0] != str(s1(x)): return [("sgn:value", f"Sign({x!r}) = {o[0]}, not {s1(x)}")]
        return []
    x, y = tokf(t[1]), tokf(t[2]); want = x if s1(x) == s1(y) else -1.0 * x
    got = tokf(o[0])
    if not (hx(got) == hx(want) or (got != got and want != want)):
        return [("sgn2:value", f"Sign({x!r},{y!r}) = {got!r}, not {want!r}")]
    return []


def check_acc_prefix(reqs, calls):
    """C02_sharper_accuracy_continues on the implementation: two requests of a history with the same function and bracket, accuracies
    acc' <= acc: the evaluations for acc are the first evaluations for acc', and with equally many evaluations the answers are the same"""
    out = []
    for j in range(len(reqs)):
        for k in range(len(reqs)):
            if j == k: continue
            aj, bj, accj, _, _, _, fxj, _ = reqs[j]; ak, bk, acck, _, _, _, fxk, _ = reqs[k]
            if not (accj == accj and acck == acck and acck <= accj): continue
            if (hx(min(aj, bj)), hx(max(aj, bj)), fxj) != (hx(min(ak, bk)), hx(max(ak, bk)), fxk) or aj != aj or bj != bj: continue
            if hx(min(aj, bj)) == hx(max(aj, bj)) and min(aj, bj) == 0.0 and (hx(aj), hx(bj)) != (hx(ak), hx(bk)): continue   # +0 / -0 ends are not swapped
            (xj, wj, nj, tj), (xk, wk, nk, tk) = calls[j], calls[k]
            hj, hk = [hx(u) for u in tj], [hx(u) for u in tk]
            if hk[:len(hj)] != hj or (nk == nj and (hx(xk) != hx(xj) or wk != wj)):
                out.append(("seq:accuracy-prefix", f"request {k + 1} (accuracy {acck!r}, {nk} evaluations, answer {xk!r}) does not continue the run of request {j + 1} "
                                                   f"(same function and bracket, accuracy {accj!r}, {nj} evaluations, answer {xj!r})"))
                return out
    return out


def predicates(c, io):
    out = []
    if io.startswith(("CRASH", "SANITIZER", "TIMEOUT", "HARNESSERR")): return out
    if c.line.startswith("sgn"): return check_sign(c, io)
    op, reqs = parse_case(c.line)
    exited = io.startswith("EXIT")
    classes = []
    for (a, b, acc, fam, params, f, fx, _) in reqs:
        lo, hi = (min(a, b), max(a, b)) if a == a and b == b else (a, b)      # a NaN abscissa: no order; f(NaN) decides the class
        classes.append((classify(f, lo, hi), lo, hi))
    must_exit = [k for k, ((cls, fl, fr), lo, hi) in enumerate(classes) if cls in ("nan", "same")]
    if exited:
        if must_exit: return out
        (cls, fl, fr), lo, hi = classes[-1] if op != "seq" else classes[0]
        if op == "seq":
            return [("seq:returning-history-exit", f"every request of the history has a zero end or opposite signs at the ends (first: f({lo!r}) = {fl!r}, f({hi!r}) = {fr!r}) but the process was terminated")]
        if cls == "zero": return [(op + ":end-zero", f"a bracket end is a zero of f (f({lo!r}) = {fl!r}, f({hi!r}) = {fr!r}) but Find_Root terminated the process")]
        return [(op + ":sign-change-exit", f"f({lo!r}) = {fl!r} and f({hi!r}) = {fr!r} have opposite signs but Find_Root terminated the process")]
    if must_exit:
        (cls, fl, fr), lo, hi = classes[must_exit[0]]
        if cls == "nan": return [(op + ":nan-end", f"f is NaN at a bracket end (f({lo!r}) = {fl!r}, f({hi!r}) = {fr!r}) but Find_Root returned ({io[:60]})")]
        return [(op + ":no-sign-change", f"f({lo!r}) = {fl!r} and f({hi!r}) = {fr!r} have equal signs but Find_Root returned ({io[:60]})")]
    calls = split_out(io, ncalls_of(op, reqs))
    if not calls: return [(op + ":output", "unexpected output shape")]
    if op == "both":
        (x1, w1, n1, t1), (x2, w2, n2, t2) = calls
        if not ((x1 == x2 or (x1 != x1 and x2 != x2)) and w1 == w2 and [hx(u) for u in t1] == [hx(u) for u in t2]):
            out.append(("both:order", f"Find_Root(a,b) = {x1!r} ({n1} evaluations) but Find_Root(b,a) = {x2!r} ({n2} evaluations)"))
        return out + check_returned(op, reqs[0], calls)
    if op == "seq":
        # history independence: the same request (ends in either order) gets the same answer and the same evaluations wherever it stands in the history
        seen = {}
        for k, (rq, cl) in enumerate(zip(reqs, calls)):
            a, b, acc, fam, params, f, fx, _ = rq
            key = (hx(min(a, b)), hx(max(a, b)), hx(acc), " ".join(fx))
            sig = (hx(cl[0]), cl[1], [hx(u) for u in cl[3]])
            if key in seen and seen[key][1] != sig:
                j = seen[key][0]
                out.append(("seq:history", f"request {k + 1} of the history repeats request {j + 1} but was answered {cl[0]!r} ({cl[2]} evaluations) instead of {calls[j][0]!r} ({calls[j][2]} evaluations)"))
            seen.setdefault(key, (k, sig))
            out += check_returned(op, rq, [cl])
        out += check_metamorphic(c, reqs, calls)
        out += check_acc_prefix(reqs, calls)
        return out
    return out + check_returned(op, reqs[0], calls)


def nontrivial(c, io):
    if io.startswith(("EXIT", "CRASH")): return False
    if c.line.startswith("sgn"):        # the Sign helpers: non-trivial = the arguments differ in sign class (the branch Find_Root re-brackets on) or one is 0 / NaN
        v = [tokf(x) for x in c.line.split()[1:]]
        return len(v) == 2 and (any(u != u or u == 0.0 for u in v) or (v[0] > 0) != (v[1] > 0))
    op, reqs = parse_case(c.line)
    calls = split_out(io, ncalls_of(op, reqs))
    if not calls: return False
    x, w, n, tr = calls[0]
    rc = rebracket_cases(tr)
    return (n - 2) // 2 >= 3 and len(set(rc)) >= 2
