"""C18 — samplers: reproducible from the generator state, inside the support, exact sample counts, stated law."""
import math, os, re, subprocess
from vcheck import Case, hx, flist, parse_vals, compare_lines, tokf

PID = "C18"
RULE = ("a case is one generator state (std::mt19937 seed, optionally with prescribed leading state words) -- or two generator states (seqn, seqh) -- and a sequence of "
        "sampler calls on it, whose user functions may be re-entrant (a density / CDF that makes a sampler call itself at every evaluation, on the same or on the other generator); "
        "seqh: the sequence is run in a process that has called the library never before and every call of it is repeated alone in another pristine process from the generator states it found; "
        "non-trivial = a Metropolis call whose burn-in is not a multiple of its thinning (thinning >= 2), or a sequence in which at least two different "
        "samplers are interleaved on one generator (between calls or inside a user function), or a rejection call that needed more than one trial, or a Poisson draw with mean > 500, "
        "or a history of at least two calls compared call by call with pristine processes; distinct by case text")
LEVEL_TEXT = ("Theorems (Coq): number of uniforms consumed by every sampler as a function of its control flow (equal streams give equal outputs and equal residual "
              "streams by the type of the model); Sample_Metropolis(_2D) returns exactly `sample` elements for every thinning >= 1, every burn-in and no 32-bit overflow, "
              "every returned point lies in a bounded domain (the step: a candidate outside of the domain has acceptance probability exactly 0 for every density, also at a current point of "
              "density 0, and is not taken for any accept deviate u >= 0, the deviate 0 included), the acceptance rule satisfies detailed balance; rejection sampling returns a point of the box that "
              "satisfies the acceptance rule y <= pdf(x); the Poisson sampler is Knuth's product rule for every lambda >= 0 (the exp(STEP) rescaling is transparent, with the "
              "p == 1 boundary stated); Sample_Uniform stays in [a,b]; for a target density that draws random numbers itself (re-entrant use: the samplers with the state "
              "threaded through every evaluation of the user function, section ModelSt) Sample_Metropolis(_2D) still returns exactly `sample` elements and stays in a bounded domain, and with a pure "
              "function the re-entrant samplers are the plain ones (the 2D containment with a re-entrant density: C18_metropolis_2d_in_domain_reentrant). HISTORIES (all interleavings of samplers on one "
              "generator, any length, any number type; run_calls is the extracted function that computes the model's answer to every `seq` case): every answer of a history is the answer of that call alone "
              "on the generator state it found (C18_history_every_call, C18_history_composition), two different histories that leave the generator in the same state are followed by the same answer and the "
              "same state (C18_history_same_state_same_answer), the stream consumed is the sum of the calls' costs (C18_history_consumption, _fixed), the sample count and the containment of Metropolis / "
              "inverse-transform calls hold at every position of every history (C18_history_metropolis_count, _2d_count, C18_history_metropolis_in_domain, C18_history_inverse_transform_in_range), the vector "
              "overload of Sample_Poisson is the history of single calls (C18_poisson_vector_is_history). Inverse_Transform_Sampling returns a point between xMin and xMax for every cdf and every generator "
              "state (C18_inverse_transform_in_range: Find_Root's clamp keeps every iterate in the bracket); Sample_Gauss is truncated at 10 sqrt(2) sigma (C18_sample_gauss_truncated). Values inside the support: a Metropolis chain (1D/2D, bounded/unbounded, every non-negative density) that is at a point of positive "
              "density never moves to a point of density zero, so with a start point inside the support every returned sample lies in the support (C18_metropolis_stays_in_support, _2d_; a start point of density "
              "zero -- 0/0 and x/0 in IEEE arithmetic -- is NOT covered by a theorem, it is tested); detailed balance also on a bounded 2D domain (C18_acceptance_detailed_balance_2d_bounded). The walls of a bounded Metropolis domain (C18_domain_test_has_no_tolerance, _2d, C18_domain_is_closed, _2d: for EVERY number type, so verbatim for doubles): the domain test is the plain comparison, a candidate that compares beyond a wall by any amount -- one unit in the last place -- has acceptance probability exactly 0 and a candidate on a wall or between the walls is judged by the density alone (over the reals: C18_no_tolerance_band, for every eps > 0 beyond a wall and every point of [lo, hi]); that the LIBRARY's test is this comparison is checked on chains whose domain walls are placed, by a generator-side simulation of the chain in the library's arithmetic, a relative 1e-16..1e-9 on either side of a proposal the chain really makes (1D/2D, all walls, domains at magnitudes 1e-6..1e6). These history theorems are "
              "about the model, in which no sampler has state of its own; that the LIBRARY has none (no static, no cache between calls) is checked, not proved: seqh cases compare every call of a history "
              "with a pristine process, with near-equal arguments in consecutive calls and decision values on a ladder 1e-16..1e-3 around the thresholds. "
              "BURN-IN / THINNING BOOKKEEPING (C18_metropolis_thinning_is_selection, no hypothesis, every number type, 1D and 2D): the call (sample, thinning, burn_in) IS the call "
              "(i_max, 1, 0), i_max = (burn_in + thinning*sample) mod 2^32 -- same chain states, same generator state left behind, same failure -- followed by the selection of the states of the loop indices "
              "i >= burn_in with i mod thinning = 0; inside the quantifier (thinning >= 1, no overflow) sample j is the state of the un-thinned chain at loop index thinning*(ceil(burn_in/thinning)+j) "
              "(C18_metropolis_which_states_are_returned, C18_select_closed_form: induction over chains of any length; the index is counted from 0, not from burn_in). The proposal is a random walk: "
              "Sample_Gauss(x, sigma) = x + sqrt(2) sigma Inv_Erf(2 xi - 1), the displacement depends on the deviate and sigma only (C18_proposal_is_random_walk, every number type; over R the same deviate gives "
              "the same displacement from every point). LAW, partial (C18_sample_uniform_law_partial): for a < b the event {Sample_Uniform <= t} is the event {u <= (t-a)/(b-a)} of the canonical uniform and "
              "u -> output is strictly increasing, i.e. the output has the uniform distribution function GIVEN that the canonical deviate is uniform on [0,1) (a property of std::mt19937/generate_canonical, "
              "tested, not proved). Still not theorems: the symmetry of the proposal displacement (Inv_Erf is a root-finder; with it and the proved detailed balance of the acceptance the stationarity of the target "
              "would follow) and the laws of the Sample_Gauss / Sample_Poisson / inverse-transform / rejection / Metropolis outputs. Rejection_Sampling(_2D) terminates (C18_rejection_terminates, every number type, every density): a generator that can deliver 2*9999 (3*9999) uniforms is never exhausted, the call returns or aborts at the 10000th trial. Non-vacuity examples are collected in C18_examples. "
              "SEVENTH PASS (coverage/C18.md lists what is in the model): (1) the GENERATOR is inside the model: std::mt19937 (seeding, state regeneration, tempering) and "
              "std::generate_canonical<double,53> are Gallina functions (C18_Model2.v: mt_seed, mt_next, canon, mt_stream), compared with libstdc++ on seqg cases that carry no uniforms (the model runs the "
              "history from the seed or from prescribed state words and also reports the next raw output). Theorems: every state reachable from a seed is 624 32-bit words and every raw output a 32-bit word "
              "(C18_generator_seed_state, C18_generator_step), the 10000th output of the default seed is the value the C++ standard prescribes (C18_generator_is_mt19937), over R every canonical uniform of "
              "every such state lies in [0,1) (C18_generator_uniforms_in_unit_interval), so the containment theorems hold for every SEED without a premise on the stream "
              "(C18_metropolis_in_domain_from_seed, C18_sample_uniform_range_from_seed); a history run from a generator state leaves behind the state advanced by two raw outputs per canonical draw, the "
              "number of draws is the sum of the calls' costs and the unread part of the stream is the stream of the state left behind (C18_generator_state_left_behind, C18_generator_stream_splits; every "
              "number type). (2) the ACCEPTANCE STATISTIC of Sample_Metropolis(_2D) (average acceptance probability, efficiency warning) is in the model (sample_metropolis_w, _2d_w) and compared on seqw "
              "cases (the warning is read back from std::cerr): it is bookkeeping only -- samples, residual stream and failures are those of the sampler without it, for every number type "
              "(C18_metropolis_statistic_is_transparent, _2d_) -- and over R the average of a chain with at least one iteration and a non-negative density is in [0,1] and the warning is printed exactly "
              "below 1e-3 / above 1 - 1e-2 (C18_metropolis_average_is_probability, _2d_; a chain without iterations divides 0.0 by 0 -- NaN, no warning -- which is correspondence only). "
              "NOT theorems: the distributional clauses (Kolmogorov-Smirnov, chi-square, moments) — they are "
              "tested on the implementation with fixed seeds at significance 1e-9 (S4); that std::mt19937/generate_canonical produce the stream handed to the model is "
              "checked by the correspondence (a pure-Python MT19937 computes the uniforms of every case) and by the consumption count/next raw output comparison.")
LEVEL_NOTE = ("Coq 8.16.1; theorems over R use the standard library's real-number axioms, counting theorems are axiom-free; std::mt19937 + std::uniform_real_distribution are "
              "modelled as an explicit stream of canonical uniforms mapped by u*(b-a)+a (validated against libstdc++ on every case); since the seventh pass the stream itself is also a Gallina function of "
              "the generator state (mt19937 and generate_canonical in C18_Model2.v, compared with libstdc++ on the seqg cases; the seq/seqn/seqh cases still take their uniforms from the Python MT19937); Find_Root/Inv_Erf are modelled by copies of the "
              "current code inside C18_Model.v; a canonical uniform <= 2^-55 makes Sample_Gauss return mean - 10 sqrt(2) sigma (Inv_Erf(-1) = -10), see ASSUMPTIONS")
TOL = (1e-12, 0.0)
TRUSTED = ["pure-Python MT19937 / generate_canonical in checks/C18.py for the seq/seqn/seqh/seqw cases (validated against libstdc++: its next raw output after every case is compared with the real generator's; "
           "on the seqg cases the generator is the extracted Gallina model itself and the Python one only feeds the S4 predicates)",
           "the efficiency warning of Sample_Metropolis(_2D) is observed by reading back what the call wrote to file descriptor 2 (harness/C18.cpp run_seqw)",
           "nm -C -u on Statistics.o (and Numerics.o, Special_Functions.o) for the link-time randomness check"]
ASSUMPTIONS = ["distributional clauses are statistical tests on the implementation (fixed seeds, significance 1e-9), not theorems",
               "a canonical uniform <= 2^-55 (2u-1 rounds to -1) makes Sample_Gauss return mean - 10 sqrt(2) sigma (Inv_Erf(-1) = -10 since the repair; it used to exit); modelled, proved "
               "(C18_sample_gauss_at_zero) and reproduced with a crafted generator state",
               "the acceptance rule at a current point of density exactly 0.0 (ratio NaN or inf, std::min(1.0, .) = 1.0: free walk to the support) is IEEE behaviour outside the real-number theorems: "
               "it is covered by the correspondence and by S4 on prescribed generator streams (accept deviates 0.0, 2^-64, 1-2^-53; start points at the domain corners; densities that vanish on a "
               "part of the domain) and by distributional tests whose chains start in the zero-density region; a density that evaluates to -0.0 there traps the chain (K-C18-1)",
               "re-entrant user functions: the two evaluations in PDF(candidate) / PDF(x) are modelled in the order g++ and clang emit them (candidate first); the C++ standard leaves the order "
               "unspecified, a compiler that evaluates the other way round shows up as a model/implementation disagreement on the values (not on counts, consumption or states)",
               "thinning = 0 does not divide by zero in the current code (i_max = burn_in, so `i >= burn_in` is never true): it returns no samples; outside the quantifier"]
ALPHA = 1e-9
ZCRIT = 6.5     # two-sided normal tail 8e-11 <= 1e-9


# ------------------------------------------------------------------ MT19937 as std::mt19937, generate_canonical<double,53>
class MT:
    def __init__(s, seed, state=None):
        mt = [0] * 624; mt[0] = seed & 0xffffffff
        for i in range(1, 624):
            mt[i] = (1812433253 * (mt[i - 1] ^ (mt[i - 1] >> 30)) + i) & 0xffffffff
        s.mt = mt; s.i = 624
        if state:                       # prescribed leading state words, read position 0
            for k, w in enumerate(state): mt[k] = w
            s.i = 0

    def raw(s):
        if s.i >= 624:
            mt = s.mt
            for k in range(624):
                y = (mt[k] & 0x80000000) | (mt[(k + 1) % 624] & 0x7fffffff)
                mt[k] = mt[(k + 397) % 624] ^ (y >> 1) ^ (0x9908b0df if y & 1 else 0)
            s.i = 0
        y = s.mt[s.i]; s.i += 1
        y ^= y >> 11; y ^= (y << 7) & 0x9d2c5680; y ^= (y << 15) & 0xefc60000; y ^= y >> 18
        return y

    def canon(s):
        a = s.raw(); b = s.raw()
        r = (float(a) + float(b) * 4294967296.0) / 18446744073709551616.0
        return math.nextafter(1.0, 0.0) if r >= 1.0 else r


def untemper(y):
    y ^= y >> 18
    y ^= (y << 15) & 0xefc60000
    x = y
    for _ in range(5): x = y ^ ((x << 7) & 0x9d2c5680)
    y = x & 0xffffffff
    x = y
    for _ in range(3): x = y ^ (x >> 11)
    return x & 0xffffffff


def raws_for(u):
    """two raw outputs (a, b) whose canonical value is the double u (u = k/2^64 exactly or rounded)"""
    n = int(u * 18446744073709551616.0)
    n = max(0, min(n, 2 ** 64 - 1))
    return n & 0xffffffff, n >> 32


# ------------------------------------------------------------------ function expressions (as harness/common.hpp)
UN = ("neg", "exp", "log", "sin", "cos", "atan", "erf", "cosh", "abs", "sqrt", "step", "tanh")


def fparse(t, k):
    o = t[k]
    if o in ("x", "y", "z"): return (o,), k + 1
    if o == "v": return ("v", int(t[k + 1])), k + 2
    if o == "c": return ("c", tokf(t[k + 1])), k + 2
    if o in "+-*/" and len(o) == 1:
        a, k = fparse(t, k + 1); b, k = fparse(t, k); return (o, a, b), k
    if o == "pow":
        a, k = fparse(t, k + 1); return ("pow", a, tokf(t[k])), k + 1
    if o in UN:
        a, k = fparse(t, k + 1); return (o, a), k
    raise ValueError("fexpr " + o)


def _safe(f, *a):
    try: return f(*a)
    except OverflowError: return math.inf
    except (ValueError, ZeroDivisionError): return math.nan


def feval(e, x, y=0.0):
    o = e[0]
    if o == "x": return x
    if o == "y": return y
    if o == "z": return 0.0
    if o == "c": return e[1]
    if o in ("+", "-", "*", "/"):
        a = feval(e[1], x, y); b = feval(e[2], x, y)
        if o == "+": return a + b
        if o == "-": return a - b
        if o == "*": return a * b
        if b == 0.0: return math.nan if (a == 0.0 or a != a) else math.copysign(math.inf, a) * math.copysign(1.0, b)
        return a / b
    a = feval(e[1], x, y)
    if o == "pow": return _safe(math.pow, a, e[2])
    if o == "neg": return -a
    if o == "exp": return _safe(math.exp, a)
    if o == "log": return _safe(math.log, a) if a != 0 else -math.inf
    if o == "sin": return _safe(math.sin, a)
    if o == "cos": return _safe(math.cos, a)
    if o == "atan": return math.atan(a)
    if o == "erf": return math.erf(a)
    if o == "cosh": return _safe(math.cosh, a)
    if o == "tanh": return math.tanh(a)
    if o == "abs": return abs(a)
    if o == "sqrt": return _safe(math.sqrt, a)
    if o == "step": return 1.0 if a >= 0.0 else 0.0
    raise ValueError(o)


def C(x): return "c " + hx(float(x))


# ------------------------------------------------------------------ targets of the distributional tests
SQ2 = math.sqrt(2.0)
def Phi(x): return 0.5 * (1.0 + math.erf(x / SQ2))
def trunc_gauss_cdf(lo, hi): return lambda x: (Phi(x) - Phi(lo)) / (Phi(hi) - Phi(lo))

T1 = {   # name: (pdf fexpr, cdf (python), support)
    "tri": ("* " + C(2) + " x", lambda x: x * x, (0.0, 1.0)),
    "gauss": ("exp neg / * x x " + C(2), Phi, None),
    "tgauss": ("exp neg / * x x " + C(2), trunc_gauss_cdf(-1.0, 2.0), (-1.0, 2.0)),
    "tgauss4": ("exp neg / * x x " + C(2), trunc_gauss_cdf(-4.0, 4.0), (-4.0, 4.0)),
    "expo": ("* step x exp neg x", lambda x: 1.0 - math.exp(-x) if x > 0 else 0.0, None),
    "expo8": ("exp neg x", lambda x: (1.0 - math.exp(-x)) / (1.0 - math.exp(-8.0)), (0.0, 8.0)),
    "bimodal": ("+ exp neg / * - x " + C(1.5) + " - x " + C(1.5) + " " + C(2) + " exp neg / * + x " + C(1.5) + " + x " + C(1.5) + " " + C(2),
                lambda x: 0.5 * (Phi(x - 1.5) + Phi(x + 1.5)), None),
    "sin": ("sin x", lambda x: 0.5 * (1.0 - math.cos(x)), (0.0, math.pi)),
}
TC = {   # cdf fexpr for Inverse_Transform_Sampling: (cdf fexpr, cdf python, xmin, xmax)
    "expo": ("- " + C(1) + " exp neg x", lambda x: 1.0 - math.exp(-x), 0.0, 40.0),
    "tri": ("* x x", lambda x: x * x, 0.0, 1.0),
    "gauss": ("* " + C(0.5) + " + " + C(1) + " erf / x " + C(SQ2), Phi, -9.0, 9.0),
    "logistic": ("* " + C(0.5) + " + " + C(1) + " tanh / x " + C(2), lambda x: 0.5 * (1.0 + math.tanh(x / 2.0)), -45.0, 45.0),
}
T2 = {   # 2D: (pdf fexpr, marginal cdf x, marginal cdf y, box, quadrant split point, quadrant probabilities (<<, <>, ><, >>))
    "xpy": ("+ x y", lambda x: 0.5 * (x * x + x), lambda y: 0.5 * (y * y + y), (0.0, 1.0, 0.0, 1.0), (0.5, 0.5), (1 / 8, 1 / 4, 1 / 4, 3 / 8)),
    "g2": ("exp neg + / * x x " + C(2) + " / * y y " + C(0.5), Phi, lambda y: Phi(y / 0.5), None, (0.0, 0.0), (0.25, 0.25, 0.25, 0.25)),
    "g2box": ("exp neg + / * x x " + C(2) + " / * y y " + C(0.5), trunc_gauss_cdf(-1.0, 2.0), lambda y: trunc_gauss_cdf(-4.0, 2.0)(y / 0.5), (-1.0, 2.0, -2.0, 1.0), (0.0, 0.0), None),
}
# densities that vanish EXACTLY (in double precision) on a part of the requested domain: support smaller than the domain
# (indicator factors) or a narrow peak whose tails underflow.  The chain starts uniformly in the domain, i.e. mostly at a point of zero density.
def fx_box1(a, b): return "* step - x " + C(a) + " step - " + C(b) + " x"
def fx_peak1(m, s): return "exp neg / * - x " + C(m) + " - x " + C(m) + " " + C(2.0 * s * s)
def fx_box2(a, b, c, d): return "* " + fx_box1(a, b) + " * step - y " + C(c) + " step - " + C(d) + " y"
def fx_peak2(mx, sx, my, sy): return "exp neg + / * - x " + C(mx) + " - x " + C(mx) + " " + C(2.0 * sx * sx) + " / * - y " + C(my) + " - y " + C(my) + " " + C(2.0 * sy * sy)
def lin_cdf(a, b): return lambda x: min(1.0, max(0.0, (x - a) / (b - a)))
T1["farpeak"] = (fx_peak1(30.0, 0.25), lambda x: Phi((x - 30.0) / 0.25), (0.0, 32.0))          # exp underflows to 0.0 for x < 20.3
T1["boxin"] = (fx_box1(0.6, 0.9), lin_cdf(0.6, 0.9), (0.0, 1.0))
T1["nearpeak"] = (fx_peak1(3.0, 0.05), lambda x: Phi((x - 3.0) / 0.05), None)                     # unbounded; zero density for |x - 3| > 1.94
T2["farpeak2"] = (fx_peak2(30.0, 0.25, 1.0, 0.25), lambda x: Phi((x - 30.0) / 0.25), lambda y: Phi((y - 1.0) / 0.25), (0.0, 32.0, -1.0, 3.0), (30.0, 1.0), (0.25, 0.25, 0.25, 0.25))
T2["box2in"] = (fx_box2(0.6, 0.9, 0.1, 0.5), lin_cdf(0.6, 0.9), lin_cdf(0.1, 0.5), (0.0, 1.0, 0.0, 1.0), (0.75, 0.3), (0.25, 0.25, 0.25, 0.25))


def erfinv(p):
    """inverse error function for |p| < 1 (Winitzki's start, Newton on math.erf); used only to locate rejected Metropolis proposals"""
    a = 0.147; ln = math.log(1.0 - p * p); t = 2.0 / (math.pi * a) + ln / 2.0
    z = math.copysign(math.sqrt(max(0.0, math.sqrt(t * t - ln / a) - t)), p)
    for _ in range(6):
        d = 2.0 / math.sqrt(math.pi) * math.exp(-z * z)
        if d == 0.0: break
        z -= (math.erf(z) - p) / d
    return z


def _g2box_quadrants():
    px = (Phi(0) - Phi(-1.0)) / (Phi(2.0) - Phi(-1.0)); py = (Phi(0) - Phi(-4.0)) / (Phi(2.0) - Phi(-4.0))
    return (px * py, px * (1 - py), (1 - px) * py, (1 - px) * (1 - py))
T2["g2box"] = T2["g2box"][:5] + (_g2box_quadrants(),)


# ------------------------------------------------------------------ case construction
def seq_case(seed, ops, n_uniform, tags, state_raws=None):
    """ops: list of op strings. state_raws: prescribed leading raw outputs (ints) of the generator."""
    state = [untemper(r) for r in state_raws] if state_raws else None
    g = MT(seed, state)
    us = [g.canon() for _ in range(n_uniform)]
    st = f"{len(state)} " + " ".join(str(w) for w in state) if state else "0"
    return Case(f"seq {seed} {st} {flist(us)} {len(ops)} " + " ".join(ops), tags)


def seqn_case(seed, seed2, ops, n_main, n_aux, tags):
    """two generators: std::mt19937(seed) (the generator the calls are made on) and std::mt19937(seed2) (the other one)"""
    g = MT(seed); h = MT(seed2)
    us = [g.canon() for _ in range(n_main)]; vs = [h.canon() for _ in range(n_aux)]
    return Case(f"seqn {seed} 0 {flist(us)} {seed2} {flist(vs)} {len(ops)} " + " ".join(ops), tags)


def seqh_case(seed, seed2, ops, n_main, n_aux, tags, state_raws=None):
    """a history of calls compared call by call with pristine processes (syntax of seqn; the first generator may have prescribed leading state words)"""
    state = [untemper(r) for r in state_raws[:624]] if state_raws else None
    g = MT(seed, state); h = MT(seed2)
    us = [g.canon() for _ in range(n_main)]; vs = [h.canon() for _ in range(n_aux)]
    st = f"{len(state)} " + " ".join(str(w) for w in state) if state else "0"
    return Case(f"seqh {seed} {st} {flist(us)} {seed2} {flist(vs)} {len(ops)} " + " ".join(ops), tags)


def canon_of(a, b):
    r = (float(a) + float(b) * 4294967296.0) / 18446744073709551616.0
    return math.nextafter(1.0, 0.0) if r >= 1.0 else r


LADDER = [10.0 ** -e for e in range(16, 2, -1)]           # relative distances 1e-16 .. 1e-3


def near(x, rng, p_same=0.15):
    """x itself, or a neighbour at a relative distance of the ladder (at least one ulp), either side"""
    if rng.random() < p_same or x != x or math.isinf(x): return x
    d = rng.choice(LADDER); sg = rng.choice([-1.0, 1.0])
    y = x * (1.0 + sg * d) if x != 0.0 else sg * d * 1e-300
    if y == x: y = math.nextafter(x, math.copysign(math.inf, sg * (x if x != 0.0 else 1.0)))
    return y


def poisson_rescale(p, left):
    """the rescaling loop of Sample_Poisson, in the arithmetic of the library (math.exp is libm's exp)"""
    while p < 1.0 and left > 0.0:
        if left > 500.0: p = p * math.exp(500.0); left -= 500.0
        else: p = p * math.exp(left); left = 0.0
    return p, left


def poisson_craft(rng, lam, delta, stepdiv):
    """Raw generator outputs for ONE Sample_Poisson(lam) call on a prescribed generator state: the uniforms are small enough that the call
    ends within a few dozen draws (mean log-step max(1, lam/stepdiv), capped), and at the first opportunity one uniform is chosen so that the
    running product p lands at 1 + delta, i.e. at a relative distance delta from the threshold of `while(p > 1)` (delta = None: no aiming).
    The call is followed in double arithmetic, so the number of draws is the one the library makes."""
    left = lam; p = 1.0; raws = []; aimed = delta is None; step = min(20.0, max(1.0, lam / stepdiv))
    for _ in range(1200):
        pair = None
        if not aimed:
            F = 1.0; l = left
            while l > 0.0:
                if l > 500.0: F *= math.exp(500.0); l -= 500.0
                else: F *= math.exp(l); l = 0.0
            if math.isfinite(p * F):
                t = (1.0 + delta) / (p * F)
                if 1e-3 < t < 1.0: pair = raws_for(t); aimed = True
        if pair is None: pair = raws_for(math.exp(-rng.expovariate(1.0 / step)))
        raws += list(pair)
        p = p * canon_of(*pair)
        p, left = poisson_rescale(p, left)
        if not (p > 1): break
    return raws


def parse_seq(line, full=False):
    """seq: (seed, state, us, ops); with full=True (seqn lines) also (seed2, vs).
    ops are tuples; ("onaux", op) and ("nest", same, red, inner, outer) are recursive."""
    t = line.split(); k = 1
    two = t[0] in ("seqn", "seqh")
    seed = int(t[k]); k += 1
    ns = int(t[k]); k += 1
    state = [int(x) for x in t[k:k + ns]]; k += ns
    n = int(t[k]); k += 1
    us = [tokf(x) for x in t[k:k + n]]; k += n
    seed2 = None; vs = []
    if two:
        seed2 = int(t[k]); k += 1
        n2 = int(t[k]); k += 1
        vs = [tokf(x) for x in t[k:k + n2]]; k += n2
    K = int(t[k]); k += 1
    def num(): nonlocal k; k += 1; return tokf(t[k - 1])
    def integer(): nonlocal k; k += 1; return int(t[k - 1])
    def lst():
        m = integer(); return [num() for _ in range(m)]
    def fx():
        nonlocal k; e, k = fparse(t, k); return e
    def op():
        nonlocal k
        o = t[k]; k += 1
        if o == "onaux": return (o, op())
        if o == "nest":
            same = t[k] == "same"; red = t[k + 1]; k += 2
            inner = op(); outer = op(); return (o, same, red, inner, outer)
        if o in ("uniform", "gauss"): return (o, num(), num())
        if o == "poisson": return (o, num())
        if o == "poissonv": return (o, lst())
        if o == "invt": a = num(); b = num(); return (o, a, b, fx())
        if o == "rej": a = num(); b = num(); c = num(); return (o, a, b, c, fx())
        if o == "rej2": v = [num() for _ in range(5)]; return (o, *v, fx())
        if o == "metro": s = num(); i = [integer() for _ in range(3)]; d = lst(); return (o, s, *i, d, fx())
        if o == "metro2": s = [num(), num()]; i = [integer() for _ in range(3)]; d = lst(); return (o, *s, *i, d, fx())
        raise ValueError(o)
    ops = [op() for _ in range(K)]
    if full: return seed, state, us, ops, seed2, vs
    return seed, state, us, ops


def imax32(sample, thin, burn): return (burn + (thin * sample) % 2 ** 32) % 2 ** 32


# ------------------------------------------------------------------ generator-side simulation of a Metropolis chain (used only to AIM cases)
def lib_inv_erf(p):
    """Inv_Erf of the library in the arithmetic of the library (Ridder's method on libm's erf, accuracy 1e-4, as in /repo): the proposals of a
    chain are mean + sqrt(2) sigma Inv_Erf(2u-1), and a domain wall can only be put 1e-16..1e-9 next to one if the value is followed exactly.
    None where the library terminates.  A deviation from the library only makes a case miss its aim (the final simulation does not confirm it)."""
    if abs(p - 1.0) < 1e-16: return 10.0
    if abs(p + 1.0) < 1e-16: return -10.0
    if not abs(p) < 1.0: return None
    def sg(x): return 1 if x > 0 else (0 if x == 0 else -1)
    def sg2(x, y): return x if sg(x) == sg(y) else -1.0 * x
    f = lambda x: math.erf(x) - p
    x1, x2 = -10.0, 10.0; f1, f2 = f(x1), f(x2)
    if sg(f1) * sg(f2) >= 0: return x1 if f1 == 0 else (x2 if f2 == 0 else None)
    res = None
    for _ in range(2200):
        x3 = 0.5 * x1 + 0.5 * x2; f3 = f(x3)
        sc = max(abs(f3), max(abs(f1), abs(f2)))
        g1 = f1 / sc; g2 = f2 / sc; g3 = f3 / sc
        rad = g3 * g3 - g1 * g2
        x4 = x3 + (x3 - x1) * sg(g1 - g2) * g3 / math.sqrt(rad) if rad > 0 else x3
        if x4 != x4: x4 = x3
        x4 = max(min(x1, x2), min(max(x1, x2), x4))
        res = x4; f4 = f(x4)
        if f4 == 0.0: return res
        if sg2(f3, f4) != f3: x1, f1, x2, f2 = x3, f3, x4, f4
        elif sg2(f1, f4) != f1: x2, f2 = x4, f4
        elif sg2(f2, f4) != f2: x1, f1 = x4, f4
        else: return None
        if abs(x2 - x1) < 1.0e-4: return res
    return res


def sim_metro(dim, us, k0, sigmas, im, dom, e):
    """The chain of Sample_Metropolis(_2D) on a bounded domain from the uniforms us[k0:], step by step: list of
    (current point, candidate, candidate outside of the domain?, min(1, pdf ratio) regardless of the domain, accept deviate, moved?); None if it cannot be followed."""
    def pdf(p): return feval(e, p[0], p[1]) if dim == 2 else feval(e, p[0])
    def ratio(a, b):
        if b == 0.0: return math.nan if (a == 0.0 or a != a) else math.copysign(math.inf, a) * math.copysign(1.0, b)
        return a / b
    k = k0
    if k + dim + (dim + 1) * im > len(us): return None
    x = tuple(us[k + c] * (dom[2 * c + 1] - dom[2 * c]) + dom[2 * c] for c in range(dim)); k += dim
    steps = []
    for _i in range(im):
        cand = []
        for c in range(dim):
            z = lib_inv_erf(2.0 * us[k + c] - 1.0)
            if z is None: return None
            cand.append(x[c] + SQ2 * sigmas[c] * z)
        cand = tuple(cand); u = us[k + dim]; k += dim + 1
        outside = any(cand[c] < dom[2 * c] or cand[c] > dom[2 * c + 1] for c in range(dim))
        r = ratio(pdf(cand), pdf(x)); a = r if r < 1.0 else 1.0
        moved = (not outside) and u < a
        steps.append((x, cand, outside, a, u, moved))
        if moved: x = cand
    return steps


def aim_wall(rng, dim, us, sigmas, im, dom, e, retained):
    """Moves ONE wall of the domain next to a proposal the chain really makes on the uniforms us: a relative distance of the ladder 1e-16..1e-9 (at least
    an ulp) beyond the proposal (the proposal is then outside by that much and has to be refused) or before it (inside: it has to be judged by the density alone).
    The start point is drawn in the domain and so moves with the wall: Newton steps on the simulated chain, then a final simulation that has to confirm the aim.
    The proposal is one that would be taken if it were inside (accept deviate below min(1, pdf ratio)) at a retained iteration.  Returns (domain, tag) or None."""
    st = sim_metro(dim, us, 0, sigmas, im, dom, e)
    if not st: return None
    c = rng.randrange(dim); upper = rng.random() < 0.5; w = 2 * c + (1 if upper else 0); other = dom[2 * c + (0 if upper else 1)]
    # a proposal that is taken and sets a record of the chain in this direction: no earlier state lies beyond the new wall
    ext = st[0][0][c]; cands = []
    for j, (x, cd, outside, a, u, moved) in enumerate(st):
        if moved and cd[c] != 0.0 and (cd[c] > ext if upper else cd[c] < ext):
            ext = cd[c]
            if retained(j): cands.append(j)
    if not cands: return None
    j = rng.choice(cands); out = rng.random() < 0.7; d = rng.choice([1e-16, 1e-15, 1e-14, 1e-13, 1e-12, 1e-11, 3e-11, 1e-10, 1e-9])
    m = us[c] if upper else 1.0 - us[c]                    # d(start point)/d(wall): the whole chain shifts with it
    if abs(1.0 - m) < 0.05: return None
    def target(cv):
        sgn = -1.0 if (upper == out) else 1.0            # wall below the proposal: upper wall & outside, lower wall & inside
        t = cv + sgn * abs(cv) * d
        if t == cv or abs(t - cv) < d * abs(cv) * 0.5: t = math.nextafter(cv, sgn * math.inf)
        return t
    dm = list(dom)
    for it in range(12):
        stt = sim_metro(dim, us, 0, sigmas, im, dm, e)
        if not stt: return None
        cv = stt[j][1][c]; wv = dm[w]
        rel = (cv - wv) / abs(wv) if wv != 0 else math.inf
        beyond = rel > 0 if upper else rel < 0
        loose = wv != cv and beyond == out and abs(rel) <= 1.5e-9 and (other < wv if upper else wv < other)
        if loose and (abs(rel) <= max(4.0 * d, 4.5e-16) or it >= 8):
            x, cd, outside, a, u, moved = stt[j]
            others_in = all(dm[2 * q] <= cd[q] <= dm[2 * q + 1] for q in range(dim) if q != c)
            if others_in and u < a and outside == out: return dm, ("wall-outside" if out else "wall-inside")
            return None
        res = wv - target(cv)
        dm[w] = wv - res / (1.0 - m) if it < 8 and abs(res) > 4e-16 * abs(wv) else target(cv)
        if not (dm[2 * c] < dm[2 * c + 1]): return None
    return None


def generate(rng, tier):
    cs = []
    big = tier != "quick"
    R = lambda n_quick, n_big: n_big if big else n_quick
    def seed(): return rng.choice([rng.randrange(2 ** 32), rng.randrange(2 ** 32), rng.randrange(1000), 0, 1, 5489, 2 ** 32 - 1])
    def mag(lo, hi): return 10 ** rng.uniform(lo, hi)
    def sgn(): return rng.choice([-1.0, 1.0])

    def op_uniform():
        a = rng.choice([0.0, sgn() * mag(-3, 6), float(rng.randint(-5, 5))]); w = rng.choice([0.0, mag(-6, 6), 1.0])
        return f"uniform {hx(a)} {hx(a + w)}", 1
    def op_gauss():
        return f"gauss {hx(rng.choice([0.0, sgn() * mag(-2, 4)]))} {hx(rng.choice([0.0, 1.0, mag(-3, 3)]))}", 1
    def op_poisson(maxlam=5e3):
        lam = rng.choice([0.0, 0.01, mag(-2, 1), mag(-2, math.log10(maxlam)), mag(1, math.log10(maxlam)), 499.999, 500.0, 500.0001, 1000.0, 1500.5])
        lam = min(lam, maxlam)
        return f"poisson {hx(lam)}", int(lam + 12 * math.sqrt(lam) + 40)
    def op_poissonv():
        n = rng.randint(0, 4); lams = [rng.choice([0.0, mag(-2, 1.5), 501.0]) for _ in range(n)]
        return f"poissonv {flist(lams)}", int(sum(l + 12 * math.sqrt(l) + 40 for l in lams)) + 1
    def op_invt():
        nm = rng.choice(sorted(TC)); fx, _, a, b = TC[nm]
        if rng.random() < 0.2: a, b = b, a          # Find_Root swaps the limits
        return f"invt {hx(a)} {hx(b)} {fx}", 1
    def op_rej(kind=None):
        kind = kind or rng.choice(["tight", "tight", "loose", "loose", "within1pc", "above", "negative", "nan", "inf"])
        nm = rng.choice(["tri", "tgauss", "tgauss4", "expo8", "sin"]); fx, _, (a, b) = T1[nm]
        top = {"tri": 2.0, "tgauss": 1.0, "tgauss4": 1.0, "expo8": 1.0, "sin": 1.0}[nm]
        width = b - a; eff = {"tri": 0.5, "tgauss": 0.7, "tgauss4": 0.3, "expo8": 0.12, "sin": 0.63}[nm]
        if kind == "tight": ym = top
        elif kind == "loose": ym = top * rng.choice([1.5, 4.0, 20.0]); eff *= top / ym
        elif kind == "within1pc": ym = top / rng.choice([1.001, 1.005, 1.0099])       # pdf > yMax by less than 1%: tolerated
        elif kind == "above": ym = top / rng.choice([1.0102, 1.02, 1.5, 3.0])         # pdf > yMax by more than 1%: exit
        elif kind == "negative": fx = "- " + fx + " " + C(rng.choice([0.05, 0.5])); ym = top
        elif kind == "nan": fx = "* " + fx + " sqrt - x " + C(a + rng.choice([0.01, 0.3]) * width); ym = top
        else: fx = "/ " + fx + " step - x " + C(a + rng.choice([0.01, 0.3]) * width); ym = top
        return f"rej {hx(a)} {hx(b)} {hx(ym)} {fx}", int(2 * 30 / eff) + 4
    def op_rej2(kind=None):
        kind = kind or rng.choice(["tight", "loose", "within1pc", "above"])
        fx, _, _, box, _, _ = T2["xpy"] if rng.random() < 0.6 else T2["g2box"]
        top = 2.0 if fx == T2["xpy"][0] else 1.0; eff = 0.5 if top == 2.0 else 0.25
        if kind == "tight": zm = top
        elif kind == "loose": zm = top * rng.choice([2.0, 10.0]); eff *= top / zm
        elif kind == "within1pc": zm = top / 1.004
        else: zm = top / rng.choice([1.03, 2.0])
        return f"rej2 {' '.join(hx(v) for v in box)} {hx(zm)} {fx}", int(3 * 30 / eff) + 6
    def triple(limit):
        while True:
            s = rng.choice([0, 1, 2, 3, rng.randint(0, 12)]); th = rng.choice([1, 1, 2, 3, 4, rng.randint(1, 9)]); b = rng.choice([0, 1, 2, 3, 5, rng.randint(0, 20)])
            if b + th * s <= limit: return s, th, b
    def op_metro(limit=40, dom=None):
        nm = rng.choice(["gauss", "bimodal", "expo", "tri", "tgauss", "sin"]); fx, _, sup = T1[nm]
        s, th, b = triple(limit)
        if dom is None:
            dom = list(sup) if sup and (nm in ("tri", "sin") or rng.random() < 0.8) else []
            if nm in ("tri", "sin") and not dom: dom = list(sup)
        sigma = rng.choice([0.1, 0.5, 1.0, 3.0])
        return f"metro {hx(sigma)} {s} {th} {b} {flist(dom)} {fx}", 1 + 2 * imax32(s, th, b)
    def op_metro2(limit=30, dom=None):
        nm = rng.choice(["xpy", "g2", "g2box"]); fx, _, _, box, _, _ = T2[nm]
        s, th, b = triple(limit)
        if dom is None: dom = list(box) if box else []
        return f"metro2 {hx(rng.choice([0.3, 1.0]))} {hx(rng.choice([0.2, 0.5]))} {s} {th} {b} {flist(dom)} {fx}", 2 + 3 * imax32(s, th, b)

    singles = [("uniform", op_uniform), ("gauss", op_gauss), ("poisson", op_poisson), ("poissonv", op_poissonv), ("invt", op_invt),
               ("rej", op_rej), ("rej2", op_rej2), ("metro", op_metro), ("metro2", op_metro2)]
    # A. one sampler call per generator state
    for name, f in singles:
        for _ in range(R(120, 1350) if name != "poisson" else R(60, 540)):
            o, n = (f(300.0) if (name == "poisson" and rng.random() < 0.7) else f())
            cs.append(seq_case(seed(), [o], n + rng.choice([0, 1, 3]), (name, "single")))
    # B. interleavings of different samplers on one generator
    for _ in range(R(400, 5400)):
        K = rng.randint(2, 6); ops = []; n = 0
        for _k in range(K):
            name, f = rng.choice(singles)
            o, m = f(60.0) if name == "poisson" else (f(kind=rng.choice(["tight", "loose"])) if name in ("rej", "rej2") else f())
            ops.append(o); n += m
        cs.append(seq_case(seed(), ops, n + 2, ("interleaved",)))
    # C. prescribed generator states: extreme and boundary uniforms
    M = 2 ** 32 - 1
    edge_pairs = [(0, 0), (1, 0), (M, M), (M - 1, M), (0, 2 ** 31), (1, 2 ** 31), (M, 2 ** 31 - 1), (0, 1), (512, 0), (1024, 0), (0, 2 ** 30), (2048, 0), (0, 3 * 2 ** 30)]
    for (a, b) in edge_pairs:
        for o in (f"uniform {hx(-3.5)} {hx(7.25)}", f"uniform {hx(0.0)} {hx(1.0)}", f"gauss {hx(0.0)} {hx(1.0)}", f"gauss {hx(2.0)} {hx(0.5)}", f"poisson {hx(3.0)}",
                  f"poisson {hx(700.0)}", f"invt {hx(0.0)} {hx(40.0)} {TC['expo'][0]}", f"invt {hx(0.0)} {hx(1.0)} {TC['tri'][0]}",
                  f"metro {hx(1.0)} 2 1 1 0 {T1['gauss'][0]}", f"metro {hx(1.0)} 2 1 1 {flist([-1.0, 2.0])} {T1['tgauss'][0]}"):
            n = 800 if o == f"poisson {hx(700.0)}" else 12
            cs.append(seq_case(rng.randrange(2 ** 32), [o], n, ("edge-uniform", o.split()[0]), state_raws=[a, b]))
        # rejection: the acceptance test y <= pdf at equality and one step beside it (constant pdf 0.5, yMax = 1)
        for (c, d) in ((0, 2 ** 31), (1, 2 ** 31), (M, 2 ** 31 - 1)):
            cs.append(seq_case(rng.randrange(2 ** 32), [f"rej {hx(0.0)} {hx(1.0)} {hx(1.0)} {C(0.5)}"], 40, ("edge-uniform", "rej-tie"), state_raws=[a, b, c, d]))
            cs.append(seq_case(rng.randrange(2 ** 32), [f"rej2 {hx(0.0)} {hx(1.0)} {hx(0.0)} {hx(1.0)} {hx(1.0)} {C(0.5)}"], 60, ("edge-uniform", "rej2-tie"), state_raws=[a, b, a, b, c, d]))
    # Metropolis: accept test u < acceptance at acceptance = 1 with the largest uniform, and zero-density points
    for _ in range(R(20, 200)):
        raws = [rng.choice([0, 1, M, rng.randrange(2 ** 32)]) for _ in range(rng.choice([2, 4, 6, 8]))]
        o, n = rng.choice([op_metro, op_metro2, op_gauss, op_uniform])()
        cs.append(seq_case(rng.randrange(2 ** 32), [o], n + 2, ("edge-uniform", "random-raws"), state_raws=raws))
    # D. inefficiency guard of the rejection loops (exit at the 10000th trial), and the last trial before it
    for _ in range(R(2, 10)):
        cs.append(seq_case(seed(), [f"rej {hx(0.0)} {hx(1.0)} {hx(1e9)} {T1['tri'][0]}"], 20010, ("rej", "inefficient")))
        cs.append(seq_case(seed(), [f"rej2 {hx(0.0)} {hx(1.0)} {hx(0.0)} {hx(1.0)} {hx(1e9)} {T2['xpy'][0]}"], 30010, ("rej2", "inefficient")))
    for _ in range(R(3, 12)):
        ym = rng.choice([300.0, 1000.0, 3000.0])     # hundreds to thousands of trials: passes the warnings at 1000, 2000, ...
        cs.append(seq_case(seed(), [f"rej {hx(0.0)} {hx(1.0)} {hx(ym)} {T1['tri'][0]}"], 20010, ("rej", "very-loose")))
    # E. malformed Metropolis domains, 32-bit wrap-around of burn_in + thinning * sample, thinning = 0
    for _ in range(R(20, 100)):
        d = [float(x) for x in sorted(rng.sample(range(-5, 6), rng.choice([1, 3, 4, 5])))]
        cs.append(seq_case(seed(), [f"metro {hx(1.0)} 3 1 2 {flist(d)} {T1['gauss'][0]}"], 20, ("metro", "bad-domain")))
        d = [float(x) for x in sorted(rng.sample(range(-5, 6), rng.choice([1, 2, 3, 5, 6])))]
        cs.append(seq_case(seed(), [f"metro2 {hx(1.0)} {hx(1.0)} 3 1 2 {flist(d)} {T2['g2'][0]}"], 30, ("metro2", "bad-domain")))
    for (s, th, b) in [(2, 2 ** 31, 5), (2 ** 16 - 1, 2 ** 16 + 1, 3), (65536, 65536, 7), (3, 2 ** 32 - 1, 12), (2 ** 32 - 1, 1, 4), (1, 7, 2 ** 32 - 3), (5, 0, 9), (0, 0, 0), (7, 0, 0)]:
        im = imax32(s, th, b)
        cs.append(seq_case(seed(), [f"metro {hx(1.0)} {s} {th} {b} 0 {T1['gauss'][0]}"], 1 + 2 * im + 1, ("metro", "wrap32" if th else "thinning0")))
        cs.append(seq_case(seed(), [f"metro2 {hx(1.0)} {hx(0.5)} {s} {th} {b} 0 {T2['g2'][0]}"], 2 + 3 * im + 1, ("metro2", "wrap32" if th else "thinning0")))
    # H. target densities that are exactly 0.0 on a part of the bounded domain (support inside the domain, indicator factors, underflowing narrow
    #    peaks, densities vanishing at the domain edge), on random generator states and on PRESCRIBED streams: start deviates 0 / 1-2^-53 (domain
    #    corners), proposal deviates in the far tails (candidates beyond the domain edge) and accept deviates exactly 0.0, 2^-64, 1-2^-53.
    def ztarget1():
        k = rng.choice(["boxin", "boxin", "expoin", "farpeak", "farpeak", "triin", "edge0"])
        if k == "boxin":
            lo = rng.choice([0.0, -2.0, 10.0, -1e3]); w = rng.choice([1.0, 3.0, 100.0]); a = lo + w * rng.choice([0.25, 0.5, 0.6]); b = lo + w * rng.choice([0.75, 0.9, 1.0])
            return fx_box1(a, b), [lo, lo + w], w
        if k == "expoin":
            lo = -rng.choice([0.5, 3.0, 20.0]); return T1["expo"][0], [lo, 8.0], 8.0 - lo
        if k == "farpeak":
            s = rng.choice([0.05, 0.25, 1.0, 30.0]); m = rng.choice([0.0, 30.0, 90.0, -500.0]); L = rng.choice([45.0, 80.0, 300.0]) * s
            return (fx_peak1(m, s), [m - L, m + 10.0 * s], L) if rng.random() < 0.7 else (fx_peak1(m, s), [m - 10.0 * s, m + L], L)
        if k == "triin": return "* * step x step - " + C(1) + " x * " + C(2) + " x", [-1.0, 2.0], 3.0
        nm = rng.choice(["tri", "sin"]); return T1[nm][0], list(T1[nm][2]), T1[nm][2][1] - T1[nm][2][0]      # density 0 exactly at the lower domain edge
    def ztarget2():
        k = rng.choice(["box2in", "box2in", "farpeak2", "farpeak2", "xpyin"])
        if k == "box2in":
            lo = rng.choice([0.0, -2.0, 10.0]); w = rng.choice([1.0, 3.0, 100.0]); lo2 = rng.choice([0.0, -5.0]); w2 = rng.choice([1.0, 8.0])
            a = lo + w * rng.choice([0.25, 0.5, 0.6]); b = lo + w * rng.choice([0.75, 0.9, 1.0]); c = lo2 + w2 * rng.choice([0.0, 0.1, 0.5]); d = lo2 + w2 * rng.choice([0.6, 1.0])
            return fx_box2(a, b, c, d), [lo, lo + w, lo2, lo2 + w2], (w, w2)
        if k == "farpeak2":
            s = rng.choice([0.05, 0.25, 1.0]); m = rng.choice([0.0, 30.0, 90.0]); L = rng.choice([45.0, 80.0]) * s; my = rng.choice([0.0, 1.0]); h = rng.choice([4.0, 50.0]) * s
            return fx_peak2(m, s, my, s), [m - L, m + 10.0 * s, my - h, my + h], (L, 2 * h)
        return "* * * step x step - " + C(1) + " x * step y step - " + C(1) + " y + x y", [-1.0, 2.0, -1.0, 2.0], (3.0, 3.0)
    def zsigma(w): return w * rng.choice([0.02, 0.1, 0.3, 1.0, 3.0])
    def ztriple():
        if rng.random() < 0.7: return rng.choice([1, 2, 5, rng.randint(1, 25)]), 1, rng.choice([0, 0, 0, 1, 3])     # thinning 1, burn-in 0: the whole chain is returned
        return rng.randint(1, 8), rng.randint(1, 3), rng.randint(0, 4)
    TINY_RAWS = [(0, 0), (0, 0), (0, 0), (1, 0), (0, 1), (M, M), (2048, 0)]
    def craft(dim, im, pzero):
        """raw outputs for one Metropolis call: start deviates, then per step proposal deviate(s) and the accept deviate"""
        def start(): return rng.choice([(0, 0), (1, 0), (M, M), raws_for(0.5), raws_for(rng.random()), raws_for(rng.random()), raws_for(rng.choice([0.01, 0.1, 0.9, 0.99]))])
        def prop(): return raws_for(rng.choice([rng.random(), rng.random(), 0.5, 0.001, 0.999, 0.02, 0.98, 0.2, 0.8, 1e-6, 1.0 - 1e-6, 2.0 ** -60]))
        def acc():
            if rng.random() < pzero: return (0, 0)
            return rng.choice(TINY_RAWS + [raws_for(0.5), raws_for(rng.random()), raws_for(rng.random()), raws_for(rng.random())])
        out = []
        for _ in range(dim): out += start()
        for _ in range(im):
            for _ in range(dim): out += prop()
            out += acc()
        return out
    for _ in range(R(250, 3500)):
        d2 = rng.random() < 0.5
        s, th, b = ztriple(); im = imax32(s, th, b)
        if d2:
            fx, dom, (w1, w2) = ztarget2() if rng.random() < 0.8 else (T2["g2box"][0], list(T2["g2box"][3]), (3.0, 3.0))
            o = f"metro2 {hx(zsigma(w1))} {hx(zsigma(w2))} {s} {th} {b} {flist(dom)} {fx}"; need = 2 + 3 * im
        else:
            fx, dom, w = ztarget1() if rng.random() < 0.8 else (T1["tgauss"][0], list(T1["tgauss"][2]), 3.0)
            o = f"metro {hx(zsigma(w))} {s} {th} {b} {flist(dom)} {fx}"; need = 1 + 2 * im
        if rng.random() < 0.45:
            cs.append(seq_case(seed(), [o], need + 2, (o.split()[0], "zero-density", "random-state")))
        else:
            cs.append(seq_case(rng.randrange(2 ** 32), [o], need + 2, (o.split()[0], "zero-density", "crafted-stream"), state_raws=craft(2 if d2 else 1, im, rng.choice([0.2, 0.5, 1.0]))))
    # H2. DOMAIN WALLS NEXT TO A PROPOSAL OF THE CHAIN.  For a generic wall a proposal lands within a relative 1e-10 of it with probability ~1e-10 |wall| / sigma
    #    per step, so random domains never decide `candidate < domain[0] || candidate > domain[1]` near equality.  Here the chain is simulated on the generator
    #    state of the case (sim_metro follows the library's arithmetic) and one wall -- lower / upper, x / y -- is moved to a relative distance 1e-16..1e-9 of a
    #    proposal the chain really makes, on either side, at a retained iteration, the proposal being one that is taken when it counts as inside; domains at
    #    magnitudes 1e-6..1e6, both signs, densities positive beyond the walls, random generator states and start deviates 0 / 1-2^-53 (start ON a wall).
    def wall_box(): return rng.choice([(0.0, 1.0), (-2.0, 2.5), (10.0, 13.0), (-1e3, -999.0), (1e-3, 5e-3), (1e5, 3e5), (-2e-6, -1e-6), (3.0, 40.0), (-7.0, -0.5)])
    def wall_dens1(a, b):
        w = b - a; t = "/ - x " + C(a) + " " + C(w)
        return rng.choice([C(1.0), C(1.0), "exp neg " + t, "exp neg * " + C(3) + " " + t, "exp " + t, "+ " + C(0.25) + " * " + t + " " + t, "exp neg * " + t + " " + t])
    def wall_dens2(a, b, c, d):
        tx = "/ - x " + C(a) + " " + C(b - a); ty = "/ - y " + C(c) + " " + C(d - c)
        return rng.choice([C(1.0), C(1.0), "exp neg + " + tx + " * " + C(2) + " " + ty, "exp - " + tx + " " + ty, "+ " + C(0.5) + " * " + tx + " " + tx, "exp neg + * " + tx + " " + tx + " * " + ty + " " + ty])
    n_aimed = 0
    for _ in range(R(150, 420)):
        d2 = rng.random() < 0.4; dim = 2 if d2 else 1
        if rng.random() < 0.75: s, th, b = rng.choice([3, 5, 8, 12, 20, rng.randint(2, 30)]), 1, 0           # the whole chain is returned
        else: s, th, b = rng.randint(2, 10), rng.randint(1, 3), rng.randint(0, 4)
        im = imax32(s, th, b)
        a1, b1 = wall_box(); a2, b2 = wall_box()
        dom = [a1, b1, a2, b2] if d2 else [a1, b1]
        sig = [(dom[2 * q + 1] - dom[2 * q]) * rng.choice([0.05, 0.15, 0.4, 1.0]) for q in range(dim)]
        fx = wall_dens2(a1, b1, a2, b2) if d2 else wall_dens1(a1, b1)
        sd = rng.randrange(2 ** 32); raws = None
        if rng.random() < 0.35: raws = [w_ for _q in range(dim) for w_ in rng.choice([(0, 0), (M, M), raws_for(0.5), raws_for(rng.random())])]
        need = dim + (dim + 1) * im
        g = MT(sd, [untemper(r_) for r_ in raws] if raws else None); us_ = [g.canon() for _q in range(need)]
        tag = "wall-unaimed"
        for _try in range(4):
            r = aim_wall(rng, dim, us_, sig, im, dom, fparse(fx.split(), 0)[0], lambda j: j >= b and j % th == 0)
            if r: dom, tag = r; n_aimed += 1; break
        o = (f"metro2 {hx(sig[0])} {hx(sig[1])} {s} {th} {b} {flist(dom)} {fx}" if d2 else f"metro {hx(sig[0])} {s} {th} {b} {flist(dom)} {fx}")
        cs.append(seq_case(sd, [o], need + 2, (o.split()[0], "wall-at-proposal", tag), state_raws=raws))
    # the same boundary deviates (exactly 0.0, 2^-64, 1-2^-53) at EVERY position of the stream, for every sampler (rejection: y = 0 on a point of zero density)
    def rej_eff(fx, dom, top):
        e, _ = fparse(fx.split(), 0); d2 = len(dom) == 4; acc = 0.0
        for _k in range(300):
            x = dom[0] + rng.random() * (dom[1] - dom[0]); y = dom[2] + rng.random() * (dom[3] - dom[2]) if d2 else 0.0
            v = feval(e, x, y); acc += v if v == v and v > 0 else 0.0
        return acc / 300 / top
    for _ in range(R(120, 1500)):
        name, f = rng.choice(singles)
        o = None
        if name == "poisson": o, n = f(40.0)
        elif name in ("rej", "rej2") and rng.random() < 0.6:
            fx, dom, _w = ztarget1() if name == "rej" else ztarget2()
            top = rng.choice([1.0, 2.0, 2.5]); eff = rej_eff(fx, dom, top); per = 2 if name == "rej" else 3
            if eff >= 0.03: o, n = f"{name} {' '.join(hx(v) for v in dom)} {hx(top)} {fx}", int(per * 40 / eff) + 10
        if o is None: o, n = f(kind=rng.choice(["tight", "loose"])) if name in ("rej", "rej2") else f()
        pz = rng.choice([0.1, 0.3, 0.6])
        raws = []
        for _k in range(min(n, 300)):
            raws += list(rng.choice(TINY_RAWS) if rng.random() < pz else raws_for(rng.random()))
        cs.append(seq_case(rng.randrange(2 ** 32), [o], n + 2, ("edge-stream", name), state_raws=raws))
    # I. histories in which the SAME limits / domain / envelope are used with DIFFERENT user functions (and the same function with different
    #    limits): anything a sampler remembers about an earlier request (end values, envelopes, buffers keyed on the limits) shows up as a
    #    wrong answer of a later call.  Inverse transform: CDFs of laws restricted to a window (cdf(xMin) > 0, cdf(xMax) < 1: valid exactly when
    #    the deviate lies between the end values, so the generator state is prescribed), mixed with proper CDFs on the same window.
    def cdf_family(a, b):
        w = b - a; fam = []
        fam.append(("/ - x " + C(a) + " " + C(w), lambda x: (x - a) / w))                                            # uniform on the window: end values 0, 1
        p = rng.choice([0.5, 2.0, 3.0])
        fam.append(("pow / - x " + C(a) + " " + C(w) + " " + hx(p), lambda x: _safe(math.pow, (x - a) / w, p)))     # power law on the window
        for _k in range(2):
            m = w * rng.choice([0.2, 0.4, 1.0, 3.0]); x0 = a - w * rng.choice([0.0, 0.05, 0.3, 1.0])
            fam.append(("- " + C(1) + " exp neg / - x " + C(x0) + " " + C(m), (lambda x0, m: lambda x: 1.0 - math.exp(-((x - x0) / m)))(x0, m)))   # exponential from x0 <= a
            mu = a + w * rng.choice([-0.3, 0.1, 0.5, 0.8, 1.2]); sd = w * rng.choice([0.15, 0.4, 1.0, 2.5])
            fam.append(("* " + C(0.5) + " + " + C(1) + " erf / - x " + C(mu) + " " + C(SQ2 * sd), (lambda mu, sd: lambda x: 0.5 * (1.0 + math.erf(((x - mu) / (SQ2 * sd)))))(mu, sd)))
            fam.append(("* " + C(0.5) + " + " + C(1) + " tanh / - x " + C(mu) + " " + C(2.0 * sd), (lambda mu, sd: lambda x: 0.5 * (1.0 + math.tanh(((x - mu) / (2.0 * sd)))))(mu, sd)))
        return fam
    def window(): return rng.choice([(2.0, 10.0), (0.0, 1.0), (-3.0, 4.0), (-50.0, 50.0), (1e-3, 5e-3), (1e5, 3e5), (-2e-6, -1e-6), (0.0, 40.0)])
    for _ in range(R(220, 3000)):
        K = rng.randint(2, 6); win = window(); fam = cdf_family(*win); ops = []; raws = []; last_fx = None
        for j in range(K):
            if rng.random() < 0.15: win = window(); fam = cdf_family(*win)              # a call with other limits in between
            r = rng.random()
            if r < 0.12:                                                                   # another sampler in between (one uniform)
                ops.append(rng.choice([op_uniform, op_gauss])()[0]); raws += list(raws_for(rng.random())); continue
            fx, F = rng.choice(fam)
            if fx == last_fx and rng.random() < 0.8: fx, F = rng.choice(fam)
            last_fx = fx
            a, b = win
            Fa, Fb = feval(fparse(fx.split(), 0)[0], a), feval(fparse(fx.split(), 0)[0], b)
            if not (Fb - Fa > 1e-6): continue
            outside = (j == K - 1 and rng.random() < 0.2 and (Fa > 0.02 or Fb < 0.98))    # a deviate beyond the end values: the guard of Find_Root
            if outside:
                cand = ([Fa * rng.choice([0.1, 0.5, 0.98])] if Fa > 0.02 else []) + ([Fb + (1.0 - Fb) * rng.choice([0.02, 0.5, 0.9])] if Fb < 0.98 else [])
                u = rng.choice(cand)
            else:
                u = Fa + (Fb - Fa) * rng.choice([rng.uniform(0.02, 0.98), rng.uniform(0.02, 0.98), 0.02, 0.98, 0.5])
            if rng.random() < 0.15: a, b = b, a
            ops.append(f"invt {hx(a)} {hx(b)} {fx}"); raws += list(raws_for(u))
        if len([o for o in ops if o.startswith("invt")]) >= 2:
            cs.append(seq_case(rng.randrange(2 ** 32), ops, len(ops) + 2, ("history", "same-limits", "invt"), state_raws=raws))
    # rejection / Metropolis: identical limits, envelope, widths and (sample, thinning, burn_in), different densities (all <= 2 on the box)
    def dens_family(a, b):
        w = b - a; t = "/ - x " + C(a) + " " + C(w)
        return ["* " + C(2) + " " + t, "- " + C(2) + " * " + C(2) + " " + t, C(1.0), "* " + C(1.5) + " sin * " + C(math.pi) + " " + t, "+ " + C(0.25) + " * " + t + " " + t,
                "exp neg * " + C(3) + " " + t, "* " + C(2) + " step - " + t + " " + C(0.5)]
    def dens2_family(a, b, c, d):
        tx = "/ - x " + C(a) + " " + C(b - a); ty = "/ - y " + C(c) + " " + C(d - c)
        return ["+ " + tx + " " + ty, C(1.0), "* " + C(2) + " * " + tx + " " + ty, "- " + C(2) + " + " + tx + " " + ty, "exp neg + " + tx + " * " + C(2) + " " + ty]
    for _ in range(R(160, 2500)):
        kind = rng.choice(["rej", "rej2", "metro", "metro2"]); K = rng.randint(2, 4); ops = []; n = 0
        a, b = rng.choice([(0.0, 1.0), (-2.0, 2.5), (10.0, 13.0), (-1e3, -999.0)]); c, d = rng.choice([(0.0, 1.0), (-5.0, 3.0)])
        ym = rng.choice([2.0, 2.0, 2.02, 3.0]); s, th, bn = triple(30); sg = (b - a) * rng.choice([0.1, 0.5, 1.0]); sg2 = (d - c) * rng.choice([0.2, 1.0])
        fam = dens_family(a, b) if kind in ("rej", "metro") else dens2_family(a, b, c, d)
        for j in range(K):
            fx = rng.choice(fam)
            if rng.random() < 0.15 and kind in ("metro", "metro2"): s, th, bn = triple(30)          # larger-then-smaller requests on the same domain
            if kind == "rej": ops.append(f"rej {hx(a)} {hx(b)} {hx(ym)} {fx}"); n += 2 * 400
            elif kind == "rej2": ops.append(f"rej2 {hx(a)} {hx(b)} {hx(c)} {hx(d)} {hx(ym)} {fx}"); n += 3 * 400
            elif kind == "metro": ops.append(f"metro {hx(sg)} {s} {th} {bn} {flist([a, b] if rng.random() < 0.85 else [])} {fx}"); n += 1 + 2 * imax32(s, th, bn)
            else: ops.append(f"metro2 {hx(sg)} {hx(sg2)} {s} {th} {bn} {flist([a, b, c, d] if rng.random() < 0.85 else [])} {fx}"); n += 2 + 3 * imax32(s, th, bn)
        cs.append(seq_case(seed(), ops, n + 2, ("history", "same-limits", kind)))
    # J. RE-ENTRANT user functions and two generators (seqn lines): the density / CDF handed to a sampler makes a sampler call itself at every
    #    evaluation -- on the generator the outer sampler is working on (noisy / pseudo-marginal density) or on a second generator (nuisance
    #    parameter marginalised with an inner chain) -- and uses the reduced result as z; calls on the two generators interleaved (onaux).
    GAUSS1 = T1["gauss"][0]
    def noisy(fx, amp=0.05): return "* " + fx + " + " + C(1) + " * " + C(amp) + " tanh z"
    def inner_op(depth=0):
        """(op text, bound on the uniforms of one call (current generator, other generator))"""
        k = rng.choice(["uniform", "uniform", "gauss", "metro", "metro", "metro2", "poisson", "rej", "invt", "onaux", "nest"])
        if k == "nest" and depth >= 1: k = "metro"
        if k == "uniform": return f"uniform {hx(0.0)} {hx(1.0)}", (1, 0)
        if k == "gauss": return f"gauss {hx(0.0)} {hx(1.0)}", (1, 0)
        if k == "metro":
            s, th, b = rng.choice([(5, 2, 3), (1, 1, 0), (3, 1, 2), (0, 2, 1), (4, 3, 1), (2, 1, 5)])
            dom = rng.choice([[], [], [-2.0, 2.5]])
            return f"metro {hx(rng.choice([0.5, 1.0]))} {s} {th} {b} {flist(dom)} {GAUSS1}", (1 + 2 * imax32(s, th, b), 0)
        if k == "metro2":
            s, th, b = rng.choice([(2, 1, 1), (1, 2, 1), (3, 1, 0)])
            return f"metro2 {hx(1.0)} {hx(0.5)} {s} {th} {b} 0 {T2['g2'][0]}", (2 + 3 * imax32(s, th, b), 0)
        if k == "poisson": return f"poisson {hx(rng.choice([0.3, 2.0, 6.0]))}", (60, 0)
        if k == "rej": return f"rej {hx(0.0)} {hx(1.0)} {hx(2.0)} {T1['tri'][0]}", (2 * 60, 0)
        if k == "invt": return f"invt {hx(0.0)} {hx(1.0)} {TC['tri'][0]}", (1, 0)
        if k == "onaux":
            o, (p, q) = inner_op(depth + 1); return "onaux " + o, (q, p)
        o, nb = nested_op(depth + 1, small=True); return o, nb
    def nested_op(depth=0, small=False):
        while True:
            o, (p, q) = nested_op1(depth, small)
            if p + q <= (5000 if depth == 0 else 400): return o, (p, q)
    def nested_op1(depth=0, small=False):
        """nest <same|other> <red> <inner> <outer>: (text, bound (current, other))"""
        same = rng.random() < 0.6; red = rng.choice(["last", "last", "mean", "mean", "count", "none"])
        io, (ip, iq) = inner_op(depth)
        kind = rng.choice(["metro", "metro", "metro2", "metro2", "rej", "rej2", "invt"]) if not small else rng.choice(["metro", "metro2", "rej"])
        if kind in ("metro", "metro2"):
            while True:
                s, th, b = rng.choice([(rng.randint(0, 12), rng.randint(1, 4), rng.randint(0, 9)), (50, 3, 7), (0, 4, 9), (1, 1, 0), (17, 2, 5), (6, 1, 0)])
                if small: s, th, b = rng.choice([(2, 1, 1), (1, 2, 0), (3, 1, 0)])
                if (b + th * s) * (ip + iq + 1) <= 2000: break
            im = imax32(s, th, b)
            if kind == "metro":
                fx, dom = rng.choice([(GAUSS1, []), (GAUSS1, [-2.0, 2.5]), (T1["bimodal"][0], []), (T1["tri"][0], [0.0, 1.0]), (T1["expo8"][0], [0.0, 8.0])])
                o = f"metro {hx(rng.choice([0.3, 0.8, 2.0]))} {s} {th} {b} {flist(dom)} {noisy(fx)}"; own = 1 + 2 * im
            else:
                fx, dom = rng.choice([(T2["g2"][0], []), (T2["g2"][0], [-1.0, 2.0, -2.0, 1.0]), (T2["xpy"][0], [0.0, 1.0, 0.0, 1.0])])
                o = f"metro2 {hx(rng.choice([0.7, 1.5]))} {hx(rng.choice([0.4, 1.0]))} {s} {th} {b} {flist(dom)} {noisy(fx)}"; own = 2 + 3 * im
            nev = 2 * im
        elif kind == "rej":
            nm = rng.choice(["tri", "tgauss", "sin"]); fx, _, (a, b) = T1[nm]; top = 2.0 if nm == "tri" else 1.0
            o = f"rej {hx(a)} {hx(b)} {hx(top * rng.choice([1.06, 1.5]))} {noisy(fx)}"; nev = 80; own = 2 * nev
        elif kind == "rej2":
            fx, _, _, box, _, _ = T2["xpy"]
            o = f"rej2 {' '.join(hx(v) for v in box)} {hx(2.0 * rng.choice([1.06, 2.0]))} {noisy(fx)}"; nev = 120; own = 3 * nev
        else:
            nm = rng.choice(sorted(TC)); fx, _, a, b = TC[nm]
            o = f"invt {hx(a)} {hx(b)} + {fx} * {C(1e-9)} tanh z"; nev = 200; own = 1
        txt = f"nest {'same' if same else 'other'} {red} {io} {o}"
        return txt, ((own + nev * ip, nev * iq) if same else (own + nev * iq, nev * ip))
    for _ in range(R(240, 2450)):
        K = rng.choice([1, 1, 2, 2, 3]); ops = []; nm = na = 0
        for j in range(K):
            r = rng.random()
            if r < 0.65: o, (p, q) = nested_op()
            else:
                name, f = rng.choice(singles)
                o, p = f(20.0) if name == "poisson" else (f(kind="tight") if name in ("rej", "rej2") else f()); q = 0
            if rng.random() < 0.3: o = "onaux " + o; p, q = q, p
            ops.append(o); nm += p; na += q
        cs.append(seqn_case(seed(), seed(), ops, nm + 4, na + 4, ("reentrant" if any("nest" in o for o in ops) else "two-generators",)))
    # K. HISTORIES AGAINST PRISTINE PROCESSES (seqh lines): several calls in one process -- on one generator, on two generators, the same
    #    sampler again and again -- whose arguments are EQUAL or NEARLY EQUAL (relative distances 1e-16 .. 1e-3, either side, around round
    #    values: whatever a sampler keeps between calls keyed on its arguments, exactly or after rounding, is hit here), each answer and the
    #    states left behind compared with those of a process that has made no call before.  The decision points of the samplers are aimed at
    #    on the same ladder: the running product of Sample_Poisson lands at 1 + delta (the threshold of `while(p > 1)`), the height of a
    #    rejection trial at pdf(x) (1 + delta), delta = +-1e-16 .. +-1e-3, on prescribed generator states.
    DELTAS = [sg * d for d in LADDER for sg in (-1.0, 1.0)]
    ROUND_LAMS = [0.5, 1.0, 2.5, 3.0, 10.0, 20.0, 64.0, 100.0, 128.0, 250.0, 499.0, 500.0, 500.0, 512.0, 750.0, 1000.0, 1500.0, 2048.0, 0.1, 0.7, 499.999, 1000.5]
    def natural(lam): return int(lam + 12 * math.sqrt(lam) + 40)
    for _ in range(R(130, 1500)):
        base = rng.choice(ROUND_LAMS) if rng.random() < 0.85 else float(rng.randint(1, 1200)) / rng.choice([1, 2, 4, 8, 10])
        K = rng.randint(2, 6); ops = []; raws = []; nm = na = 0; round_last = rng.random() < 0.6
        for j in range(K):
            lam = base if (j % 2 == 1 and round_last) or (j == K - 1 and round_last) else near(base, rng)
            if rng.random() < 0.1: lam = rng.choice(ROUND_LAMS)                                # an unrelated mean in between
            r = rng.random()
            if r < 0.3:                                                                         # on the other generator (seeded state)
                ops.append(f"onaux poisson {hx(lam)}"); na += natural(lam)
            elif r < 0.42 and lam < 300:                                                        # the vector overload: two near-equal means in one call
                l2 = near(lam, rng); ops.append(f"poissonv {flist([l2, lam])}")
                for l in (l2, lam): raws += poisson_craft(rng, l, rng.choice(DELTAS), rng.choice([20, 50])); nm += natural(l)
            else:
                ops.append(f"poisson {hx(lam)}"); raws += poisson_craft(rng, lam, rng.choice(DELTAS + [None]), rng.choice([20, 50, 100])); nm += natural(lam)
        cs.append(seqh_case(rng.randrange(2 ** 32), seed(), ops, nm + len(raws) // 2 + 4, na + 4, ("history", "pristine", "poisson-near"), state_raws=raws))
    # every other sampler: near-equal limits / widths / envelopes / domains in consecutive calls, on one and on two generators
    def near_op(name, base):
        """(op text, uniforms bound, constant consumption?) of sampler `name` with the arguments `base` perturbed on the ladder"""
        if name == "uniform": a, b = base; return f"uniform {hx(near(a, rng))} {hx(near(b, rng))}", 1
        if name == "gauss": a, b = base; return f"gauss {hx(near(a, rng))} {hx(near(b, rng))}", 1
        if name == "invt": nm_, = base; fx, _, a, b = TC[nm_]; return f"invt {hx(near(a, rng))} {hx(near(b, rng))} {fx}", 1
        if name == "rej":
            nm_, top = base; fx, _, (a, b) = T1[nm_]
            return f"rej {hx(near(a, rng))} {hx(near(b, rng))} {hx(near(top * 1.002, rng))} {fx}", 2 * 90
        if name == "rej2":
            fx, _, _, box, _, _ = T2["xpy"]; return f"rej2 {' '.join(hx(near(v, rng)) for v in box)} {hx(near(2.004, rng))} {fx}", 3 * 90
        if name == "metro":
            nm_, sg, (s_, th_, b_) = base; fx, _, sup = T1[nm_]
            return f"metro {hx(near(sg, rng))} {s_} {th_} {b_} {flist([near(v, rng) for v in sup] if sup else [])} {fx}", 1 + 2 * imax32(s_, th_, b_)
        nm_, sg, (s_, th_, b_) = base; fx, _, _, box, _, _ = T2[nm_]
        return f"metro2 {hx(near(sg, rng))} {hx(near(0.5 * sg, rng))} {s_} {th_} {b_} {flist([near(v, rng) for v in box] if box else [])} {fx}", 2 + 3 * imax32(s_, th_, b_)
    def near_base(name):
        if name == "uniform": a = rng.choice([0.0, -3.5, 1.0, 100.0, 1e-3, -1e6]); return (a, a + rng.choice([1.0, 0.5, 10.75, 1e3]))
        if name == "gauss": return (rng.choice([0.0, 1.5, -100.0, 1e4]), rng.choice([1.0, 0.5, 2.5, 1e-3, 300.0]))
        if name == "invt": return (rng.choice(sorted(TC)),)
        if name == "rej": nm_ = rng.choice(["tri", "tgauss", "sin"]); return (nm_, 2.0 if nm_ == "tri" else 1.0)
        if name == "rej2": return ()
        if name == "metro": return (rng.choice(["gauss", "tgauss", "tri", "sin", "bimodal"]), rng.choice([0.5, 1.0, 3.0]), triple(16))
        return (rng.choice(["xpy", "g2", "g2box"]), rng.choice([0.5, 1.0]), triple(12))
    for _ in range(R(80, 1000)):
        names = [rng.choice(["uniform", "gauss", "invt", "rej", "rej2", "metro", "metro2"]) for _k in range(rng.choice([1, 1, 2]))]
        bases = {n_: near_base(n_) for n_ in names}
        K = rng.randint(2, 5); ops = []; nm = na = 0
        for j in range(K):
            n_ = rng.choice(names); o, m = near_op(n_, bases[n_])
            if rng.random() < 0.3: ops.append("onaux " + o); na += m
            else: ops.append(o); nm += m
        cs.append(seqh_case(seed(), seed(), ops, nm + 4, na + 4, ("history", "pristine", "near-arguments")))
    # rejection: the height of the first trial at the ladder around pdf(x), after near-equal requests made on the other generator
    for _ in range(R(30, 400)):
        nm_ = rng.choice(["tri", "tgauss", "sin"]); fx, _, (a, b) = T1[nm_]; top = 2.0 if nm_ == "tri" else 1.0
        ym = top * rng.choice([1.0, 1.5, 4.0]); e = fparse(fx.split(), 0)[0]
        ops = ["onaux " + near_op("rej", (nm_, ym / 1.002))[0] for _k in range(rng.randint(1, 3))]
        raws = []
        for _k in range(rng.randint(1, 3)):
            pair = raws_for(rng.random()); x = canon_of(*pair) * (b - a) + a; f = feval(e, x); t = f * (1.0 + rng.choice(DELTAS)) / ym
            raws += list(pair) + list(raws_for(t) if 0.0 < t < 1.0 else raws_for(rng.random()))
        ops.append(f"rej {hx(a)} {hx(b)} {hx(ym)} {fx}")
        if rng.random() < 0.5: ops.append(ops[-1])
        cs.append(seqh_case(rng.randrange(2 ** 32), seed(), ops, 2 * 2 * 200, 3 * 2 * 90 + 4, ("history", "pristine", "rej-threshold"), state_raws=raws))
    # F. (sample, thinning, burn_in) grid on 0..200, thinning >= 1, 1D/2D, bounded/unbounded: count, consumption, domain, determinism
    if big:
        gs = [0, 1, 2, 3, 5, 10, 37, 100, 200]; gt = [1, 2, 3, 4, 5, 7, 10, 16, 50, 99, 100, 200]; gb = [0, 1, 2, 3, 4, 5, 6, 7, 9, 10, 11, 15, 16, 17, 49, 50, 51, 99, 100, 101, 150, 199, 200]
    else:
        gs = [0, 1, 2, 5, 23, 200]; gt = [1, 2, 3, 7, 10, 50, 200]; gb = [0, 1, 2, 3, 6, 7, 9, 10, 11, 49, 50, 51, 200]
    for s in gs:
        for th in gt:
            for b in gb:
                if not big and s * th > 3000 and (b % 7): continue     # keep the quick tier short
                dim = 1 + (s + th + b) % 2; bounded = (s * 3 + th + b // 2) % 2
                cs.append(Case(f"mgrid {rng.randrange(2 ** 32)} {s} {th} {b} {dim} {bounded}", ("mgrid", f"dim{dim}", "bounded" if bounded else "unbounded")))
    for _ in range(R(150, 3000)):
        s, th, b = rng.randint(0, 200), rng.randint(1, 200), rng.randint(0, 200)
        if not big: s = rng.randint(0, 30)
        cs.append(Case(f"mgrid {rng.randrange(2 ** 32)} {s} {th} {b} {rng.choice([1, 2])} {rng.choice([0, 1])}", ("mgrid", "random")))
    # G. distributional tests: FIXED seeds (independent of VERIF_SEED), many samples per line
    seeds = [20260926, 7] + ([123456789, 4294967295] if big else [])
    n1 = 40000 if big else 20000
    for sd in seeds:
        L = []
        L.append(f"law uniform u {sd} {n1} {hx(-3.5)} {hx(7.25)}")
        L.append(f"law gauss g {sd} {n1} {hx(1.5)} {hx(2.5)}")
        for lam in ([0.01, 0.7, 4.0, 30.0, 499.0, 501.0, 750.0] if not big else [0.01, 0.1, 0.7, 4.0, 30.0, 120.0, 499.0, 500.0, 501.0, 750.0, 1000.5, 1500.0]):
            L.append(f"law poisson p {sd} {n1 if lam < 100 else n1 // 2} {hx(lam)}")
        L.append(f"law poisson p {sd} {4000 if not big else 20000} {hx(5000.0)}")
        L.append(f"law poissonv p {sd} {n1} {hx(2.5)}")
        for nm in sorted(TC):
            fx, _, a, b = TC[nm]; L.append(f"law invt {nm} {sd} {n1} {hx(a)} {hx(b)} {fx}")
        for nm, ym in (("tri", 2.0), ("tri", 7.0), ("tgauss4", 1.0), ("sin", 1.0), ("expo8", 1.005)):
            fx, _, (a, b) = T1[nm]; L.append(f"law rej {nm} {sd} {n1} {hx(a)} {hx(b)} {hx(ym)} {fx}")
        for nm, zm in (("xpy", 2.0), ("xpy", 5.0), ("g2box", 1.0)):
            fx, _, _, box, _, _ = T2[nm]; L.append(f"law rej2 {nm} {sd} {n1} {' '.join(hx(v) for v in box)} {hx(zm)} {fx}")
        for nm, sigma, dom in (("gauss", 2.0, None), ("bimodal", 3.0, None), ("expo", 1.5, None), ("tgauss", 1.5, (-1.0, 2.0)), ("tri", 0.5, (0.0, 1.0)), ("sin", 1.5, (0.0, math.pi))):
            fx = T1[nm][0]; L.append(f"law metro {nm} {sd} {n1} {hx(sigma)} 8 500 {flist(list(dom) if dom else [])} {fx}")
        for nm, s1, s2 in (("g2", 2.0, 1.0), ("xpy", 0.5, 0.5), ("g2box", 1.5, 1.0)):
            fx, _, _, box, _, _ = T2[nm]; L.append(f"law metro2 {nm} {sd} {n1} {hx(s1)} {hx(s2)} 8 500 {flist(list(box) if box else [])} {fx}")
        for l in L: cs.append(Case(l, ("law", l.split()[1])))
    # targets whose density is exactly 0.0 where the chain starts (support inside the domain; narrow peak with underflowing tails): the chain has to
    # walk through the zero-density region to the support.  Short chains, several fixed seeds (the start point decides whether the region is hit).
    for sd in ([101, 102, 103, 104, 105, 106] if not big else list(range(101, 121))):
        L = []
        n2 = 1000 if not big else 3000
        L.append(f"law metro farpeak {sd} {n2} {hx(0.5)} 20 20000 {flist(list(T1['farpeak'][2]))} {T1['farpeak'][0]}")
        L.append(f"law metro boxin {sd} {n2} {hx(0.2)} 20 2000 {flist(list(T1['boxin'][2]))} {T1['boxin'][0]}")
        L.append(f"law metro nearpeak {sd} {n2} {hx(1.0)} 40 30000 0 {T1['nearpeak'][0]}")
        L.append(f"law metro2 farpeak2 {sd} {n2} {hx(0.5)} {hx(0.4)} 20 20000 {flist(list(T2['farpeak2'][3]))} {T2['farpeak2'][0]}")
        L.append(f"law metro2 box2in {sd} {n2} {hx(0.2)} {hx(0.2)} 20 2000 {flist(list(T2['box2in'][3]))} {T2['box2in'][0]}")
        for l in L: cs.append(Case(l, ("law", l.split()[1], "zero-density-start")))
    # the law of a series drawn AFTER a history of other calls in the same process: the same limits / domain / envelope with other user functions
    # (inverse transform: CDFs restricted to the window, valid on the prescribed generator state), other (sample, thinning, burn_in)
    hrng = __import__("random").Random(987654321)          # fixed, like the seeds of the distributional tests
    def hist_invt(a, b):
        ops = []; raws = []
        fam = [f for f in cdf_family(a, b)]
        for _k in range(hrng.choice([1, 2])):
            for _try in range(20):
                fx, _F = hrng.choice(fam[2:]); e = fparse(fx.split(), 0)[0]; Fa, Fb = feval(e, a), feval(e, b)
                if Fb - Fa > 0.05 and (Fa > 0.05 or Fb < 0.95): break
            else: continue
            ops.append(f"invt {hx(a)} {hx(b)} {fx}"); raws += list(raws_for(Fa + (Fb - Fa) * hrng.uniform(0.2, 0.8)))
        return ops, raws
    n3 = 10000 if not big else 20000
    for sd in seeds[:1] if not big else seeds:
        L = []
        for nm in sorted(TC):
            fx, _, a, b = TC[nm]; ops, raws = hist_invt(a, b)
            if ops: L.append((ops, raws, f"law invt {nm} {sd} {n3} {hx(a)} {hx(b)} {fx}"))
        fam = dens_family(0.0, 1.0)
        L.append(([f"rej {hx(0.0)} {hx(1.0)} {hx(2.0)} {hrng.choice(fam[1:])}" for _k in range(2)], [], f"law rej tri {sd} {n3} {hx(0.0)} {hx(1.0)} {hx(2.0)} {T1['tri'][0]}"))
        L.append(([f"rej2 {hx(0.0)} {hx(1.0)} {hx(0.0)} {hx(1.0)} {hx(2.0)} {hrng.choice(dens2_family(0.0, 1.0, 0.0, 1.0)[1:])}"], [], f"law rej2 xpy {sd} {n3} {' '.join(hx(v) for v in T2['xpy'][3])} {hx(2.0)} {T2['xpy'][0]}"))
        L.append(([f"metro {hx(1.5)} 50 3 7 {flist([-1.0, 2.0])} {hrng.choice(dens_family(-1.0, 2.0))}", f"metro {hx(1.5)} 5 2 3 {flist([-1.0, 2.0])} {C(1.0)}"], [],
                  f"law metro tgauss {sd} {n3} {hx(1.5)} 8 500 {flist([-1.0, 2.0])} {T1['tgauss'][0]}"))
        bx = list(T2["g2box"][3])
        L.append(([f"metro2 {hx(1.5)} {hx(1.0)} 40 3 7 {flist(bx)} {hrng.choice(dens2_family(*bx))}", f"metro2 {hx(1.5)} {hx(1.0)} 3 1 0 {flist(bx)} {C(1.0)}"], [],
                  f"law metro2 g2box {sd} {n3} {hx(1.5)} {hx(1.0)} 8 500 {flist(bx)} {T2['g2box'][0]}"))
        for ops, raws, l in L:
            st = [untemper(w) for w in raws]
            cs.append(Case(f"lawh {hrng.randrange(2 ** 32)} {len(st)} {' '.join(str(w) for w in st)} {len(ops)} {' '.join(ops)} {l}".replace("  ", " "), ("law", l.split()[1], "after-history")))
    # W. (seventh pass) the acceptance statistic of Sample_Metropolis(_2D): average acceptance probability and the efficiency warning
    #    (< 1e-3 || > 1.0 - 1e-2) -- proposal widths from "every candidate leaves the domain" to "every candidate is taken", constant densities
    #    whose average sits on the 0.99 threshold (one candidate in a hundred outside), i_max = 0 (0.0/0: no warning)
    def as_w(c, tags): return Case("seqw" + c.line[3:], tags)
    for _ in range(R(90, 1500)):
        kind = rng.choice(["wide", "narrow", "mid", "thr99", "thr99", "empty", "any", "any2"])
        if kind == "empty":
            o = rng.choice([f"metro {hx(1.0)} 0 {rng.randint(1, 5)} 0 {flist(rng.choice([[], [-1.0, 2.0]]))} {T1['gauss'][0]}",
                            f"metro2 {hx(1.0)} {hx(0.5)} 0 {rng.randint(1, 5)} 0 {flist(rng.choice([[], [-1.0, 2.0, -1.0, 2.0]]))} {T2['g2'][0]}"]); n = 3
        elif kind == "any": o, n = op_metro()
        elif kind == "any2": o, n = op_metro2()
        else:
            d2 = rng.random() < 0.35
            if kind == "thr99":
                im = rng.choice([100, 100, 100, 200]); th = rng.choice([1, 2, 5, 10]); s_ = im // th; b_ = im - th * s_
                sg = 10 ** rng.uniform(-2.6, -1.9); fx = C(rng.choice([1.0, 0.25, 3.0])); dm = [0.0, 1.0, 0.0, 1.0] if d2 else [0.0, 1.0]
                if d2: sg *= 0.6
            else:
                s_, th, b_ = triple(40); im = imax32(s_, th, b_)
                sg = {"wide": 10 ** rng.uniform(1.5, 4), "narrow": 10 ** rng.uniform(-6, -3), "mid": 10 ** rng.uniform(-1, 0.5)}[kind]
                if d2: nm = rng.choice(["g2box", "xpy"]); fx = T2[nm][0]; dm = list(T2[nm][3]) if T2[nm][3] else [-1.0, 2.0, -1.0, 2.0]
                else: nm = rng.choice(["tgauss", "tri", "sin", "gauss"]); fx = T1[nm][0]; dm = list(T1[nm][2]) if T1[nm][2] else rng.choice([[], [-1.0, 2.0]])
            if d2: o = f"metro2 {hx(sg)} {hx(sg * rng.choice([1.0, 0.5]))} {s_} {th} {b_} {flist(dm)} {fx}"; n = 2 + 3 * im
            else: o = f"metro {hx(sg)} {s_} {th} {b_} {flist(dm)} {fx}"; n = 1 + 2 * im
        cw = as_w(seq_case(seed(), [o], n + 1, ()), ("seqw", kind, o.split()[0]))
        if kind == "thr99":
            # aimed: generator states on which exactly one candidate in a hundred leaves the domain (constant density: every other acceptance
            # probability is exactly 1), so the average is the double 0.99 = 1.0 - 1e-2, the threshold itself; and one candidate more / fewer
            want = im // 100 + rng.choice([0, 0, 0, 1, -1])
            for _try in range(10):
                _, _, us_, ops_ = parse_seq(cw.line); tot = avg_accept(2 if d2 else 1, us_, 0, (ops_[0][1], ops_[0][2]) if d2 else (ops_[0][1],), im, dm, ops_[0][-1])
                if tot is not None and im - tot == want: cw = Case(cw.line, cw.tags + ("on-threshold" if want == im // 100 else "beside-threshold",)); break
                cw = as_w(seq_case(seed(), [o], n + 1, ()), ("seqw", kind, o.split()[0]))
        cs.append(cw)
    for _ in range(R(10, 200)):
        a, n1 = op_metro(); b, n2 = op_metro2(); ops = [a, b] if rng.random() < 0.5 else [b, a]
        cs.append(as_w(seq_case(seed(), ops, n1 + n2 + 1, ()), ("seqw", "two-calls")))
    # G. (seventh pass) the generator inside the model: std::mt19937 (seeding, twist, tempering) and std::generate_canonical as Gallina functions;
    #    the case carries NO uniforms, the model runs the history from the seed (or from prescribed state words) and also reports the next raw output
    def as_g(c, n, tags):
        t = c.line.split(); ns = int(t[2]); k = 3 + ns; nu = int(t[k])
        return Case(" ".join(["seqg", str(n)] + t[1:k] + ["0"] + t[k + 1 + nu:]), tags)
    for _ in range(R(80, 1200)):
        K = rng.choice([1, 1, 2, 3, 5]); ops = []; n = 0
        for _k in range(K):
            name, f = rng.choice(singles)
            o, m = f(60.0) if name == "poisson" else (f(kind=rng.choice(["tight", "loose"])) if name in ("rej", "rej2") else f())
            ops.append(o); n += m
        if n > 400: continue
        raws = [rng.choice([0, 1, M, rng.randrange(2 ** 32)]) for _ in range(rng.choice([2, 4, 6]))] if rng.random() < 0.15 else None
        cs.append(as_g(seq_case(seed(), ops, 0, (), state_raws=raws), n + rng.choice([0, 1, 5]), ("seqg", "history" if K > 1 else ops[0].split()[0]) + (("prescribed-state",) if raws else ())))
    for sd in [0, 1, 5489, 2 ** 32 - 1, 2 ** 31, 19650218, rng.randrange(2 ** 32)]:
        # more than 312 canonical draws: the state is regenerated (_M_gen_rand) inside the case
        cs.append(as_g(seq_case(sd, [f"poissonv 40 " + " ".join([hx(7.5)] * 40)], 0, ()), 700, ("seqg", "twist")))
        cs.append(as_g(seq_case(sd, [f"uniform {hx(0.0)} {hx(1.0)}"] * 3, 0, ()), 3, ("seqg", "first-draws")))
    # N. (follow-up to pass 7) domains that are NARROW relative to their distance from the origin: offsets +-1e2 .. 1e8, width / |offset| on the ladder
    #    1e-12 .. 1e-2, curved CDFs (power, exponential, erf, tanh on the window) with the deviate prescribed between the end values; the same domains
    #    for Rejection_Sampling and Sample_Metropolis.  An accuracy or a step taken relative to |x| instead of the width shows up here.
    for _ in range(R(120, 1500)):
        X = sgn() * 10 ** rng.uniform(2, 8); rel = 10.0 ** -rng.randint(2, 12); w_ = abs(X) * rel
        a = X; b = X + w_; w_ = b - a
        if not (w_ > 0): continue
        r_ = rng.random()
        if r_ < 0.75:
            fam = [f for f in cdf_family(a, b)[1:] if not f[0].startswith("pow") or tokf(f[0].split()[-1]) >= 1.0]
            fx, F = rng.choice(fam); e_ = fparse(fx.split(), 0)[0]; Fa, Fb = feval(e_, a), feval(e_, b)
            if not (Fb - Fa > 1e-3): continue
            u = Fa + (Fb - Fa) * rng.uniform(0.02, 0.98)
            if rng.random() < 0.1: a, b = b, a
            cs.append(seq_case(rng.randrange(2 ** 32), [f"invt {hx(a)} {hx(b)} {fx}"], 3, ("invt", "narrow-far", f"rel1e-{round(-math.log10(rel))}"), state_raws=list(raws_for(u))))
        elif r_ < 0.88:
            cs.append(seq_case(seed(), [f"rej {hx(a)} {hx(b)} {hx(2.0)} {rng.choice(dens_family(a, b))}"], 400, ("rej", "narrow-far")))
        else:
            s_, th, b_ = triple(30)
            cs.append(seq_case(seed(), [f"metro {hx(w_ * rng.choice([0.1, 0.5, 2.0]))} {s_} {th} {b_} {flist([a, b])} {rng.choice(dens_family(a, b))}"], 1 + 2 * imax32(s_, th, b_) + 1, ("metro", "narrow-far")))
    return cs


# ------------------------------------------------------------------ comparison with the model
def compare(c, io, mo, tol):
    op = c.line.split(None, 1)[0]
    if op in ("law", "lawh"): return (mo == "NOMODEL"), False, ("" if mo == "NOMODEL" else "model driver: " + mo[:60])
    if op == "seqh" and io: io = io.split(" FRESH ")[0]      # the answers of the pristine processes are judged in predicates()
    if op == "seqw" and io: io = io.split(" A ")[0]          # the averages printed by the library are judged in predicates()
    if op in ("seq", "seqw", "seqn", "seqh") and io and not io.startswith(("EXIT", "CRASH", "SANITIZER", "TIMEOUT", "HARNESSERR")):
        io = io.rsplit(None, 1 if op in ("seq", "seqw") else 2)[0]          # the next raw output(s) are checked against the Python MT19937 in predicates()
    return compare_lines(io, mo, tol)


def nontrivial(c, io):
    t = c.line.split(None, 1)[0]
    if io.startswith(("CRASH", "SANITIZER", "TIMEOUT", "HARNESSERR")): return False
    if t == "mgrid":
        p = c.line.split(); return int(p[3]) >= 2 and int(p[4]) % int(p[3]) != 0
    if t == "seqh": return len(parse_seq(c.line)[3]) >= 2 and " FRESH " in io
    if t == "seqw": return not io.startswith("EXIT") and " A " in io
    if t == "seqg":
        if io.startswith("EXIT"): return False
        v = parse_vals(io); return len(v) >= 3 and v[-3] >= 1          # at least one canonical draw made through the modelled generator
    if t == "seqn":
        def names(o): return names(o[1]) if o[0] == "onaux" else ({"nest"} | names(o[3]) | names(o[4]) if o[0] == "nest" else {o[0]})
        ops = parse_seq(c.line)[3]; ns = set()
        for o in ops: ns |= names(o)
        return len(ns) >= 2 and not io.startswith("EXIT")
    if t == "seq":
        _, _, us, ops = parse_seq(c.line)
        if len({o[0] for o in ops}) >= 2: return True
        for o in ops:
            if o[0] == "metro" and o[3] >= 2 and o[4] % o[3] != 0: return True
            if o[0] == "metro2" and o[4] >= 2 and o[5] % o[4] != 0: return True
            if o[0] == "poisson" and o[1] > 500: return True
        if ops and ops[0][0] in ("rej", "rej2") and not io.startswith("EXIT"):
            v = parse_vals(io); per = 2 if ops[0][0] == "rej" else 3
            return len(v) >= 3 and v[-3] > per
    return False


# ------------------------------------------------------------------ S4: the property's clauses on the implementation's output
def gammaincc(a, x):
    """regularised upper incomplete gamma Q(a,x) (series / continued fraction)"""
    if x <= 0: return 1.0
    if x < a + 1.0:
        ap = a; s = d = 1.0 / a
        for _ in range(100000):
            ap += 1.0; d *= x / ap; s += d
            if abs(d) < abs(s) * 1e-16: break
        return max(0.0, 1.0 - s * math.exp(-x + a * math.log(x) - math.lgamma(a)))
    b = x + 1.0 - a; c = 1e300; d = 1.0 / b; h = d
    for i in range(1, 100000):
        an = -i * (i - a); b += 2.0; d = an * d + b
        if abs(d) < 1e-300: d = 1e-300
        c = b + an / c
        if abs(c) < 1e-300: c = 1e-300
        d = 1.0 / d; de = d * c; h *= de
        if abs(de - 1.0) < 1e-16: break
    return math.exp(-x + a * math.log(x) - math.lgamma(a)) * h


def ks_stat(xs, cdf):
    xs = sorted(xs); n = len(xs); d = 0.0
    for i, x in enumerate(xs):
        F = cdf(x); d = max(d, F - i / n, (i + 1) / n - F)
    return d


def ks_crit(n): return math.sqrt(-0.5 * math.log(ALPHA / 2.0) / n)


def chi2_pvalue(obs, exp):
    """Pearson chi-square of observed counts against expected counts (bins pooled by the caller)"""
    x2 = sum((o - e) ** 2 / e for o, e in zip(obs, exp)); df = len(obs) - 1
    return x2, df, (gammaincc(df / 2.0, x2 / 2.0) if df > 0 else 1.0)


def poisson_law(ks, lam, tag):
    out = []; n = len(ks)
    if any(k < 0 for k in ks): out.append((tag + ":support", "negative Poisson sample"))
    m = sum(ks) / n; v = sum((k - m) ** 2 for k in ks) / (n - 1)
    if abs(m - lam) > ZCRIT * math.sqrt(lam / n) + 1e-12: out.append((tag + ":mean", f"Poisson({lam}) sample mean {m:.6g} deviates by more than {ZCRIT} standard errors (n={n})"))
    if lam >= 0.5 and abs(v - lam) > ZCRIT * math.sqrt((lam + 2 * lam * lam) / n) + 8.0 * (lam + 1) / n:
        out.append((tag + ":variance", f"Poisson({lam}) sample variance {v:.6g} deviates by more than {ZCRIT} standard errors (n={n})"))
    # chi-square on pooled bins (expected count >= 10 per bin)
    lo = max(0, int(lam - 12 * math.sqrt(lam) - 12)); hi = int(lam + 12 * math.sqrt(lam) + 30)
    pm = {k: math.exp(k * math.log(lam) - lam - math.lgamma(k + 1)) for k in range(lo, hi + 1)}
    bins = []; cur_e = 0.0; cur_k = []
    for k in range(lo, hi + 1):
        cur_e += pm[k] * n; cur_k.append(k)
        if cur_e >= 10.0: bins.append((cur_k, cur_e)); cur_e = 0.0; cur_k = []
    if not bins: return out
    if cur_k: bins[-1] = (bins[-1][0] + cur_k, bins[-1][1] + cur_e)
    # tails: everything below the first / above the last listed value goes to the end bins
    tot = sum(e for _, e in bins); first, last = bins[0], bins[-1]
    loset = set(first[0]); hiset = set(last[0])
    obs = [0] * len(bins); idx = {}
    for j, (kk, _) in enumerate(bins):
        for k in kk: idx[k] = j
    for k in ks:
        j = idx.get(k)
        if j is None: j = 0 if k < lo else len(bins) - 1
        obs[j] += 1
    exp = [e for _, e in bins]; rest = n - tot
    exp[0] += max(rest, 0.0) / 2; exp[-1] += max(rest, 0.0) / 2
    if len(bins) >= 2:
        x2, df, p = chi2_pvalue(obs, exp)
        if p < ALPHA: out.append((tag + ":chi-square", f"Poisson({lam}) chi-square {x2:.1f} on {df} dof, p = {p:.2e} < {ALPHA} (n={n})"))
    return out


def law_predicates(c, io):
    t = c.line.split()
    if t[0] == "lawh": t = t[t.index("law"):]           # the history before the series: other calls in the same process
    kind, target, n = t[1], t[2], int(t[4])
    tag = "law-" + kind
    if io.startswith("EXIT"): return [(tag + ":exit", "the sampler terminated the process inside its stated domain of use")]
    v = parse_vals(io); out = []
    if kind in ("poisson", "poissonv"):
        lam = tokf(t[5]); ks = v[1:]
        if v[0] != n or len(ks) != n: return [(tag + ":count", f"{v[0]} samples instead of {n}")]
        return poisson_law(ks, lam, tag)
    def ks_check(xs, cdf, what):
        d = ks_stat(xs, cdf); cr = ks_crit(len(xs))
        if not (d <= cr): out.append((tag + ":ks", f"{what}: Kolmogorov-Smirnov distance {d:.4f} > {cr:.4f} (n={len(xs)}, significance {ALPHA})"))
    def moments(xs, mean, var, what):
        m = sum(xs) / len(xs)
        if abs(m - mean) > ZCRIT * math.sqrt(var / len(xs)): out.append((tag + ":mean", f"{what}: sample mean {m:.6g}, expected {mean:.6g} (more than {ZCRIT} standard errors, n={len(xs)})"))
    if kind == "uniform":
        a, b = tokf(t[5]), tokf(t[6]); xs = v[1:]
        if len(xs) != n: return [(tag + ":count", "wrong number of samples")]
        if any(not (a <= x <= b) for x in xs): out.append((tag + ":support", "uniform sample outside [a,b]"))
        ks_check(xs, lambda x: (x - a) / (b - a), f"Uniform({a},{b})"); moments(xs, (a + b) / 2, (b - a) ** 2 / 12, "uniform")
    elif kind == "gauss":
        mu, sg = tokf(t[5]), tokf(t[6]); xs = v[1:]
        if len(xs) != n: return [(tag + ":count", "wrong number of samples")]
        ks_check(xs, lambda x: Phi((x - mu) / sg), f"Gauss({mu},{sg})"); moments(xs, mu, sg * sg, "gauss")
        s2 = sum((x - mu) ** 2 for x in xs) / n
        if abs(s2 - sg * sg) > ZCRIT * sg * sg * math.sqrt(2.0 / n): out.append((tag + ":variance", f"Gauss variance {s2:.6g}, expected {sg*sg:.6g}"))
    elif kind == "invt":
        _, cdf, a, b = TC[target]; xs = v[1:]
        if len(xs) != n: return [(tag + ":count", "wrong number of samples")]
        if any(not (a <= x <= b) for x in xs): out.append((tag + ":support", "inverse-transform sample outside [xMin,xMax]"))
        ks_check(xs, cdf, "inverse transform of " + target)
    elif kind in ("rej", "metro"):
        _, cdf, sup = T1[target]; xs = v[1:]
        if v[0] != n or len(xs) != n: return [(tag + ":count", f"{v[0]} samples instead of {n}")]
        if kind == "rej":
            a, b = tokf(t[5]), tokf(t[6])
        else:
            m = int(t[8]); dom = [tokf(x) for x in t[9:9 + m]]; (a, b) = dom if dom else (-math.inf, math.inf)
        if any(not (a <= x <= b) for x in xs): out.append((tag + ":domain", "sample outside the requested domain"))
        ks_check(xs, cdf, f"{kind} sampling of {target}")
    elif kind in ("rej2", "metro2"):
        _, cx, cy, box, (sx, sy), q = T2[target]; xy = v[1:]
        if v[0] != n or len(xy) != 2 * n: return [(tag + ":count", f"{v[0]} samples instead of {n}")]
        xs, ys = xy[0::2], xy[1::2]
        if kind == "rej2": bx = [tokf(x) for x in t[5:9]]
        else:
            m = int(t[9]); bx = [tokf(x) for x in t[10:10 + m]]
        if bx and any(not (bx[0] <= x <= bx[1] and bx[2] <= y <= bx[3]) for x, y in zip(xs, ys)): out.append((tag + ":domain", "2D sample outside the requested domain"))
        ks_check(xs, cx, f"{kind} of {target}, x marginal"); ks_check(ys, cy, f"{kind} of {target}, y marginal")
        obs = [0, 0, 0, 0]
        for x, y in zip(xs, ys): obs[(2 if x >= sx else 0) + (1 if y >= sy else 0)] += 1
        if kind == "rej2":      # independent draws: chi-square on the quadrant counts (joint law)
            x2, df, p = chi2_pvalue(obs, [n * pq for pq in q])
            if p < ALPHA: out.append((tag + ":chi-square", f"quadrant counts {obs} against {[round(n*pq) for pq in q]}: p = {p:.2e}"))
        else:                   # correlated chain: quadrant frequencies within 4x the iid standard error at ZCRIT
            for o, pq in zip(obs, q):
                if abs(o / n - pq) > 4 * ZCRIT * math.sqrt(pq * (1 - pq) / n): out.append((tag + ":quadrants", f"quadrant frequency {o/n:.4f}, expected {pq:.4f}"))
    return out


def knuth_exact(us, lam):
    """Knuth's rule decided in exact rational arithmetic where the logarithms cannot tell: Q = u_1 ... u_j * exp(lambda) against 1, exp(lambda) taken
    as the product of libm's exp over the rescaling stages (each within one ulp).  The library's p carries one rounding per multiplication and
    the error of each exp: a priori |p/Q - 1| <= (j + 2 stages + 4) 2^-52.  Returns True (Q <= 1: stop), False (continue) or None (not decided)."""
    from fractions import Fraction
    E = Fraction(1); left = lam; st = 0
    while left > 0.0:
        if left > 500.0: E *= Fraction(math.exp(500.0)); left -= 500.0
        else: E *= Fraction(math.exp(left)); left = 0.0
        st += 1
    Q = E
    for x in us: Q *= Fraction(x)
    tol = Fraction(len(us) + 2 * st + 4, 2 ** 52)
    if abs(Q - 1) <= tol: return None
    return Q <= 1


def slope_bound(e, lo, hi):
    """(range lo, range hi, Lipschitz bound) of the function expression e of x on [lo, hi], by the chain / product rules on enclosures; None
    where the rules below do not apply.  A PRIORI bound of |cdf'|: used to turn the accuracy Find_Root is asked for into a bound on |cdf(x) - xi|."""
    o = e[0]
    if o == "x": return lo, hi, 1.0
    if o == "c": return e[1], e[1], 0.0
    if o in ("y", "z", "v"): return None
    if o in "+-*/" and len(o) == 1:
        A = slope_bound(e[1], lo, hi); B = slope_bound(e[2], lo, hi)
        if A is None or B is None: return None
        (al, ah, La), (bl, bh, Lb) = A, B
        if o == "+": return al + bl, ah + bh, La + Lb
        if o == "-": return al - bh, ah - bl, La + Lb
        if o == "*":
            ps = [al * bl, al * bh, ah * bl, ah * bh]
            return min(ps), max(ps), max(abs(al), abs(ah)) * Lb + max(abs(bl), abs(bh)) * La
        if Lb != 0.0 or bl != bh or bl == 0.0: return None          # division by a constant only
        qs = [al / bl, ah / bl]; return min(qs), max(qs), La / abs(bl)
    A = slope_bound(e[1], lo, hi)
    if A is None: return None
    al, ah, La = A
    pad = 1e-9 * max(abs(al), abs(ah), 1e-300)                       # the enclosures are computed in doubles
    al -= pad; ah += pad
    if o == "neg": return -ah, -al, La
    if o == "exp":
        if ah > 700: return None
        return math.exp(al), math.exp(ah), math.exp(ah) * La
    if o == "erf": return math.erf(al), math.erf(ah), 2.0 / math.sqrt(math.pi) * La
    if o == "tanh": return math.tanh(al), math.tanh(ah), La
    if o in ("sin", "cos"): return -1.0, 1.0, La
    if o == "atan": return math.atan(al), math.atan(ah), La
    if o == "pow":
        p = e[2]
        if p < 1.0 or ah < 0.0: return None
        al = max(al, 0.0); return al ** p, ah ** p, p * ah ** (p - 1.0) * La
    return None


def replay_seq(us, ops, v, vs=None):
    """Independent replay of a sequence on the uniforms of the case: returns (violations, consumed or None, expects_exit).
    v: the implementation's output values (None when it exited).  With vs (the uniforms of the second generator) calls marked
    `onaux` are replayed on that stream; consumed is then the pair (first generator, second generator)."""
    out = []; pos = 0        # pos: position in v
    streams = [us, vs if vs is not None else []]; ks = [0, 0]; gen = 0
    def take(m):
        nonlocal pos
        if v is None: return None
        r = v[pos:pos + m]; pos += m; return r if len(r) == m else None
    k = 0
    for o in ops:
        ks[gen] = k; gen = 0
        while o[0] == "onaux": o = o[1]; gen ^= 1
        us = streams[gen]; k = ks[gen]        # k: uniforms consumed from the generator of this call
        name = o[0]
        if name == "uniform":
            a, b = o[1], o[2]; u = us[k]; k += 1
            r = take(1)
            if r is None: return out, None, False
            exp = u * (b - a) + a
            if r[0] != exp: out.append(("uniform:map", f"Sample_Uniform({a},{b}) = {r[0]!r}, the canonical draw {u!r} maps to {exp!r}"))
            if a <= b and not (a <= r[0] <= b): out.append(("uniform:range", f"Sample_Uniform({a},{b}) = {r[0]!r} outside [a,b]"))
        elif name == "gauss":
            mu, sg = o[1], o[2]; u = us[k]; k += 1
            p = 2.0 * u - 1.0
            r = take(1)
            if r is None: return out, None, False
            if abs(p) >= 1.0:
                # a canonical uniform <= 2^-55: 2u-1 rounds to -1 and Inv_Erf(-1) = -10 (like Inv_Erf(+1) = 10)
                exp = mu + SQ2 * sg * (10.0 * p)
                if r[0] != exp and not (math.isnan(r[0]) and math.isnan(exp)): out.append(("gauss:tiny-uniform", f"Sample_Gauss({mu},{sg}) = {r[0]!r} on the canonical uniform {u!r}; Inv_Erf(-1) = -10 gives {exp!r}"))
            elif sg > 0 and math.isfinite(r[0]):
                e = math.erf((r[0] - mu) / (SQ2 * sg))
                # Inv_Erf: bracket narrower than 1e-4 around the root of erf(x) = p; |erf'| <= 2/sqrt(pi); + rounding of mu + sqrt2*sigma*x
                if abs(e - p) > 1.13e-4 + 1e-9 + 4e-16 * abs(mu) / sg: out.append(("gauss:quantile", f"Sample_Gauss({mu},{sg}) = {r[0]!r}: erf of the standardised value {e!r} is not the uniform's 2u-1 = {p!r} within Inv_Erf's accuracy"))
            elif sg == 0 and r[0] != mu and not (mu == 0 and r[0] == 0): out.append(("gauss:degenerate", f"sigma = 0 must return the mean, got {r[0]!r}"))
        elif name in ("poisson", "poissonv"):
            lams = [o[1]] if name == "poisson" else o[1]
            r = take(1 + len(lams) if name == "poissonv" else 1)
            if r is None: return out, None, False
            if name == "poissonv":
                if r[0] != len(lams): out.append(("poisson:count", "vector overload returned a different number of samples")); return out, None, False
                r = r[1:]
            for lam, kk in zip(lams, r):
                if not isinstance(kk, int) or kk < 0 or k + kk + 1 > len(us): out.append(("poisson:support", f"Sample_Poisson({lam}) = {kk}")); return out, None, False
                # Knuth: kk = min{j : prod_{i<=j+1} u_i <= exp(-lam)}, in logarithms; draws within 1e-9 of the threshold are not judged
                logs = [math.log(x) if x > 0 else -math.inf for x in us[k:k + kk + 1]]
                L = max(lam, 0.0) if lam == lam else 0.0
                s = 0.0; ok = True; amb = False
                for j, lg in enumerate(logs):
                    s += lg; slack = 1e-9 * (L + 1.0)
                    if abs(s + L) <= slack:
                        stopped = knuth_exact(us[k:k + j + 1], L)         # within 1e-9 of the threshold: exact rational arithmetic
                        if stopped is None: amb = True; break
                    else: stopped = s <= -L
                    if stopped != (j == kk): ok = False; break
                if not ok and not amb: out.append(("poisson:knuth", f"Sample_Poisson({lam}) = {kk} is not min{{k : u_1...u_(k+1) <= exp(-lambda)}} on the uniforms drawn (log-product {s!r} after {j+1} draws)"))
                if amb: return out, None, False
                k += kk + 1
        elif name == "invt":
            a, b, e = o[1], o[2], o[3]; u = us[k]; k += 1
            # Find_Root needs a sign change of u - cdf between the limits (a CDF restricted to a window: valid exactly when the deviate lies
            # between the end values); otherwise it terminates the process
            flo = feval(e, min(a, b)); fhi = feval(e, max(a, b))
            if flo != flo or fhi != fhi: return out, k, True
            dl = u - flo; dh = u - fhi; eps = 1e-12
            if (dl > eps and dh > eps) or (dl < -eps and dh < -eps): return out, k, True
            clear = (dl > eps and dh < -eps) or (dl < -eps and dh > eps)
            r = take(1)
            if r is None:
                if v is None and clear: continue        # the implementation terminated; not here, if the deviate lies between the end values
                return out, None, False
            lo, hi = min(a, b), max(a, b); acc = 1e-10 * abs(b - a)
            x = r[0]
            if not (lo <= x <= hi): out.append(("invt:range", f"Inverse_Transform_Sampling returned {x!r} outside [{lo},{hi}]"))
            else:
                # Find_Root stops when the bracket is narrower than acc (or, at double resolution, after Max_Iterations on a bracket of one spacing):
                # the returned point is within acc + 2 spacings of the quantile
                sp = 2.0 * (math.nextafter(max(abs(lo), abs(hi)), math.inf) - max(abs(lo), abs(hi)))
                f1 = feval(e, max(lo, x - 1.5 * acc - sp)); f2 = feval(e, min(hi, x + 1.5 * acc + sp))
                if not (f1 - 1e-15 <= u <= f2 + 1e-15): out.append(("invt:root", f"cdf({x!r}) does not bracket the uniform {u!r} within the accuracy: cdf in [{f1!r},{f2!r}]"))
                if True:
                    # the clause itself: |cdf(x) - xi| <= (slope bound of the cdf on the domain) * (acc + 2 spacings) + evaluation error of the cdf (1e-12 a priori)
                    sb = slope_bound(e, lo, hi)
                    if sb is not None and sb[2] == sb[2] and not math.isinf(sb[2]):
                        bound = sb[2] * (acc + sp) + 1e-12; fx_ = feval(e, x)
                        if fx_ == fx_ and abs(fx_ - u) > bound:
                            out.append(("invt:quantile", f"Inverse_Transform_Sampling on [{lo!r},{hi!r}] returned x = {x!r} with cdf(x) = {fx_!r} for the uniform xi = {u!r} consumed: "
                                        f"|cdf(x) - xi| = {abs(fx_ - u):.3e} exceeds {bound:.3e} = (slope bound {sb[2]:.3e}) * (1e-10 * width + 2 spacings) + 1e-12"))
        elif name in ("rej", "rej2"):
            d2 = name == "rej2"; per = 3 if d2 else 2
            if d2: xa, xb, ya, yb, zm, e = o[1:]
            else: xa, xb, zm, e = o[1:]
            cnt = 0; res = None
            while True:
                cnt += 1
                if cnt % 10000 == 0: return out, k, True
                if k + per > len(us): return out, None, False
                x = us[k] * (xb - xa) + xa
                if d2: y = us[k + 1] * (yb - ya) + ya; z = us[k + 2] * (zm - 0.0) + 0.0; pdf = feval(e, x, y)
                else: y = None; z = us[k + 1] * (zm - 0.0) + 0.0; pdf = feval(e, x)
                k += per
                if not d2 and (pdf < 0 or pdf != pdf or math.isinf(pdf)): return out, k, True
                if pdf > zm:
                    rd = abs(pdf - zm) / max(abs(pdf), abs(zm))
                    if abs(rd - 0.01) < 1e-12: return out, None, False
                    if rd > 0.01: return out, k, True
                if pdf == pdf and abs(z - pdf) <= 1e-13 * max(abs(pdf), 1e-300) and z != pdf: return out, None, False    # libm-level tie: not judged
                if z <= pdf: res = (x, y); break
            r = take(2 if d2 else 1)
            if r is None:
                if v is not None: return out, None, False
                out.append((name + ":exit", f"{name}: the replay accepts the point {res} at trial {cnt}, the implementation terminated")); return out, None, False
            got = (r[0], r[1]) if d2 else (r[0], None)
            if got != res:
                out.append((name + ":accept-rule", f"{name}: returned {got}, but on the uniforms drawn the first trial with y <= pdf(x) is trial {cnt} at {res}"))
                return out, None, False
            if not (min(xa, xb) <= r[0] <= max(xa, xb)) or (d2 and not (min(ya, yb) <= r[1] <= max(ya, yb))): out.append((name + ":domain", f"{name}: returned point {got} outside the box"))
        elif name in ("metro", "metro2"):
            d2 = name == "metro2"
            if d2: s1, s2, sample, thin, burn, dom, e = o[1:]
            else: s1, sample, thin, burn, dom, e = o[1:]
            if len(dom) not in ((0, 4) if d2 else (0, 2)): return out, k, True
            im = imax32(sample, thin, burn); need = (2 + 3 * im) if d2 else (1 + 2 * im)
            if k + need > len(us): return out, None, False
            gpos = []
            if not dom: gpos += [k, k + 1] if d2 else [k]
            base = k + (2 if d2 else 1)
            for i in range(im): gpos += [base + 3 * i, base + 3 * i + 1] if d2 else [base + 2 * i]
            k += need
            r = take(1)
            if r is None: return out, None, False
            cnt = r[0]; pts = take(cnt * (2 if d2 else 1))
            if pts is None: return out, None, False
            if thin >= 1 and burn + thin * sample < 2 ** 32 and cnt != sample:
                out.append((name + ":count", f"{name}: {cnt} samples returned for (sample, thinning, burn_in) = ({sample}, {thin}, {burn})"))
            if dom:
                if d2: bad = [(x, y) for x, y in zip(pts[0::2], pts[1::2]) if not (dom[0] <= x <= dom[1] and dom[2] <= y <= dom[3])]
                else: bad = [x for x in pts if not (dom[0] <= x <= dom[1])]
                if bad: out.append((name + ":domain", f"{name}: sample {bad[0]} outside the bounded domain {dom}"))
            if thin == 1 and burn + sample < 2 ** 32 and cnt == sample and cnt > 0:
                out += metro_steps(name, d2, us, k - need, (s1, s2) if d2 else (s1,), burn, dom, e, pts)
    ks[gen] = k
    return out, (k if vs is None else (ks[0], ks[1])), False


def metro_steps(name, d2, us, k0, sigmas, burn, dom, e, pts):
    """Acceptance rule on a fully visible chain (thinning 1): the returned points are the chain states x_burn, x_burn+1, ...
    A step that moved shows its candidate: the accept deviate u must satisfy u < min(1, pdf(cand)/pdf(x)) (std::min(1.0, r) is 1.0 for a NaN r).
    A step that stayed hides its candidate; it is located from the proposal deviate (Inv_Erf is accurate to 1e-4 in the standardised variable)
    and judged only when it lies clearly inside the domain and the acceptance probability is clearly above u."""
    out = []; dim = 2 if d2 else 1; per = dim + 1; base = k0 + dim
    P = (lambda i: (pts[2 * i], pts[2 * i + 1])) if d2 else (lambda i: (pts[i],))
    def pdf(p): return feval(e, p[0], p[1]) if d2 else feval(e, p[0])
    def ratio(a, b):
        if b == 0.0: return math.nan if (a == 0.0 or a != a) else math.copysign(math.inf, a) * math.copysign(1.0, b)
        return a / b
    def amin(r): return r if r < 1.0 else 1.0          # std::min(1.0, r)
    n = len(pts) // dim
    for j in range(n):
        cur = P(j)
        if j == 0:
            if burn != 0 or not dom: continue
            prev = tuple(us[k0 + c] * (dom[2 * c + 1] - dom[2 * c]) + dom[2 * c] for c in range(dim))
        else: prev = P(j - 1)
        i = burn + j; u = us[base + per * i + dim]
        fp = pdf(prev)
        if cur != prev:
            if any(x != x for x in cur): continue
            a = amin(ratio(pdf(cur), fp))
            if dom and any(cur[c] < dom[2 * c] or cur[c] > dom[2 * c + 1] for c in range(dim)): a = 0.0      # a candidate outside of the domain
            if not (u < a) and not (a > 0 and abs(u - a) <= 1e-12 * a):
                out.append((name + ":accept-rule", f"{name}: step {i} moved from {prev} to {cur} although the accept deviate {u!r} is not below min(1, pdf ratio) = {a!r}"))
                break
            continue
        # stayed
        if any(not (s > 0 and math.isfinite(s)) for s in sigmas) or not (fp == fp) or fp < 0: continue
        cand = []; dl = []; ok = True
        for c in range(dim):
            pz = 2.0 * us[base + per * i + c] - 1.0
            if not (abs(pz) <= 1.0 - 2e-10): ok = False; break
            cand.append(prev[c] + SQ2 * sigmas[c] * erfinv(pz)); dl.append(SQ2 * sigmas[c] * 2e-4 + 4e-16 * (abs(prev[c]) + abs(cand[-1])))
        if not ok: continue
        if dom:
            if any(cand[c] + dl[c] < dom[2 * c] or cand[c] - dl[c] > dom[2 * c + 1] for c in range(dim)): continue            # clearly outside: acceptance 0
            if not all(dom[2 * c] <= cand[c] - dl[c] and cand[c] + dl[c] <= dom[2 * c + 1] for c in range(dim)): continue       # too close to an edge to tell
        if any(cand[c] == prev[c] for c in range(dim)): continue
        probe = [tuple(cand[c] + sg[c] * dl[c] for c in range(dim)) for sg in ([(0,), (-1,), (1,)] if dim == 1 else [(0, 0), (-1, -1), (-1, 1), (1, -1), (1, 1)])]
        fs = [pdf(q) for q in probe]
        if fp == 0.0:
            # min(1, f/0): +inf or NaN, i.e. 1.0, for every candidate with f >= 0 or f NaN -- when the zero is +0.0.  A density that evaluates to -0.0
            # (e.g. indicator * 2x at x < 0) gives f/(-0.0) = -inf for f > 0: the library never moves to a point of positive density (K-C18-1).
            if any(f < 0 for f in fs): continue
            negz = math.copysign(1.0, fp) < 0 and all(f > 0 for f in fs)
            if math.copysign(1.0, fp) < 0 and not negz and not all(f == 0.0 or f != f for f in fs): continue
            if u < 1.0:
                out.append((name + ":accept-rule" + (":negzero" if negz else ""), f"{name}: step {i} stayed at {prev}, a point of zero density ({fp!r}), although the candidate ~{tuple(cand)} lies inside "
                            f"the domain: the acceptance probability there has to be 1 > accept deviate {u!r} (a chain that does not leave the zero-density region cannot reach the target law)"))
                break
            continue
        if not all(f == f and math.isfinite(f) and f > 0 for f in fs) or not math.isfinite(fp): continue
        rs = [f / fp for f in fs]
        if max(rs) > 1.1 * min(rs): continue
        a = amin(min(rs))
        if u < 0.8 * a:
            out.append((name + ":accept-rule", f"{name}: step {i} stayed at {prev} although the candidate ~{tuple(cand)} lies inside the domain and the accept deviate {u!r} "
                        f"is below min(1, pdf ratio) ~ {a!r}"))
            break
    return out


# ------------------------------------------------------------------ seqn: re-entrant user functions, two generators
def const_cons(o):
    """uniforms one call of o takes from (the generator it is made on, the other generator), when that is a constant of the request"""
    n = o[0]
    if n in ("uniform", "gauss", "invt"): return (1, 0)
    if n == "metro": return (1 + 2 * imax32(o[2], o[3], o[4]), 0) if len(o[5]) in (0, 2) else None
    if n == "metro2": return (2 + 3 * imax32(o[3], o[4], o[5]), 0) if len(o[6]) in (0, 4) else None
    if n == "onaux":
        c = const_cons(o[1]); return (c[1], c[0]) if c else None
    return None


def has_nest(o):
    return o[0] == "nest" or (o[0] == "onaux" and has_nest(o[1]))


def seqn_predicates(c, io):
    """The clauses that can be decided without following the arithmetic of the chain: number of samples, containment, and the
    bookkeeping of the generators -- every canonical draw of the outer sampler and of the calls made by its user function comes from the
    generator it belongs to, in the order of the calls: uniforms consumed from each generator, the draws made before the first
    evaluations of the user function, the states left behind."""
    seed, state, us, ops, seed2, vs = parse_seq(c.line, True)
    if io.startswith("EXIT"): return []          # guards inside nested calls: decided by the comparison with the model
    v = parse_vals(io); out = []
    tail_n = 2 + 1 + 1      # cons, cons_aux, det, nev  | npos, positions | next, next_aux
    pos = 0
    def take(m):
        nonlocal pos
        r = v[pos:pos + m]; pos += m
        if len(r) != m: raise IndexError
        return r
    first_expected = []; first_done = False      # expected draws before the first evaluations of the first re-entrant function
    tot = [0, 0]; known = True
    def add(gen, cc):
        nonlocal known
        if cc is None: known = False
        else: tot[gen] += cc[0]; tot[1 - gen] += cc[1]
    def walk(o, gen, nest=None):
        """consumes the output of one call made on generator gen; returns the uniforms (on gen, on the other) or None"""
        nonlocal first_done
        n = o[0]
        if n == "onaux":
            r = walk(o[1], 1 - gen, None); return (r[1], r[0]) if r else None
        if n == "nest":
            _, same, red, inner, outer = o
            before = (tot[0] + tot[1]) if known else None
            own = walk(outer, gen, nest=o)
            nev = take(1)[0]
            ci = const_cons(inner); kind = outer[0]
            if kind in ("metro", "metro2"):
                d2 = kind == "metro2"; sample, thin, burn, dom = (outer[3:7] if d2 else outer[2:6]); im = imax32(sample, thin, burn)
                if len(dom) in ((0, 4) if d2 else (0, 2)):
                    if nev % 2 or nev > 2 * im or (not dom and nev != 2 * im):
                        out.append((kind + ":evaluations", f"{kind}: the target density was evaluated {nev} times in {im} steps ({'un' if not dom else ''}bounded domain: two evaluations per step with a candidate inside the domain)"))
            elif kind in ("rej", "rej2"):
                own = ((2 if kind == "rej" else 3) * nev, 0)       # one evaluation per trial
                if nev < 1: out.append((kind + ":evaluations", f"{kind} returned a point without evaluating the density"))
            elif kind == "invt" and nev < 2: out.append(("invt:evaluations", "the CDF was evaluated fewer than two times"))
            # draws made (both generators together) when the user function is entered, for the first evaluations
            if not first_done:
                first_done = True
                if before is not None and ci is not None and not has_nest(inner):
                    cin = ci[0] + ci[1]; m = min(6, nev); exp = None
                    if kind == "metro" and nev == 2 * im: exp = [before + 1 + (j // 2) * (2 + 2 * cin) + 1 + (j % 2) * cin for j in range(m)]
                    elif kind == "metro2" and nev == 2 * im: exp = [before + 2 + (j // 2) * (3 + 2 * cin) + 2 + (j % 2) * cin for j in range(m)]
                    elif kind == "rej": exp = [before + j * (2 + cin) + 2 for j in range(m)]
                    elif kind == "rej2": exp = [before + j * (3 + cin) + 3 for j in range(m)]
                    elif kind == "invt": exp = [before + 1 + j * cin for j in range(m)]
                    if exp is not None: first_expected.append((kind, exp))
            if own is None or ci is None: return None
            return (own[0] + nev * (ci[0] if same else ci[1]), own[1] + nev * (ci[1] if same else ci[0]))
        if n == "uniform":
            x = take(1)[0]; a, b = o[1], o[2]
            if a <= b and not (a <= x <= b): out.append(("uniform:range", f"Sample_Uniform({a},{b}) = {x!r} outside [a,b]"))
            return (1, 0)
        if n == "gauss": take(1); return (1, 0)
        if n == "poisson":
            k = take(1)[0]
            if not isinstance(k, int) or k < 0: out.append(("poisson:support", f"Sample_Poisson({o[1]}) = {k}")); return None
            return (k + 1, 0)
        if n == "poissonv":
            m = take(1)[0]
            if m != len(o[1]): out.append(("poisson:count", "vector overload returned a different number of samples")); raise IndexError
            ks = take(m)
            if any((not isinstance(k, int)) or k < 0 for k in ks): out.append(("poisson:support", f"Sample_Poisson = {ks}")); return None
            return (sum(k + 1 for k in ks), 0)
        if n == "invt":
            x = take(1)[0]; lo, hi = min(o[1], o[2]), max(o[1], o[2])
            if not (lo <= x <= hi): out.append(("invt:range", f"Inverse_Transform_Sampling returned {x!r} outside [{lo},{hi}]"))
            return (1, 0)
        if n == "rej":
            x = take(1)[0]
            if not (min(o[1], o[2]) <= x <= max(o[1], o[2])): out.append(("rej:domain", f"rej: returned point {x!r} outside the box"))
            return None
        if n == "rej2":
            x, y = take(2)
            if not (min(o[1], o[2]) <= x <= max(o[1], o[2]) and min(o[3], o[4]) <= y <= max(o[3], o[4])): out.append(("rej2:domain", f"rej2: returned point {(x, y)} outside the box"))
            return None
        if n in ("metro", "metro2"):
            d2 = n == "metro2"
            if d2: s1, s2, sample, thin, burn, dom, e = o[1:]
            else: s1, sample, thin, burn, dom, e = o[1:]
            cnt = take(1)[0]
            if not isinstance(cnt, int) or cnt < 0: raise IndexError
            pts = take(cnt * (2 if d2 else 1))
            what = n + (" with a re-entrant density" if nest else "")
            if thin >= 1 and burn + thin * sample < 2 ** 32 and cnt != sample:
                out.append((n + ":count", f"{what}: {cnt} samples returned for (sample, thinning, burn_in) = ({sample}, {thin}, {burn})"))
            if dom and len(dom) == (4 if d2 else 2):
                if d2: bad = [(x, y) for x, y in zip(pts[0::2], pts[1::2]) if not (dom[0] <= x <= dom[1] and dom[2] <= y <= dom[3])]
                else: bad = [x for x in pts if not (dom[0] <= x <= dom[1])]
                if bad: out.append((n + ":domain", f"{what}: sample {bad[0]} outside the bounded domain {dom}"))
            return const_cons(o)
        raise ValueError(n)
    try:
        for o in ops: add(0, walk(o, 0))
        cons, cons2, det, nev_all, npos = take(5)
        firsts = take(npos)
        nxt, nxt2 = take(2)
        if pos != len(v): raise IndexError
    except (IndexError, ValueError, TypeError):
        return out or [("seqn:shape", "the output does not have the shape of the requested calls")]
    names = "reentrant" if any(has_nest(o) for o in ops) else "two-generators"
    if det != 1: out.append((names + ":determinism", "two runs from equal generator states differ in output or in the states left behind"))
    if cons < 0 or cons2 < 0:
        out.append((names + ":consumption", "the state of a generator after the calls is not reachable from its initial state by whole canonical draws")); return out
    if known and not out and (cons, cons2) != (tot[0], tot[1]):
        out.append((names + ":consumption", f"({cons}, {cons2}) uniforms consumed from (the generator of the calls, the other generator); the calls made -- the samplers' own draws and "
                    f"those of the calls inside their user functions -- account for ({tot[0]}, {tot[1]})"))
    for kind, exp in first_expected:
        got = firsts[:len(exp)]
        if got != exp:
            out.append((names + ":position", f"{kind}: at the first evaluations of its user function the two generators had made {got} canonical draws; the draws the sampler and the "
                        f"nested calls have made by then are {exp} (the sampler must draw from the generator passed to it, so that a call inside the user function sees its state)"))
    for sd, st_, cn, nx, which in ((seed, state, cons, nxt, "the generator of the calls"), (seed2, None, cons2, nxt2, "the other generator")):
        g = MT(sd, st_ or None)
        for _ in range(2 * cn): g.raw()
        r = g.raw()
        if r != nx: out.append((names + ":state", f"next raw output of {which} {nx}, MT19937 advanced by {cn} canonical draws gives {r}"))
    return out


def op_name(o):
    while o[0] == "onaux": o = o[1]
    return o[4][0] if o[0] == "nest" else o[0]


def seqh_predicates(c, io):
    """a history of calls in a process that has called nothing before: the clauses of seqn, the acceptance / Knuth / range rules of every call on
    the uniforms it drew, and -- equal generator states give identical outputs and leave equal states behind -- every answer against the
    answer of a pristine process to the same call from the same generator states"""
    if " FRESH " not in io: return []                # the history terminated the process: decided by the comparison with the model
    main, fresh = io.split(" FRESH ", 1)
    out = seqn_predicates(c, main)
    seed, state, us, ops, seed2, vs = parse_seq(c.line, True)
    if not any(has_nest(o) for o in ops) and not any(sig.endswith(":shape") for sig, _ in out):
        viol, _k, expects_exit = replay_seq(us, ops, parse_vals(main)[:-7], vs)
        out += [x for x in viol if x not in out]
        if expects_exit: out.append(("+".join(sorted({op_name(o) for o in ops})) + ":guard", "on the uniforms of the case a guard terminates the process; the implementation returned"))
    t = fresh.split()
    try:
        K = int(t[0]); flags = [int(x) for x in t[1:1 + K]]; k = 1 + K; diffs = {}
        while k < len(t):
            if t[k] != "DIFF": raise ValueError
            j = int(t[k + 1])
            if t[k + 2] == "STATUS": diffs[j] = ("status", t[k + 3]); k += 4
            else:
                n = int(t[k + 4]); diffs[j] = (int(t[k + 2]), int(t[k + 3]), " ".join(t[k + 5:k + 5 + n])); k += 5 + n
        if K != len(ops): raise ValueError
    except (ValueError, IndexError):
        return out + [("seqh:shape", "the pristine-process section of the output is malformed")]
    for j, f in enumerate(flags):
        if f == 1: continue
        nm = op_name(ops[j]); d = diffs.get(j)
        if d and d[0] == "status":
            out.append((nm + ":history-independence", f"call {j + 1} of the history ({nm}) returned, the same call from the same generator states in a process that has made no call before ended with {d[1]}"))
        else:
            what = []
            if d and not d[0]: what.append("the state of its generator afterwards differs")
            if d and not d[1]: what.append("the state of the other generator afterwards differs")
            vals = [str(x) for x in parse_vals(d[2])] if d else []
            out.append((nm + ":history-independence", f"call {j + 1} of the history ({nm}) depends on the calls made before it in the process: from the same generator states a process that has made "
                        f"no call before returns {' '.join(vals)[:200]}" + ("; " + ", ".join(what) if what else "") + " (equal generator states must give identical outputs and leave equal states behind)"))
    return out


# ------------------------------------------------------------------ seventh pass: acceptance statistic (seqw), generator in the model (seqg)
class _Line:
    def __init__(s, line, tags): s.line = line; s.tags = tags


def seqg_as_seq(c):
    """the seq case with the same generator state and calls, the uniforms computed by the Python MT19937 (for the S4 predicates only)"""
    t = c.line.split(); n = int(t[1]); seed = int(t[2]); ns = int(t[3]); state = [int(x) for x in t[4:4 + ns]]
    g = MT(seed, state or None); us = [g.canon() for _ in range(n + 2)]
    return _Line(" ".join(["seq"] + t[2:4 + ns] + [flist(us)] + t[5 + ns:]), getattr(c, "tags", ()))


def avg_accept(dim, us, k0, sigmas, im, dom, e):
    """sum of the acceptance probabilities of the im iterations (in the library's order of operations), None if the chain cannot be followed"""
    def pdf(p): return feval(e, p[0], p[1]) if dim == 2 else feval(e, p[0])
    def ratio(a, b):
        if b == 0.0: return math.nan if (a == 0.0 or a != a) else math.copysign(math.inf, a) * math.copysign(1.0, b)
        return a / b
    k = k0
    if k + dim + (dim + 1) * im > len(us): return None
    if dom: x = tuple(us[k + c] * (dom[2 * c + 1] - dom[2 * c]) + dom[2 * c] for c in range(dim))
    else:
        x = []
        for c in range(dim):
            z = lib_inv_erf(2.0 * us[k + c] - 1.0)
            if z is None: return None
            x.append(0.0 + SQ2 * sigmas[c] * z)
        x = tuple(x)
    k += dim; tot = 0.0
    for _i in range(im):
        cand = []
        for c in range(dim):
            z = lib_inv_erf(2.0 * us[k + c] - 1.0)
            if z is None: return None
            cand.append(x[c] + SQ2 * sigmas[c] * z)
        cand = tuple(cand); u = us[k + dim]; k += dim + 1
        if dom and any(cand[c] < dom[2 * c] or cand[c] > dom[2 * c + 1] for c in range(dim)): a = 0.0
        else:
            r = ratio(pdf(cand), pdf(x)); a = r if r < 1.0 else 1.0
        tot += a
        if u < a: x = cand
    return tot


def seqw_predicates(c, io):
    out = []
    seed, state, us, ops = parse_seq(c.line)
    if io.startswith("EXIT"): return [("metro:exit", "Sample_Metropolis terminated the process on a well-formed request")]
    head, _, tail = io.partition(" A ")
    v = parse_vals(head); printed = tail.split()
    # the values without the warning flags are a seq output: all predicates of the plain samplers apply
    plain = []; flags = []; q = 0
    for o in ops:
        cnt = v[q]; w = 1 + cnt * (2 if o[0] == "metro2" else 1)
        plain += v[q:q + w]; flags.append(v[q + w]); q += w + 1
    plain += v[q:]
    def tok(x): return hx(x) if isinstance(x, float) else str(x)
    out += predicates(_Line("seq" + c.line[4:], getattr(c, "tags", ())), " ".join(tok(x) for x in plain))
    k0 = 0
    for j, o in enumerate(ops):
        d2 = o[0] == "metro2"; dim = 2 if d2 else 1
        sig = (o[1], o[2]) if d2 else (o[1],); s_, th, b_ = o[dim + 1:dim + 4]; dom = o[dim + 4]; e = o[dim + 5]
        im = imax32(s_, th, b_)
        tot = avg_accept(dim, us, k0, sig, im, dom, e); k0 += dim + (dim + 1) * im
        if tot is None: continue
        if im == 0:
            if flags[j]: out.append((o[0] + ":warning", "efficiency warning printed for a chain without iterations (average 0/0)"))
            continue
        av = tot / im; lo, hi = 1e-3, 1.0 - 1e-2
        slack = 4.0 * im * 2.0 ** -53 + 1e-13        # a priori: im additions and one ulp per acceptance probability, relative to an average <= 1
        expect = av < lo or av > hi
        if min(abs(av - lo), abs(av - hi)) > slack and bool(flags[j]) != expect:
            out.append((o[0] + ":warning", f"average acceptance probability {av!r} over {im} iterations: the efficiency warning (< 1e-3 or > 1 - 1e-2) was {'printed' if flags[j] else 'not printed'}"))
        if flags[j] and j < len(printed) and printed[j].startswith("p"):
            try: pv = float(printed[j][1:])
            except ValueError: pv = None
            if pv is None or abs(pv - av) > 1e-5 * abs(av) + 1e-300:          # operator<< prints 6 significant digits
                out.append((o[0] + ":average", f"the warning reports the average acceptance probability {printed[j][1:]}, the chain's is {av!r}"))
    return out


def predicates(c, io):
    out = []
    if io.startswith(("CRASH", "SANITIZER", "TIMEOUT", "HARNESSERR")): return out        # reported generically
    kind = c.line.split(None, 1)[0]
    if kind == "seqw": return seqw_predicates(c, io)
    if kind == "seqg": return predicates(seqg_as_seq(c), io)
    if kind in ("law", "lawh"): return law_predicates(c, io)
    if kind == "seqn": return seqn_predicates(c, io)
    if kind == "seqh": return seqh_predicates(c, io)
    if kind == "mgrid":
        t = c.line.split(); sample, thin, burn, dim, bounded = (int(x) for x in t[2:7])
        if io.startswith("EXIT"): return [("mgrid:exit", "Sample_Metropolis terminated the process")]
        cnt, cons, inside, det = parse_vals(io)[:4]
        if thin >= 1 and cnt != sample: out.append(("metro:count", f"Sample_Metropolis{'_2D' if dim == 2 else ''}: {cnt} samples for (sample, thinning, burn_in) = ({sample}, {thin}, {burn})"))
        if not inside: out.append(("metro:domain", f"a sample lies outside the bounded domain, (sample, thinning, burn_in) = ({sample}, {thin}, {burn}), dim {dim}"))
        if not det: out.append(("metro:determinism", "two runs from equal generator states differ in output or in the state left behind"))
        exp = (1 + 2 * imax32(sample, thin, burn)) if dim == 1 else (2 + 3 * imax32(sample, thin, burn))
        if cons != exp: out.append(("metro:consumption", f"{cons} uniforms consumed, the loop structure draws {exp}"))
        return out
    seed, state, us, ops = parse_seq(c.line)
    exited = io.startswith("EXIT")
    v = None if exited else parse_vals(io)
    viol, k, expects_exit = replay_seq(us, ops, v[:-3] if v else None)
    out += viol
    names = "+".join(sorted({o[0] for o in ops}))
    if exited:
        if not expects_exit and k is not None and not viol: out.append((names + ":exit", "the sequence terminated the process although no guard applies on the uniforms drawn"))
        return out
    if expects_exit: out.append((names + ":guard", "on the uniforms of the case a guard terminates the process (rejection guards, domain size)"
                                + (f" after {k} uniforms" if k is not None else "") + "; the implementation returned"))
    cons, det, nxt = v[-3], v[-2], v[-1]
    if det != 1: out.append((names + ":determinism", "two runs from equal generator states differ in output or in the state left behind"))
    if cons < 0: out.append((names + ":consumption", "the generator state after the calls is not reachable from the initial state by whole canonical draws"))
    else:
        if k is not None and not expects_exit and not viol and cons != k: out.append((names + ":consumption", f"{cons} uniforms consumed, the control flow of the calls accounts for {k}"))
        g = MT(seed, state or None)
        for _ in range(2 * cons): g.raw()
        r = g.raw()
        if r != nxt: out.append((names + ":state", f"next raw generator output {nxt}, MT19937 advanced by {cons} canonical draws gives {r}"))
    return out


# ------------------------------------------------------------------ link-time check: no other source of randomness
FORBIDDEN_SYMS = re.compile(r"random_device|\brand(_r)?\b|\bsrand\b|[dlmej]rand48|\brandom(_r)?\b|\bsrandom\b|getrandom|getentropy|arc4random|\btime\b|\bclock\b|clock_gettime|gettimeofday|chrono|\bgetpid\b|RDRAND|rdseed|Integrate_MC|Vegas|Miser|mersenne_twister_engine<.*>::seed|seed_seq")


def extra(ctx, rng):
    res = {"violations": [], "broken": []}
    lib = os.path.join(ctx["lib"], "libphysica.a")
    r = subprocess.run(["nm", "-C", "-u", lib], stdout=subprocess.PIPE, stderr=subprocess.DEVNULL, text=True)
    cur = None; und = {}
    for l in r.stdout.split("\n"):
        m = re.match(r"^(\S+\.o):$", l)
        if m: cur = m.group(1); und[cur] = []; continue
        m = re.match(r"^\s+[Uw]\s+(.*)$", l)
        if m and cur: und[cur].append(m.group(1))
    if "Statistics.o" not in und:
        res["broken"].append({"kind": "link-check", "what": "Statistics.o not found in libphysica.a"}); return res
    found = {}
    for obj in ("Statistics.o", "Numerics.o", "Special_Functions.o"):       # the samplers and what they call (Find_Root, Inv_Erf, Relative_Difference)
        bad = [s for s in und.get(obj, []) if FORBIDDEN_SYMS.search(s)]
        if bad: found[obj] = bad
    res["link_check"] = {"objects": ["Statistics.o", "Numerics.o", "Special_Functions.o"], "undefined_symbols_Statistics.o": len(und["Statistics.o"]),
                         "forbidden_found": found, "libphysica_callees_of_Statistics.o": sorted({s.split("(")[0] for s in und["Statistics.o"] if s.startswith("libphysica::")})}
    for obj, bad in found.items():
        res["violations"].append({"sig": "link:randomness-source", "msg": f"{obj} references another source of randomness/time: {bad[:4]}", "case": f"nm -C -u {obj}", "impl": "; ".join(bad[:6]), "model": ""})
    try: selection_stage(ctx, rng, res)
    except Exception as e: res["broken"].append({"kind": "selection-stage", "what": f"{e!r}"})
    return res


def selection_stage(ctx, rng, res):
    """C18_metropolis_thinning_is_selection on the LIBRARY (a dozen pairs of short chains, milliseconds): the call (sample, thinning, burn_in) and the
    call (i_max, 1, 0) from the same generator state -- the first must return exactly the states of the second at the loop indices i >= burn_in with
    i % thinning == 0, consume the same number of uniforms and leave the same generator state."""
    from vcheck import run_exe, canon_impl
    pairs = []
    for k in range(12):
        d2 = k % 3 == 2
        th = rng.choice([1, 2, 3, 5, 7]); b = rng.choice([0, 1, 2, 3, 4, 6, 9, 11]); sm = rng.randrange(1, 6)
        if k == 0: th, b, sm = 3, 7, 4
        im = b + th * sm
        sd = rng.randrange(2 ** 32)
        if d2:
            dom = rng.choice([[], [0.0, 1.0, 0.0, 1.0]]); head = f"metro2 {hx(0.3)} {hx(0.2)}"; fx = "+ x y" if dom else fx_peak2(0.0, 1.0, 0.0, 1.0); n = 2 + 3 * im
        else:
            dom = rng.choice([[], [-1.0, 2.0]]); head = f"metro {hx(0.7)}"; fx = T1["gauss"][0]; n = 1 + 2 * im
        thin = seq_case(sd, [f"{head} {sm} {th} {b} {flist(dom)} {fx}"], n + 1, ("selection",))
        full = seq_case(sd, [f"{head} {im} 1 0 {flist(dom)} {fx}"], n + 1, ("selection",))
        pairs.append((d2, sm, th, b, im, thin.line, full.line))
    lines = [x for p in pairs for x in p[5:7]]
    out = [canon_impl(l) for l in run_exe(ctx["exe"], lines, ctx["work"], "impl_selection", env=HARNESS_ENV if "HARNESS_ENV" in globals() else None)]
    done = 0
    for j, (d2, sm, th, b, im, lt, lf) in enumerate(pairs):
        ot, of = out[2 * j].split(), out[2 * j + 1].split()
        dim = 2 if d2 else 1
        try:
            nt, nf = int(ot[0]), int(of[0])
            vt = ot[1:1 + dim * nt]; vf = of[1:1 + dim * nf]; tt = ot[1 + dim * nt:]; tf = of[1 + dim * nf:]
        except (ValueError, IndexError):
            res["violations"].append({"sig": "metro:thinning-selection", "msg": "unexpected answer to a short Metropolis chain", "case": lt, "impl": out[2 * j] + " | " + out[2 * j + 1], "model": ""}); continue
        want = [x for i in range(im) if i >= b and i % th == 0 for x in vf[dim * i:dim * i + dim]]
        if nf != im or nt != sm or vt != want or tt != tf:
            res["violations"].append({"sig": "metro:thinning-selection", "msg": f"Sample_Metropolis{'_2D' if d2 else ''}(sample={sm}, thinning={th}, burn_in={b}) is not the selection of the loop indices "
                                      f"i >= burn_in, i % thinning == 0 from the chain (sample={im}, thinning=1, burn_in=0) run from the same generator state (or leaves another generator state): "
                                      f"got {nt} samples {vt[:6]}, the selection is {len(want) // dim} samples {want[:6]}; tails {tt} / {tf}", "case": lt, "impl": out[2 * j] + " | " + out[2 * j + 1], "model": ""})
        else: done += 1
    res["thinning_selection_pairs"] = {"pairs": len(pairs), "agree": done}
